"""Total derivative operator over z3 real terms (specification side of
"X is the derivative of Y").

Leaves are *jet variables*: a table  name -> {wrt: derivative term}  gives the
derivative of every base symbol (e.g. psi -> {R: psi_R, Z: psi_Z}, psi_R -> {R: psi_RR,
Z: psi_RZ}, f -> {R: fp*psi_R, ...}).  sqrt/exp/log/sin/cos applications created by the
Sym layer are fresh variables registered in ctx.apps; their derivatives follow the
chain rule (d sqrt(a) = da/(2 sqrt a), d exp(a) = exp(a) da, d log(a) = da/a,
d sin(a) = cos(a) da, d cos(a) = -sin(a) da, d erf(a) = 2/sqrt(pi) exp(-a^2) da).
"""
import z3

from .sym import Sym, lift, _ctx, _to_real


class Jets:
    def __init__(self, ctx, table, const=None):
        self.ctx = ctx
        self.const = const or (lambda name: False)
        self.table = {}  # z3 const name -> {wrt: z3 term}
        for k, d in table.items():
            nm = k.t.decl().name() if isinstance(k, Sym) else k
            self.table[nm] = {w: (lift(v).t if not z3.is_expr(v) else v) for w, v in d.items()}
        self.cache = {}

    def _app_of(self, name):
        for fname, d in self.ctx.apps.items():
            for arg, var in d.values():
                if var.decl().name() == name:
                    return fname, arg
        return None

    def D(self, x, wrt):
        t = x.t if isinstance(x, Sym) else x
        return Sym(z3.simplify(self._d(_to_real(t), wrt)))

    def at(self, x, var, value):
        """Evaluate term x at var := value, re-applying sqrt/exp/sin/... to the
        substituted arguments (function applications are opaque variables whose
        arguments may depend on var)."""
        t = x.t if isinstance(x, Sym) else x
        v = var.t if isinstance(var, Sym) else var
        val = value.t if isinstance(value, Sym) else (value if z3.is_expr(value) else lift(value).t)
        val = _to_real(val)
        return Sym(z3.simplify(self._at(t, v, val, {})))

    def _at(self, t, v, val, memo):
        k = t.get_id()
        if k in memo:
            return memo[k]
        if z3.is_const(t):
            if t.eq(v):
                r = val
            elif t.decl().kind() == z3.Z3_OP_UNINTERPRETED and self._app_of(t.decl().name()) is not None:
                f, a = self._app_of(t.decl().name())
                a2 = z3.simplify(self._at(a, v, val, memo))
                r = t if a2.eq(z3.simplify(a)) else self.ctx.apply(f, a2)
            else:
                r = t
        else:
            ch = [self._at(c, v, val, memo) for c in t.children()]
            r = t.decl()(*ch) if ch else t
        memo[k] = r
        return r

    def _d(self, t, w):
        key = (t.get_id(), w)
        if key in self.cache:
            return self.cache[key][1]
        r = self._d0(t, w)
        self.cache[key] = (t, r)
        return r

    def _d0(self, t, w):
        zero = z3.RealVal(0)
        if z3.is_rational_value(t) or z3.is_int_value(t):
            return zero
        if z3.is_const(t) and t.decl().kind() == z3.Z3_OP_UNINTERPRETED:
            nm = t.decl().name()
            if nm in self.table:
                return self.table[nm].get(w, zero)
            app = self._app_of(nm)
            if app is not None:
                f, a = app
                da = self._d(a, w)
                if f == "sqrt":
                    return da / (2 * t)
                if f == "exp":
                    return t * da
                if f == "log":
                    return da / a
                if f == "sin":
                    return Sym(self.ctx.apply("cos", a)).t * da
                if f == "cos":
                    return -Sym(self.ctx.apply("sin", a)).t * da
                if f == "erf":
                    e = Sym(self.ctx.apply("exp", z3.simplify(-(a * a)))).t
                    sp = Sym(self.ctx.apply("sqrt", self.ctx.pi().t)).t
                    return 2 / sp * e * da
                raise NotImplementedError("derivative of %s" % f)
            if nm == "pi" or self.const(nm):
                return zero
            raise KeyError("no jet for symbol %s" % nm)
        k = t.decl().kind()
        ch = t.children()
        if k == z3.Z3_OP_ADD:
            return z3.Sum(*[self._d(c, w) for c in ch])
        if k == z3.Z3_OP_SUB:
            r = self._d(ch[0], w)
            for c in ch[1:]:
                r = r - self._d(c, w)
            return r
        if k == z3.Z3_OP_UMINUS:
            return -self._d(ch[0], w)
        if k == z3.Z3_OP_MUL:
            terms = []
            for i, c in enumerate(ch):
                dc = self._d(c, w)
                if z3.is_rational_value(dc) and dc.numerator_as_long() == 0:
                    continue
                others = [x for j, x in enumerate(ch) if j != i]
                terms.append(z3.Product(*([dc] + others)) if others else dc)
            return z3.Sum(*terms) if terms else zero
        if k == z3.Z3_OP_DIV:
            a, b = ch
            return (self._d(a, w) * b - a * self._d(b, w)) / (b * b)
        if k == z3.Z3_OP_POWER and z3.is_rational_value(ch[1]) and ch[1].denominator_as_long() == 1:
            n = ch[1].numerator_as_long()
            return n * ch[0] ** (n - 1) * self._d(ch[0], w)
        if k == z3.Z3_OP_TO_REAL:
            return zero
        if k == z3.Z3_OP_ITE:
            return z3.If(ch[0], self._d(ch[1], w), self._d(ch[2], w))
        raise NotImplementedError("derivative of %s" % t.decl())
