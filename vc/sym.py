"""Symbolic value layer: run the REAL hypnotoad functions under CPython on `Sym`
objects that wrap z3 terms.

* Python float  -> z3 Real  (assumption A-REAL: exact real arithmetic)
* Python int    -> z3 Int   (A-INT: mathematical integers, true in CPython)
* Python bool   -> z3 Bool

Branching on a symbolic condition (`Sym.__bool__`) consults the decision stack of
the active `Ctx`; `vc.explore` re-executes the function until every feasible path
has been run (infeasible arms are pruned at decision time with an incremental z3
solver).

Division, sqrt and log record *safety obligations* (denominator != 0, argument in
domain), because z3's `x/0` is an unconstrained function.  Division by a
non-constant term is eliminated (fresh quotient `q` with `den != 0 -> q*den == num`)
so that every query stays polynomial.  sqrt/exp/log/sin/cos/... are fresh
variables per distinct argument plus axiom instances (listed in evidence).
"""
import fractions
import itertools
import numbers

import numpy
import z3

Fraction = fractions.Fraction


class SymbolicError(Exception):
    """The real code did something with a symbolic value that the layer cannot express
    (e.g. needed a concrete int).  Maps to exit 2/3, never to a violation."""


class PathPruned(Exception):
    """Raised inside a run when the current path became infeasible."""


def _is_num(t):
    return z3.is_rational_value(t) or z3.is_int_value(t) or z3.is_algebraic_value(t)


def realval(x):
    if isinstance(x, Fraction):
        return z3.RealVal(str(x))
    if isinstance(x, (int, numpy.integer)) and not isinstance(x, bool):
        return z3.RealVal(int(x))
    x = float(x)
    if x != x or x in (float("inf"), float("-inf")):
        raise SymbolicError("non-finite float %r met a symbolic value" % x)
    # decimal the float prints as == the literal as written in the source
    return z3.RealVal(str(Fraction(repr(x))))


class Ctx:
    """State of one execution (one path) of a real function on symbolic inputs."""

    current = None
    PI = z3.Real("pi")

    def __init__(self, prefix=(), feas_timeout_ms=4000):
        self.decisions = [list(d) for d in prefix]  # [value, alt_pending, term]
        self.ptr = 0
        self.feas_timeout_ms = feas_timeout_ms
        self.pc = []  # assumptions (pre) + decisions, in order
        self.axioms = []  # (term, note)
        self.safety = []  # dict(kind, cond, pc, where)
        self.obligations = []  # explicit assertions made by stubs / loop cuts
        self.counter = itertools.count()
        self.apps = {}  # fname -> {argid: (arg, var)}
        self.keep = []  # keep z3 refs alive so ids stay unique
        self.spec_mode = 0
        self.notes = []
        self.used_pi = False
        self.feas_unknown = 0
        self.n_feas = 0
        self.log = []  # free-form events recorded by stubs

    # -- context management ------------------------------------------------
    def __enter__(self):
        self._prev = Ctx.current
        Ctx.current = self
        return self

    def __exit__(self, *a):
        Ctx.current = self._prev
        return False

    # -- symbols -----------------------------------------------------------
    def real(self, name):
        return Sym(z3.Real(name))

    def int(self, name):
        return Sym(z3.Int(name))

    def bool(self, name):
        return Sym(z3.Bool(name))

    def fresh(self, stem, sort="real"):
        n = "%s!%d" % (stem, next(self.counter))
        return {"real": self.real, "int": self.int, "bool": self.bool}[sort](n)

    def pi(self):
        if not self.used_pi:
            self.used_pi = True
            self.axiom(
                z3.And(Ctx.PI > z3.RealVal("3.14159"), Ctx.PI < z3.RealVal("3.1416")),
                "3.14159 < pi < 3.1416",
            )
        return Sym(Ctx.PI)

    # -- assumptions ---------------------------------------------------------
    def assume(self, cond, note=None):
        t = _bool_term(cond)
        self.pc.append(t)

    def axiom(self, t, note):
        t = _bool_term(t)
        self.axioms.append((t, note))

    def oblige(self, cond, name, kind="assert"):
        """An obligation the caller must discharge at this program point."""
        self.obligations.append(
            dict(name=name, kind=kind, cond=_bool_term(cond), pc=list(self.pc))
        )

    def oblige_cases(self, cond, name, cases, kind="assert"):
        """Case split: prove `cond` under each case separately, and that the cases are
        exhaustive (helps the nonlinear solver; logically the same obligation)."""
        cs = [_bool_term(c) for c in cases]
        self.oblige(z3.Or(*cs), name + " [cases exhaustive]", kind="lemma")
        for k, c in enumerate(cs):
            self.obligations.append(dict(name="%s [case %d]" % (name, k), kind=kind, cond=_bool_term(cond), pc=list(self.pc) + [c]))

    def hyps(self, pc=None):
        return list(self.pc if pc is None else pc) + [a for a, _ in self.axioms]

    # -- branching -----------------------------------------------------------
    def decide(self, term):
        term = z3.simplify(term)
        if z3.is_true(term):
            return True
        if z3.is_false(term):
            return False
        if self.ptr < len(self.decisions):
            val = self.decisions[self.ptr][0]
            self.ptr += 1
        else:
            # syntactic shortcut: the condition (or its negation) is already on the path
            ids = self._pc_ids()
            nterm = z3.simplify(z3.Not(term))
            if term.get_id() in ids:
                can_t, can_f = True, False
            elif nterm.get_id() in ids:
                can_t, can_f = False, True
            else:
                can_t = self._feasible(term)
                can_f = self._feasible(nterm) if can_t else True
                if not can_t and not self._feasible(nterm):
                    can_f = False
            if can_t and can_f:
                val, pending = True, True
            elif can_t:
                val, pending = True, False
            elif can_f:
                val, pending = False, False
            else:
                raise PathPruned()
            if pending:
                self.decisions.append([val, pending])
                self.ptr += 1
            else:
                # forced: not a decision point (keeps replays aligned because the
                # same feasibility result is recomputed deterministically)
                self.decisions.append([val, False])
                self.ptr += 1
        c = term if val else z3.Not(term)
        self.pc.append(c)
        return val

    def _pc_ids(self):
        n = len(self.pc)
        if getattr(self, "_ids_n", -1) != n:
            # the simplified terms are kept alive: z3 reuses the id of a freed AST, and an id
            # of a dead term in this set would make an unrelated condition look "already decided"
            self._ids_terms = [z3.simplify(t) for t in self.pc]
            self._ids = set(t.get_id() for t in self._ids_terms)
            self._ids_n = n
        return self._ids

    def _feasible(self, term):
        """Is pc /\\ axioms /\\ term satisfiable?  (sliced to the constraints that share
        variables with `term`: pc itself is kept satisfiable, so the variable-disjoint
        remainder cannot change the answer)."""
        from . import query

        self.n_feas += 1
        r = query.check_sat(self.hyps(), term, self.feas_timeout_ms)
        if r == "unknown":
            self.feas_unknown += 1
            return True
        return r == "sat"

    # -- functions / division ---------------------------------------------
    def divide(self, num, den):
        """num/den with den non-constant: z3 native division; the safety obligation
        `den != 0` is recorded (assert) and then assumed for the rest of the path."""
        c = z3.simplify(den != 0)
        self.safety.append(dict(kind="div", cond=c, pc=list(self.pc), spec=self.spec_mode > 0))
        self.pc.append(c)
        return num / den

    def apply(self, fname, arg):
        arg = z3.simplify(arg)
        d = self.apps.setdefault(fname, {})
        k = arg.get_id()
        if k in d:
            return d[k][1]
        v = z3.Real("%s!%d" % (fname, next(self.counter)))
        self.keep.append(arg)
        # congruence with earlier applications (Ackermann instances)
        for a2, v2 in d.values():
            self.axiom(z3.Implies(arg == a2, v == v2), "%s congruence" % fname)
        d[k] = (arg, v)
        _AXIOMS.get(fname, lambda *a: None)(self, arg, v, d)
        return v


def term_vars(t, cache={}):
    """Names of the uninterpreted constants in t (memoised on AST id)."""
    k = t.get_id()
    if k in cache:
        return cache[k][1]
    out = set()
    seen = set()
    stack = [t]
    while stack:
        x = stack.pop()
        i = x.get_id()
        if i in seen:
            continue
        seen.add(i)
        if z3.is_const(x) and x.decl().kind() == z3.Z3_OP_UNINTERPRETED:
            out.add((x.decl().name(), x.sort().kind()))
        else:
            stack.extend(x.children())
    cache[k] = (t, frozenset(out))
    return cache[k][1]


def relevant_slice(hyps, goals):
    """Hypotheses connected (through shared variables) to the goals.  Ground
    hypotheses (no variables) are always kept."""
    hv = [(h, term_vars(h)) for h in hyps]
    want = set()
    for g in goals:
        want |= term_vars(g)
    picked = [False] * len(hv)
    changed = True
    while changed:
        changed = False
        for i, (h, vs) in enumerate(hv):
            if not picked[i] and (not vs or vs & want):
                picked[i] = True
                if not vs <= want:
                    want |= vs
                    changed = True
    return [h for (h, _), p in zip(hv, picked) if p]


def _ax_sqrt(ctx, a, v, d):
    ctx.axiom(z3.Implies(a >= 0, z3.And(v >= 0, v * v == a)), "sqrt(t)>=0, sqrt(t)^2=t")
    ctx.safety.append(
        dict(kind="sqrt-domain", cond=a >= 0, pc=list(ctx.pc), spec=ctx.spec_mode > 0)
    )
    ctx.pc.append(a >= 0)


def _ax_exp(ctx, a, v, d):
    ctx.axiom(v > 0, "exp>0")
    ctx.axiom(z3.Implies(a == 0, v == 1), "exp(0)=1")
    if getattr(ctx, "light_axioms", False):
        return
    for a2, v2 in d.values():
        if a2 is not a:
            ctx.axiom(
                z3.And(z3.Implies(a < a2, v < v2), z3.Implies(a2 < a, v2 < v)),
                "exp strictly increasing",
            )


def _ax_log(ctx, a, v, d):
    ctx.axiom(z3.Implies(a == 1, v == 0), "log(1)=0")
    ctx.safety.append(
        dict(kind="log-domain", cond=a > 0, pc=list(ctx.pc), spec=ctx.spec_mode > 0)
    )
    ctx.pc.append(a > 0)
    for a2, v2 in d.values():
        if a2 is not a:
            ctx.axiom(
                z3.Implies(
                    z3.And(a > 0, a2 > 0),
                    z3.And(z3.Implies(a < a2, v < v2), z3.Implies(a2 < a, v2 < v)),
                ),
                "log strictly increasing",
            )


def _ax_trig(which):
    def ax(ctx, a, v, d):
        other = "cos" if which == "sin" else "sin"
        o = ctx.apply(other, a) if a.get_id() not in ctx.apps.get(other, {}) else ctx.apps[other][a.get_id()][1]
        s, c = (v, o) if which == "sin" else (o, v)
        if which == "sin":  # emit the pair axioms once (when sin is created)
            pi = ctx.pi().t
            ctx.axiom(s * s + c * c == 1, "sin^2+cos^2=1")
            ctx.axiom(z3.Implies(a == 0, z3.And(s == 0, c == 1)), "sin0,cos0")
            ctx.axiom(z3.Implies(a == pi, z3.And(s == 0, c == -1)), "sin pi,cos pi")
            ctx.axiom(z3.Implies(a == 2 * pi, z3.And(s == 0, c == 1)), "sin 2pi,cos 2pi")
            ctx.axiom(z3.Implies(a == pi / 2, z3.And(s == 1, c == 0)), "sin pi/2")
            ctx.axiom(z3.Implies(a == -pi / 2, z3.And(s == -1, c == 0)), "sin -pi/2")
            ctx.axiom(z3.Implies(z3.And(a > 0, a < pi), s > 0), "sin>0 on (0,pi)")
            ctx.axiom(z3.Implies(z3.And(a > pi, a < 2 * pi), s < 0), "sin<0 on (pi,2pi)")

    return ax


def _ax_erf(ctx, a, v, d):
    ctx.axiom(z3.Implies(a == 0, v == 0), "erf(0)=0")
    ctx.axiom(z3.And(v > -1, v < 1, z3.Implies(a > 0, v > 0), z3.Implies(a < 0, v < 0)), "|erf|<1, sign(erf x)=sign x")
    if getattr(ctx, "light_axioms", False):
        return
    for a2, v2 in d.values():
        if a2 is not a:
            ctx.axiom(z3.And(z3.Implies(a < a2, v < v2), z3.Implies(a2 < a, v2 < v), z3.Implies(a == -a2, v == -v2)), "erf strictly increasing and odd")


_AXIOMS = {
    "erf": _ax_erf,
    "sqrt": _ax_sqrt,
    "exp": _ax_exp,
    "log": _ax_log,
    "sin": _ax_trig("sin"),
    "cos": _ax_trig("cos"),
}


def _bool_term(c):
    if isinstance(c, Sym):
        c = c.t
    if isinstance(c, (bool, numpy.bool_)):
        return z3.BoolVal(bool(c))
    if not z3.is_bool(c):
        raise SymbolicError("expected a Bool term, got %r" % (c,))
    return c


def _ctx():
    c = Ctx.current
    if c is None:
        raise SymbolicError("symbolic value used outside an active Ctx")
    return c


def lift(x):
    """Python / numpy scalar -> Sym."""
    if isinstance(x, Sym):
        return x
    if isinstance(x, (bool, numpy.bool_)):
        return Sym(z3.BoolVal(bool(x)))
    if isinstance(x, (int, numpy.integer)):
        return Sym(z3.IntVal(int(x)))
    if isinstance(x, (float, numpy.floating, Fraction)):
        return Sym(realval(x))
    if isinstance(x, numpy.ndarray) and x.ndim == 0:
        return lift(x.item())
    return NotImplemented


def _num_pair(a, b):
    """Coerce two numeric terms to a common sort (Int,Int) or (Real,Real)."""
    if z3.is_bool(a):
        a = z3.If(a, z3.IntVal(1), z3.IntVal(0))
    if z3.is_bool(b):
        b = z3.If(b, z3.IntVal(1), z3.IntVal(0))
    if z3.is_int(a) and z3.is_real(b):
        a = z3.ToReal(a)
    elif z3.is_real(a) and z3.is_int(b):
        b = z3.ToReal(b)
    return a, b


def _to_real(t):
    if z3.is_bool(t):
        t = z3.If(t, z3.IntVal(1), z3.IntVal(0))
    return z3.ToReal(t) if z3.is_int(t) else t


def _binop(f):
    def op(self, other):
        o = lift(other)
        if o is NotImplemented:
            return NotImplemented
        return f(self.t, o.t)

    return op


def _rbinop(f):
    def op(self, other):
        o = lift(other)
        if o is NotImplemented:
            return NotImplemented
        return f(o.t, self.t)

    return op


def _add(a, b):
    a, b = _num_pair(a, b)
    return Sym(z3.simplify(a + b))


def _sub(a, b):
    a, b = _num_pair(a, b)
    return Sym(z3.simplify(a - b))


def _mul(a, b):
    a, b = _num_pair(a, b)
    return Sym(z3.simplify(a * b))


def _truediv(a, b):
    a, b = _to_real(a), _to_real(b)
    b = z3.simplify(b)
    a = z3.simplify(a)
    if _is_num(b):
        if z3.is_true(z3.simplify(b == 0)):
            # the denominator is identically zero on this path (e.g. `maxp - pline[0]` on the arm where
            # the maximum IS pline[0]).  numpy would give inf/nan silently, plain floats would raise:
            # either way it is the same safety obligation `den != 0` as for a symbolic denominator,
            # here identically false -- recorded as such, and the path ends (assert-then-assume).
            try:
                c = _ctx()
            except Exception:
                c = None
            if c is not None and c.spec_mode == 0:
                c.safety.append(dict(kind="div", cond=z3.BoolVal(False), pc=list(c.pc), spec=False))
                raise PathPruned("division by a denominator that is identically zero on this path")
            raise ZeroDivisionError("float division by zero")
        return Sym(z3.simplify(a / b))
    return Sym(_ctx().divide(a, b))


def _floordiv(a, b):
    if z3.is_int(a) and z3.is_int(b):
        return Sym(z3.simplify(z3.If(b > 0, a / b, (-a) / (-b))))
    raise SymbolicError("floor division on reals is not modelled")


def _mod(a, b):
    if z3.is_int(a) and z3.is_int(b):
        q = z3.If(b > 0, a / b, (-a) / (-b))
        return Sym(z3.simplify(a - b * q))
    raise SymbolicError("modulo on reals is not modelled")


def _cmp(f):
    def op(self, other):
        o = lift(other)
        if o is NotImplemented:
            return NotImplemented
        a, b = self.t, o.t
        if z3.is_bool(a) and z3.is_bool(b):
            return Sym(z3.simplify(f(a, b)))
        a, b = _num_pair(a, b)
        return Sym(z3.simplify(f(a, b)))

    return op


class Sym:
    __slots__ = ("t", "__weakref__")
    # NB: deliberately no __array_priority__ (numpy would defer and ndarray-Sym ops fail)

    def __init__(self, t):
        self.t = t

    # ---- classification
    @property
    def is_bool(self):
        return z3.is_bool(self.t)

    @property
    def is_int(self):
        return z3.is_int(self.t)

    def concrete(self):
        """Python value if the term is a numeral / literal, else None."""
        t = z3.simplify(self.t)
        if z3.is_true(t):
            return True
        if z3.is_false(t):
            return False
        if z3.is_int_value(t):
            return t.as_long()
        if z3.is_rational_value(t):
            return Fraction(t.numerator_as_long(), t.denominator_as_long())
        return None

    # ---- arithmetic
    __add__ = _binop(_add)
    __radd__ = _rbinop(_add)
    __sub__ = _binop(_sub)
    __rsub__ = _rbinop(_sub)
    __mul__ = _binop(_mul)
    __rmul__ = _rbinop(_mul)
    __truediv__ = _binop(_truediv)
    __rtruediv__ = _rbinop(_truediv)
    __floordiv__ = _binop(_floordiv)
    __rfloordiv__ = _rbinop(_floordiv)
    __mod__ = _binop(_mod)
    __rmod__ = _rbinop(_mod)

    def __neg__(self):
        t = self.t
        if z3.is_bool(t):
            t = z3.If(t, z3.IntVal(1), z3.IntVal(0))
        return Sym(z3.simplify(-t))

    def __pos__(self):
        return self

    def __abs__(self):
        t = self.t
        return Sym(z3.simplify(z3.If(t >= 0, t, -t)))

    def __pow__(self, e):
        if isinstance(e, Sym):
            c = e.concrete()
            if c is None:
                raise SymbolicError("symbolic exponent")
            e = c
        if isinstance(e, (float, numpy.floating)) and float(e).is_integer():
            e = int(e)
        if isinstance(e, Fraction) and e.denominator == 1:
            e = int(e)
        if isinstance(e, (int, numpy.integer)):
            e = int(e)
            if e == 0:
                return Sym(z3.RealVal(1) if z3.is_real(self.t) else z3.IntVal(1))
            base = self
            r = None
            for _ in range(abs(e)):
                r = base if r is None else r * base
            return r if e > 0 else 1.0 / r
        e2 = Fraction(repr(float(e))) * 2
        if e2.denominator == 1:  # half-integer power
            k = int(e2)
            s = self.sqrt()
            return s ** k
        raise SymbolicError("unsupported exponent %r" % (e,))

    def __rpow__(self, base):
        c = self.concrete()
        if c is not None:
            return lift(base) ** c
        raise SymbolicError("symbolic exponent")

    # ---- comparisons
    __lt__ = _cmp(lambda a, b: a < b)
    __le__ = _cmp(lambda a, b: a <= b)
    __gt__ = _cmp(lambda a, b: a > b)
    __ge__ = _cmp(lambda a, b: a >= b)
    __eq__ = _cmp(lambda a, b: a == b)
    __ne__ = _cmp(lambda a, b: a != b)

    def __hash__(self):
        return id(self)

    def __copy__(self):
        return self

    def __deepcopy__(self, memo):
        return self  # immutable

    # ---- logic (bitwise operators on Bool, as numpy.logical_* / & | ~ would use)
    def __and__(self, o):
        o = lift(o)
        return Sym(z3.simplify(z3.And(_bool_term(self), _bool_term(o))))

    __rand__ = __and__

    def __or__(self, o):
        o = lift(o)
        return Sym(z3.simplify(z3.Or(_bool_term(self), _bool_term(o))))

    __ror__ = __or__

    def __invert__(self):
        return Sym(z3.simplify(z3.Not(_bool_term(self))))

    # ---- conversions
    def __bool__(self):
        t = self.t
        if not z3.is_bool(t):
            t = t != 0
        return _ctx().decide(t)

    def _need_concrete(self, what):
        c = self.concrete()
        if c is None:
            raise SymbolicError("%s of a symbolic value: %s" % (what, self.t))
        return c

    def __float__(self):
        return float(self._need_concrete("float()"))

    def __int__(self):
        return int(self._need_concrete("int()"))

    def __index__(self):
        c = self._need_concrete("index")
        if not isinstance(c, int):
            raise TypeError("non-integer index")
        return c

    def __round__(self, n=None):
        return round(float(self), n)

    def __repr__(self):
        s = str(self.t).replace("\n", " ")
        return "Sym(%s)" % (s if len(s) < 80 else s[:77] + "...")

    def __format__(self, spec):
        return repr(self)

    # ---- numpy ufunc dispatch on object arrays calls these methods
    def sqrt(self):
        t = z3.simplify(_to_real(self.t))
        if _is_num(t):
            f = self.concrete()
            if f is not None and f >= 0:
                n, d = f.numerator if isinstance(f, Fraction) else f, f.denominator if isinstance(f, Fraction) else 1
                import math

                rn, rd = math.isqrt(n), math.isqrt(d)
                if rn * rn == n and rd * rd == d:
                    return Sym(z3.RealVal(str(Fraction(rn, rd))))
        return Sym(_ctx().apply("sqrt", t))

    def _fn(name):
        def m(self):
            return Sym(_ctx().apply(name, _to_real(self.t)))

        m.__name__ = name
        return m

    exp = _fn("exp")
    log = _fn("log")
    sin = _fn("sin")
    cos = _fn("cos")
    arctan = _fn("arctan")
    arcsin = _fn("arcsin")
    arccos = _fn("arccos")
    tanh = _fn("tanh")
    erf = _fn("erf")
    del _fn

    def tan(self):
        return self.sin() / self.cos()

    def conjugate(self):
        return self

    @property
    def real(self):
        return self

    @property
    def imag(self):
        return 0.0

    def item(self):
        return self

    def copy(self):
        return self

    @property
    def shape(self):
        return ()

    @property
    def ndim(self):
        return 0


numbers.Number.register(Sym)


# ---- helpers for contract code ---------------------------------------------------
def ite(c, a, b):
    c = _bool_term(c)
    a, b = lift(a), lift(b)
    x, y = _num_pair(a.t, b.t)
    return Sym(z3.simplify(z3.If(c, x, y)))


def And(*cs):
    return Sym(z3.And(*[_bool_term(c) for c in cs])) if cs else Sym(z3.BoolVal(True))


def Or(*cs):
    return Sym(z3.Or(*[_bool_term(c) for c in cs])) if cs else Sym(z3.BoolVal(False))


def Not(c):
    return Sym(z3.Not(_bool_term(c)))


def Implies(a, b):
    return Sym(z3.Implies(_bool_term(a), _bool_term(b)))


class spec_mode:
    """Mark operations performed by contract (ghost) code."""

    def __enter__(self):
        _ctx().spec_mode += 1

    def __exit__(self, *a):
        _ctx().spec_mode -= 1
        return False


def obj_array(shape, maker):
    """numpy object array whose entries are maker(index tuple)."""
    a = numpy.empty(shape, dtype=object)
    for idx in numpy.ndindex(*a.shape):
        a[idx] = maker(idx)
    return a
