"""numpy pass-through shim + module patching helpers.

While a symbolic run is active the *name* `numpy` inside the hypnotoad modules is
rebound to `NumpyShim` (everything delegates to the real numpy, except allocation
routines, which allocate dtype=object so that `Sym` values can be stored, and a few
predicates that numpy cannot evaluate on object arrays).  All indexing, slicing,
broadcasting, ufunc dispatch, `where`, `argsort`, `piecewise`, ... remain numpy's.
"""
import contextlib
import importlib
import sys

import numpy as _np

from .sym import Sym, lift, _ctx, ite
import z3


def _has_sym(x):
    if isinstance(x, Sym):
        return True
    if isinstance(x, _np.ndarray):
        return x.dtype == object
    if isinstance(x, (list, tuple)):
        return any(_has_sym(y) for y in x)
    return False


class NumpyShim:
    def __init__(self):
        self._np = _np
        self.used = set()

    def __getattr__(self, name):
        return getattr(_np, name)

    # -- allocation: object dtype
    def zeros(self, shape, dtype=None, **kw):
        self.used.add("zeros")
        a = _np.empty(shape, dtype=object)
        a[...] = 0.0
        return a

    def ones(self, shape, dtype=None, **kw):
        self.used.add("ones")
        a = _np.empty(shape, dtype=object)
        a[...] = 1.0
        return a

    def empty(self, shape, dtype=None, **kw):
        self.used.add("empty")
        return self.zeros(shape)

    def zeros_like(self, a, **kw):
        self.used.add("zeros_like")
        return self.zeros(_np.shape(a))

    def full(self, shape, v, **kw):
        self.used.add("full")
        a = _np.empty(shape, dtype=object)
        a[...] = v
        return a

    def array(self, x, dtype=None, **kw):
        if _has_sym(x):
            self.used.add("array")
            return _np.array(x, dtype=object, **kw)
        return _np.array(x, dtype=dtype, **kw)

    def asarray(self, x, dtype=None, **kw):
        if _has_sym(x):
            return _np.asarray(x, dtype=object)
        return _np.asarray(x, dtype=dtype, **kw)

    def float64(self, x):
        return x if isinstance(x, Sym) else _np.float64(x)

    def linspace(self, a, b, n=None, endpoint=True, num=None, **kw):
        n = num if n is None else n
        if _has_sym([a, b]):
            self.used.add("linspace")
            n = int(n)
            out = _np.empty(n, dtype=object)
            for i in range(n):
                out[i] = a + (b - a) * i / ((n - 1) if endpoint else n) if n > 1 else a
            return out
        return _np.linspace(a, b, n, endpoint=endpoint, **kw)

    # -- predicates numpy cannot evaluate on object arrays: reals are finite (A-REAL)
    def isnan(self, x):
        if _has_sym(x):
            self.used.add("isnan")
            return _np.zeros(_np.shape(x), dtype=bool) if _np.ndim(x) else False
        return _np.isnan(x)

    def isfinite(self, x):
        if _has_sym(x):
            self.used.add("isfinite")
            return _np.ones(_np.shape(x), dtype=bool) if _np.ndim(x) else True
        return _np.isfinite(x)

    def isclose(self, a, b, rtol=1.0e-5, atol=1.0e-8, **kw):
        if _has_sym([a, b]):
            self.used.add("isclose")
            return abs(a - b) <= atol + rtol * abs(b)
        return _np.isclose(a, b, rtol=rtol, atol=atol, **kw)

    def sign(self, x):
        if isinstance(x, Sym):
            self.used.add("sign")
            return ite(x > 0, 1.0, ite(x < 0, -1.0, 0.0))
        return _np.sign(x)

    def minimum(self, a, b):
        if isinstance(a, Sym) or isinstance(b, Sym):
            return ite(lift(a) <= lift(b), a, b)
        return _np.minimum(a, b)

    def maximum(self, a, b):
        if isinstance(a, Sym) or isinstance(b, Sym):
            return ite(lift(a) >= lift(b), a, b)
        return _np.maximum(a, b)

    def ceil(self, x):
        if isinstance(x, Sym):
            self.used.add("ceil")
            c = _ctx()
            k = c.fresh("ceil", "int")
            kr = Sym(z3.ToReal(k.t))
            c.axiom(z3.And((kr - 1 < x).t, (x <= kr).t), "k-1 < x <= k = ceil(x)")
            return k
        return _np.ceil(x)

    def nditer(self, ops, *a, **kw):
        if any(o is not None and _has_sym(_np.asarray(o, dtype=object) if isinstance(o, Sym) else o) for o in ops):
            self.used.add("nditer")
            return _ObjNditer(ops)
        return _np.nditer(ops, *a, **kw)

    @property
    def pi(self):
        c = _ctx()
        return c.pi()


class _ObjNditer:
    """numpy.nditer refuses object arrays without REFS_OK; same iteration protocol for
    the one pattern hypnotoad uses: nditer([in1, in2, None]) with `result[...] = v`."""

    def __init__(self, ops):
        ins = [_np.asarray(o, dtype=object) for o in ops if o is not None]
        shape = _np.broadcast(*ins).shape
        self.operands = []
        for o in ops:
            if o is None:
                self.operands.append(_np.empty(shape, dtype=object))
            else:
                self.operands.append(_np.broadcast_to(_np.asarray(o, dtype=object), shape))
        self.shape = shape

    def __enter__(self):
        return self

    def __exit__(self, *a):
        return False

    def __iter__(self):
        for idx in _np.ndindex(*self.shape):
            yield tuple(_Cell(op, idx) for op in self.operands)


class _Cell:
    """0-d view of one element: supports `cell[...] = v` and arithmetic on the value."""

    def __init__(self, arr, idx):
        self.arr, self.idx = arr, idx

    def __setitem__(self, k, v):
        self.arr[self.idx] = v

    def __getitem__(self, k):
        return self.arr[self.idx]

    def _v(self):
        return self.arr[self.idx]

    def __add__(self, o):
        return self._v() + o

    __radd__ = __add__

    def __sub__(self, o):
        return self._v() - o

    def __mul__(self, o):
        return self._v() * o

    __rmul__ = __mul__


@contextlib.contextmanager
def patched(*triples):
    """patched((obj, 'attr', value), ...) -- restore on exit."""
    saved = []
    missing = object()
    try:
        for obj, name, val in triples:
            if isinstance(obj, dict):
                saved.append((obj, name, obj.get(name, missing)))
                obj[name] = val
            else:
                saved.append((obj, name, obj.__dict__.get(name, missing) if hasattr(obj, "__dict__") else getattr(obj, name, missing)))
                setattr(obj, name, val)
        yield
    finally:
        for obj, name, old in reversed(saved):
            if isinstance(obj, dict):
                if old is missing:
                    obj.pop(name, None)
                else:
                    obj[name] = old
            else:
                if old is missing:
                    try:
                        delattr(obj, name)
                    except AttributeError:
                        pass
                else:
                    setattr(obj, name, old)


HYP_MODULES = [
    "hypnotoad.core.multilocationarray",
    "hypnotoad.core.equilibrium",
    "hypnotoad.core.mesh",
    "hypnotoad.cases.tokamak",
    "hypnotoad.cases.circular",
    "hypnotoad.cases.torpex",
    "hypnotoad.utils.polygons",
    "hypnotoad.utils.dct_interpolation",
    "hypnotoad.utils.critical",
]


@contextlib.contextmanager
def numpy_shimmed(modules=HYP_MODULES, shim=None):
    shim = shim or NumpyShim()
    triples = []
    for m in modules:
        mod = importlib.import_module(m)
        for nm in ("numpy", "np"):
            if getattr(mod, nm, None) is _np:
                triples.append((mod, nm, shim))
    with patched(*triples):
        yield shim
