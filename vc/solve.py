"""Discharge obligations: hyps |= goal  <=>  hyps /\\ not goal  unsat.

Every query is serialised to SMT-LIB text and solved in a worker process
(16 cores).  Portfolio per query: z3 5.1 default -> z3 `qfnra-nlsat` (pure real
queries) -> cvc5 1.4 (python API) on unknown.  Verdict mapping is fixed:
unsat -> discharged, sat -> failed (with model), anything else -> undecided.
"""
import concurrent.futures as cf
import os
import time

import z3


def to_smt2(hyps, goal, slice_=True):
    from .sym import relevant_slice

    s = z3.Solver()
    if slice_:
        hyps = relevant_slice(list(hyps), [goal])
    for h in hyps:
        s.add(h)
    s.add(z3.Not(goal))
    return s.to_smt2()


def _model_dict(m):
    out = {}
    for d in m.decls():
        if d.arity() != 0:
            continue
        v = m[d]
        try:
            if z3.is_int_value(v):
                out[d.name()] = str(v.as_long())
            elif z3.is_rational_value(v):
                out[d.name()] = "%d/%d" % (v.numerator_as_long(), v.denominator_as_long())
            elif z3.is_algebraic_value(v):
                out[d.name()] = v.as_decimal(17).rstrip("?")
            elif z3.is_true(v):
                out[d.name()] = "true"
            elif z3.is_false(v):
                out[d.name()] = "false"
            else:
                out[d.name()] = str(v)
        except Exception:  # pragma: no cover
            out[d.name()] = str(v)
    return out


def _z3_try(text, timeout_ms, tactic=None):
    ctx = z3.Context()
    fs = z3.parse_smt2_string(text, ctx=ctx)
    if tactic is None:
        s = z3.Solver(ctx=ctx)
    else:
        s = z3.Then(z3.Tactic("simplify", ctx=ctx), z3.Tactic("purify-arith", ctx=ctx), z3.Tactic(tactic, ctx=ctx), ctx=ctx).solver()
    s.set("timeout", int(timeout_ms))
    s.add(fs)
    r = s.check()
    if r == z3.unsat:
        return "unsat", None
    if r == z3.sat:
        return "sat", _model_dict(s.model())
    return "unknown", s.reason_unknown()


def _cvc5_try(text, timeout_ms):
    import cvc5

    tm = cvc5.TermManager() if hasattr(cvc5, "TermManager") else None
    slv = cvc5.Solver(tm) if tm is not None else cvc5.Solver()
    slv.setOption("tlimit-per", str(int(timeout_ms)))
    slv.setOption("produce-models", "true")
    slv.setLogic("ALL")
    parser = cvc5.InputParser(slv)
    # z3 prints (check-sat) at the end; drop it and any set-info lines cvc5 dislikes
    lines = [l for l in text.splitlines() if not l.startswith("(check-sat") and not l.startswith("(set-info")]
    parser.setStringInput(cvc5.InputLanguage.SMT_LIB_2_6, "\n".join(lines), "q")
    sm = parser.getSymbolManager()
    while True:
        cmd = parser.nextCommand()
        if cmd.isNull():
            break
        cmd.invoke(slv, sm)
    r = slv.checkSat()
    if r.isUnsat():
        return "unsat", None
    if r.isSat():
        model = {}
        try:
            for t in sm.getDeclaredTerms():
                model[str(t)] = str(slv.getValue(t))
        except Exception as e:  # pragma: no cover
            model["_error"] = repr(e)
        return "sat", model
    return "unknown", str(r)


def solve_text(text, timeout_s=30.0):
    """-> dict(status, model, backend, time_s, detail)

    `text` may carry two encodings of the same obligation separated by ;;;RAW;;; :
    the division-free normal form (first) and the raw form with native division."""
    t0 = time.time()
    tried = []
    budget = timeout_s * 1000
    raw = None
    if "\n;;;RAW;;;\n" in text:
        text, raw = text.split("\n;;;RAW;;;\n")
    if "Int" not in text:
        plan = [("z3-nlsat", "qfnra-nlsat", 0.04, text)]
        if raw is not None:
            plan.append(("z3-raw", None, 0.12, raw))
        plan += [("z3-nlsat", "qfnra-nlsat", 0.34, text), ("z3", None, 0.2, text), ("cvc5", None, 0.3, text)]
    else:
        plan = [("z3", None, 0.6, text), ("cvc5", None, 0.4, text)]
    last = None
    for name, tac, frac, tx in plan:
        try:
            if name == "cvc5":
                st, info = _cvc5_try(tx, budget * frac)
            else:
                st, info = _z3_try(tx, budget * frac, tac)
        except Exception as e:
            st, info = "unknown", "%s: %r" % (name, e)
        tried.append("%s:%s" % (name, st))
        if st in ("unsat", "sat"):
            return dict(status=st, model=info, backend=name, time_s=time.time() - t0, detail=" ".join(tried))
        last = info
    return dict(status="unknown", model=None, backend="none", time_s=time.time() - t0, detail=" ".join(tried) + " | " + str(last)[:200])


def _work(args):
    key, text, timeout_s = args
    r = solve_text(text, timeout_s)
    r["key"] = key
    return r


def solve_many(items, timeout_s=30.0, workers=None):
    """items: list of (key, smt2_text). Returns {key: result}."""
    if not items:
        return {}
    workers = workers or min(len(items), int(os.environ.get("VERIF_WORKERS", "8")))
    out = {}
    if workers <= 1 or len(items) <= 2:
        for k, t in items:
            out[k] = _work((k, t, timeout_s))
        return out
    import multiprocessing as mp

    with cf.ProcessPoolExecutor(max_workers=workers, mp_context=mp.get_context("fork")) as ex:
        for r in ex.map(_work, [(k, t, timeout_s) for k, t in items], chunksize=max(1, len(items) // (workers * 4))):
            out[r["key"]] = r
    return out
