"""Proof session: collects verification conditions from contract runs, discharges
them, replays failures, writes evidence, maps verdicts to exit codes.

exit 0 held (possibly with KNOWN-FINDING lines) · 1 violation · 2 undecided · 3 checker crash
"""
import hashlib
import importlib
import inspect
import json
import os
import re
import sys
import textwrap
import time
import traceback

import z3

from . import query, solve
from .explore import explore, ExploreStats
from .sym import Ctx, SymbolicError

ROOT = os.path.dirname(os.path.dirname(os.path.abspath(__file__)))
REPO = os.environ.get("VERIF_REPO", "/repo")

GLOBAL_ASSUMPTIONS = [
    "A-REAL: Python/numpy float64 arithmetic is treated as exact real arithmetic (source formulas over the reals; float literals read as the decimals they are written as)",
    "A-INT: Python int is a mathematical integer (true in CPython)",
    "engine: the Sym overloading layer, numpy object-array dispatch, the sympy rational normal form and the AST transforms are trusted; defended by must-fail twins and the native cross-check on every run",
]


NATIVE_KINDS = ("native", "native-all-shapes", "native-all-classes", "bounded-native", "regex-quotient", "bounded-grid")


def _sha(s):
    return hashlib.sha256(s.encode()).hexdigest()[:16]


def resolve(qual):
    """'hypnotoad.core.mesh:MeshRegion.calcMetric' -> object (None if the anchor is lost)."""
    modname, _, path = qual.partition(":")
    try:
        obj = importlib.import_module(modname)
        for part in path.split("."):
            if part:
                obj = getattr(obj, part)
        return obj
    except Exception:
        return None


class VC:
    __slots__ = ("id", "contract", "fn", "kind", "path", "smt2", "expect", "result", "note", "shape", "spec")

    def __init__(self, **kw):
        self.result = None
        self.note = None
        self.shape = None
        self.spec = False
        for k, v in kw.items():
            setattr(self, k, v)


class Session:
    def __init__(self, prop, tier, seed, level="proof"):
        self.prop = prop
        self.tier = tier
        self.seed = seed
        self.level = level
        self.t0 = time.time()
        self.vcs = []
        self.functions = {}  # qual -> dict(file, qualname, sha256, lines)
        self.lost_anchors = []
        self.assumptions = list(GLOBAL_ASSUMPTIONS)
        self.trusted = []
        self.stats = {}
        self.bounded = []
        self.replayers = {}  # contract name -> callable(vc, model) -> dict
        self.runs = {}  # contract name -> (run, expected_exceptions): for the generic concrete re-execution
        self.undecided = []
        self.crashes = []
        self.violations = []  # dict(vc, replay_path, reproduced)
        self.known_hits = []
        self.notes = []
        self.crosschecks = []
        self.solver_time = 0.0
        self.extraction = []
        self.extra_cov = {}

    # ------------------------------------------------------------------ registration
    def under_contract(self, *quals):
        out = []
        for q in quals:
            obj = resolve(q)
            if obj is None:
                self.lost_anchors.append(q)
                out.append(None)
                continue
            try:
                f = inspect.unwrap(obj) if callable(obj) else obj
                src = inspect.getsource(f)
                file = os.path.relpath(inspect.getsourcefile(f), REPO)
            except Exception:
                src, file = repr(obj), "?"
            self.functions[q] = dict(file=file, qualname=q.split(":")[1], sha256=_sha(src), lines=src.count("\n"))
            out.append(obj)
        return out[0] if len(out) == 1 else out

    def assume(self, text):
        if text not in self.assumptions:
            self.assumptions.append(text)

    def trust(self, text):
        if text not in self.trusted:
            self.trusted.append(text)

    # ------------------------------------------------------------------ VC generation
    def contract(self, name, fn, run, expected_exceptions=(), raises_ok=None, replay=None, shape=None, max_paths=5000, feas_timeout_ms=5000, min_paths=1, assume_safety=None):
        """Explore `run(ctx)` over all feasible paths, harvest obligations.

        raises_ok: None -> any path ending in an expected exception is an obligation
        failure candidate ("must not raise": path condition must be unsat);
        callable(path)->bool says whether raising on that path is allowed.
        """
        self.runs[name] = (run, expected_exceptions)
        st = ExploreStats()
        paths = 0
        n_assumed = 0
        names = set()
        try:
            for p in explore(run, expected_exceptions=expected_exceptions, max_paths=max_paths, feas_timeout_ms=feas_timeout_ms, stats=st):
                if getattr(p, "pruned", False):
                    # only the safety conditions asserted before the path became infeasible
                    if not assume_safety:
                        for k, s in enumerate(p.ctx.safety):
                            self._add(name, fn, "safety", p, "%s#%d[pruned path]" % (s["kind"], k), p.ctx.hyps(s["pc"]), s["cond"], shape, spec=s.get("spec", False))
                    for o in p.ctx.obligations:
                        if o["kind"] not in ("must-fail",):
                            self._add(name, fn, o["kind"], p, o["name"] + "[pruned path]", p.ctx.hyps(o["pc"]), o["cond"], shape)
                    continue
                paths += 1
                ctx = p.ctx
                for k, s in enumerate(ctx.safety):
                    if assume_safety:
                        n_assumed += 1
                        continue
                    self._add(name, fn, "safety", p, "%s#%d" % (s["kind"], k), ctx.hyps(s["pc"]), s["cond"], shape, spec=s.get("spec", False))
                for o in ctx.obligations:
                    self._add(name, fn, o["kind"], p, o["name"], ctx.hyps(o["pc"]), o["cond"], shape)
                    names.add(o["name"])
                if p.exc is not None and not (raises_ok and raises_ok(p)):
                    # "does not raise under the precondition": the path must be infeasible
                    self._add(name, fn, "no-raise", p, "no-raise:%s" % type(p.exc).__name__, ctx.hyps(), z3.BoolVal(False), shape)
                # reachability / vacuity: the finished path's condition must be satisfiable
                # (every decision was checked feasible when taken; re-checked in full for the
                # first 40 paths of a contract and whenever a feasibility query was undecided)
                if paths <= 40 or ctx.feas_unknown:
                    self._add(name, fn, "cover", p, "cover", ctx.hyps(), z3.BoolVal(False), shape)
        except SymbolicError as e:
            self.undecided.append("%s: %s" % (name, e))
        except Exception:
            self.crashes.append("%s: %s" % (name, traceback.format_exc()))
        if os.environ.get("VERIF_PROGRESS"):
            sys.stderr.write("[%6.1fs] %s: paths=%d pruned=%d feas=%d feas_unknown=%d explore=%.1fs vcs=%d\n" % (time.time() - self.t0, name, paths, st.pruned, st.feas_queries, st.feas_unknown, st.wall, len(self.vcs)))
            sys.stderr.flush()
        self.stats[name] = dict(paths=paths, pruned=st.pruned, feasibility_queries=st.feas_queries, feasibility_unknown=st.feas_unknown, explore_s=round(st.wall, 3))
        if paths < min_paths and not any(name in u for u in self.undecided + self.crashes):
            self.crashes.append("%s: only %d feasible path(s) (vacuous precondition?)" % (name, paths))
        if assume_safety:
            self.assume("%s: %d division/domain side conditions are ASSUMED as preconditions, not proved (%s)" % (name, n_assumed, assume_safety))
        if replay is not None:
            self.replayers[name] = replay
        return names

    def _add(self, contract, fn, kind, path, oname, hyps, goal, shape, spec=False):
        vid = "%s/%s@%s" % (contract, oname, path.tag)
        g0 = z3.simplify(goal)
        if z3.is_true(g0) and kind not in ("cover", "must-fail"):
            v = VC(id=vid, contract=contract, fn=fn, kind=kind, path=path.tag, smt2=None, expect="unsat", shape=shape, spec=spec)
            v.result = dict(status="unsat", backend="evaluated-true", time_s=0.0, model=None, detail="goal evaluated to True on this path")
            self.vcs.append(v)
            return
        try:
            text = query.obligation_smt2(hyps, goal)
            raw = query.obligation_smt2_raw(hyps, goal)
            if raw is not None:
                text = text + "\n;;;RAW;;;\n" + raw
        except Exception as e:
            self.crashes.append("%s: encoding failed: %r" % (vid, e))
            return
        expect = "sat" if kind in ("cover", "must-fail") else "unsat"
        self.vcs.append(VC(id=vid, contract=contract, fn=fn, kind=kind, path=path.tag, smt2=text, expect=expect, shape=shape, spec=spec))

    def static_vc(self, contract, fn, name, ok, detail="", kind="static", model=None):
        """An obligation decided by a non-SMT back end (AST frame analysis, DFA product, ...)."""
        v = VC(id="%s/%s" % (contract, name), contract=contract, fn=fn, kind=kind, path="-", smt2=None, expect="unsat")
        v.result = dict(status="unsat" if ok else "sat", backend=kind, time_s=0.0, model=model, detail=detail)
        self.vcs.append(v)
        return v

    # ------------------------------------------------------------------ discharge
    def discharge(self, timeout_s=40.0):
        todo = [(i, v.smt2) for i, v in enumerate(self.vcs) if v.result is None]
        t0 = time.time()
        res = solve.solve_many(todo, timeout_s=timeout_s, workers=int(os.environ.get("VERIF_WORKERS", "12")))
        for i, r in res.items():
            self.vcs[i].result = r
        self.solver_time += sum(r["time_s"] for r in res.values())
        # second pass for the queries left open: solver time limits are wall-clock, so a machine
        # that is busy with other work can starve a query that normally takes a fraction of its
        # budget.  Retried with three times the budget and half the workers (costs nothing when
        # nothing was left open); a verdict is only ever replaced by unsat / sat, never weakened.
        again = [(i, self.vcs[i].smt2) for i, r in res.items() if r["status"] == "unknown" and self.vcs[i].smt2 is not None]
        if again and len(again) <= 400:
            res2 = solve.solve_many(again, timeout_s=3 * timeout_s, workers=max(1, int(os.environ.get("VERIF_WORKERS", "12")) // 2))
            n_fixed = 0
            for i, r in res2.items():
                self.solver_time += r["time_s"]
                if r["status"] in ("unsat", "sat"):
                    r["detail"] = "second pass (3x budget): " + str(r.get("detail"))
                    self.vcs[i].result = r
                    n_fixed += 1
            self.stats["_second_pass"] = dict(retried=len(again), decided=n_fixed)
        self.stats["_discharge_wall_s"] = round(time.time() - t0, 2)

    # ------------------------------------------------------------------ verdicts
    def classify(self):
        ok, failed, undec, vac = [], [], [], []
        twins = {}
        anyof = {}
        for v in self.vcs:
            st = v.result["status"]
            if v.kind == "cover":
                if st == "unsat":
                    vac.append(v)  # an explored path is infeasible -> engine inconsistency
                continue
            if v.kind == "must-fail":
                twins.setdefault(re.sub(r"@[^@]*$", "", v.id), []).append(v)
                continue
            if v.kind.startswith("any-of:"):
                anyof.setdefault((v.contract, v.path, v.kind), []).append(v)
                continue
            if st == "unsat":
                ok.append(v)
            elif st == "sat":
                failed.append(v)
            else:
                undec.append(v)
        # any-of groups (per path): one proved member discharges the group
        for key, vs in anyof.items():
            good = [v for v in vs if v.result["status"] == "unsat"]
            if good:
                ok.append(good[0])
            elif all(v.result["status"] == "sat" for v in vs):
                failed.append(vs[0])
            else:
                undec.append(vs[0])
        # a deliberately wrong twin must be refuted on at least one path
        self.twins_refuted = 0
        for name, vs in twins.items():
            if any(v.result["status"] == "sat" for v in vs):
                self.twins_refuted += 1
            elif all(v.result["status"] == "unsat" for v in vs):
                vac.append(vs[0])
            else:
                undec.append(vs[0])
        return ok, failed, undec, vac

    def counts(self):
        ok, failed, undec, vac = self.classify()
        n = len(ok) + len(failed) + len(undec)
        return n, len(ok)

    # ------------------------------------------------------------------ finishing
    def finish(self, known_findings, lock=None):
        ok, failed, undec, vac = self.classify()
        rc = 0
        lines = []
        kf_entries = [k for k in known_findings if k.get("property") == self.prop and k.get("status") == "known"]
        kf_hit = {}
        os.makedirs(os.path.join(ROOT, "replays"), exist_ok=True)
        groups = {}
        for v in failed:
            groups.setdefault((v.contract, re.sub(r"@.*$", "", v.id)), []).append(v)
        for (cname, gid), vs in sorted(groups.items()):
            v = vs[0]
            model = v.result.get("model") or {}
            matched = None
            for k in kf_entries:
                if re.search(k["obligation"], gid) and _witness_ok(k.get("witness"), model):
                    matched = k
                    break
            if matched is not None:
                # the finding suppresses only failures INSIDE its witness class: re-solve every
                # VC of the group with the class excluded; a model outside it is a new violation
                outside = None
                for x in vs:
                    r2 = _resolve_outside(x, matched.get("witness"))
                    if r2 is not None and r2["status"] != "unsat":
                        outside = (x, r2)
                        break
                if outside is None:
                    kf_hit.setdefault(matched["id"], (matched, []))[1].append(gid)
                    continue
                v, r2 = outside
                if r2["status"] == "sat":
                    model = r2.get("model") or {}
                    v.result = dict(v.result, model=model, detail="outside known-finding class %s: %s" % (matched["id"], r2.get("detail")))
                else:
                    undec.append(v)
                    v.result = dict(v.result, status="unknown", detail="outside-class query undecided: %s" % r2.get("detail"))
                    continue
            rp = dict(property=self.prop, obligation=gid, function=v.fn, kind=v.kind, paths=[x.path for x in vs], backend=v.result.get("backend"), solver_model=model, solver_detail=v.result.get("detail"), source=self.functions.get(v.fn))
            reproduced = False
            if v.smt2 is None and model and v.kind in NATIVE_KINDS:
                # decided by executing the real code on this very input: the witness IS a native replay
                reproduced = True
                rp["native_replay"] = dict(reproduced=True, input=model, note="obligation decided by native execution of the real functions")
            rep = self.replayers.get(cname)
            if rep is None and model and cname in self.runs and v.smt2 is not None:
                rep = lambda vc_, model_, _c=cname, _g=v.id.rsplit("@", 1)[0]: concrete_replay(self.runs[_c][0], self.runs[_c][1], model_, _g.split("/", 1)[1] if "/" in _g else _g)
            if rep is not None:
                try:
                    out = rep(v, model)
                    rp["native_replay"] = out
                    reproduced = bool(out and out.get("reproduced"))
                except Exception:
                    rp["native_replay"] = dict(error=traceback.format_exc())
            path = os.path.join("replays", "%s-%s.json" % (self.prop, re.sub(r"[^A-Za-z0-9_.-]+", "_", gid)[:120]))
            with open(os.path.join(ROOT, path), "w") as f:
                json.dump(rp, f, indent=1, default=str)
            self.violations.append(dict(obligation=gid, replay=path, reproduced=reproduced))
            lines.append("VIOLATION property=%s replay=%s obligation=%s%s" % (self.prop, path, gid, "" if reproduced else " no-failing-input-found"))
            rc = 1
        for kid, (k, gids) in kf_hit.items():
            lines.append("KNOWN-FINDING: property=%s %s [%s; obligations: %s]" % (self.prop, k["what"], kid, ", ".join(sorted(set(gids))[:4])))
            self.known_hits.append(dict(id=kid, obligations=sorted(set(gids))))
        # lock: obligations must not silently disappear
        missing = []
        if lock is not None:
            have = set(re.sub(r"@.*$", "", v.id) for v in self.vcs if v.kind not in ("cover",))
            missing = sorted(set(lock) - have)
        if rc == 0:
            if self.crashes or vac:
                rc = 3
            elif undec or self.undecided or self.lost_anchors or missing:
                rc = 2
        n, nd = self.counts()
        if n == 0 and not self.bounded and rc == 0:
            rc = 3
            self.crashes.append("zero obligations generated")
        info = dict(rc=rc, lines=lines, undecided=[v.id + " :: " + str(v.result.get("detail"))[:160] for v in undec] + self.undecided, vacuous=[v.id for v in vac], crashes=self.crashes, lost_anchors=self.lost_anchors, missing_from_lock=missing)
        return info

    def evidence(self, info, checker_cmd):
        ok, failed, undec, vac = self.classify()
        n, nd = self.counts()
        by_backend = {}
        by_kind = {}
        for v in ok:
            by_backend[v.result["backend"]] = by_backend.get(v.result["backend"], 0) + 1
            by_kind[v.kind] = by_kind.get(v.kind, 0) + 1
        names = sorted(set(re.sub(r"@.*$", "", v.id) for v in self.vcs if v.kind != "cover"))
        level = self.level
        cov = dict(
            obligations=n,
            discharged=nd,
            failed=len(failed),
            undecided=len(undec) + len(self.undecided),
            distinct_obligation_names=len(names),
            covers_checked=len([v for v in self.vcs if v.kind == "cover"]),
            must_fail_twins_refuted=getattr(self, "twins_refuted", 0),
            checker_cmd=checker_cmd,
            trusted_base=self.trusted,
            backends=by_backend,
            obligations_by_kind=by_kind,
            solver_time_s=round(self.solver_time, 2),
            functions_under_contract=list(self.functions.values()),
            contracts=self.stats,
            samples=names[:12],
            crosscheck=self.crosschecks,
            extraction=self.extraction,
            known_findings=self.known_hits,
            violations=self.violations,
            lost_anchors=self.lost_anchors,
            notes=self.notes,
        )
        cov.update(self.extra_cov)
        if self.bounded:
            cov["bounded"] = self.bounded
            cov["evaluations"] = sum(b.get("evaluations", 0) for b in self.bounded)
            cov["distinct_nontrivial"] = sum(b.get("distinct_nontrivial", 0) for b in self.bounded)
            cov["rule"] = " | ".join(b.get("rule", "") for b in self.bounded)
        if level == "proof" and (nd != n or n == 0):
            level = "other"
        if level == "other":
            cov["explanation"] = "proof obligations: %d generated, %d discharged, %d failed (of which covered by known findings: %d groups), %d undecided; bounded sections: %d" % (n, nd, len(failed), len(self.known_hits), len(undec), len(self.bounded))
        ev = dict(property_id=self.prop, tier=self.tier, seed=self.seed, level=level, coverage=cov, assumptions=self.assumptions, wall_s=round(time.time() - self.t0, 2), violations=len(self.violations))
        return ev


def _resolve_outside(vc, witness):
    """Solve vc again with `not (witness class)` added.  None if there is no class."""
    if not witness or vc.smt2 is None:
        return None
    text = vc.smt2
    conj = []
    for var, val in witness.items():
        if ("(declare-fun %s ()" % var) not in text and ("(declare-const %s " % var) not in text:
            return dict(status="sat", model=vc.result.get("model"), detail="class variable %s does not occur in the obligation" % var)
        isint = ("(declare-fun %s () Int)" % var) in text
        f = _num(val)
        lit = str(int(f)) if isint else "(/ %d.0 %d.0)" % (f.numerator, f.denominator)
        conj.append("(= %s %s)" % (var, lit))
    extra = "(assert (not (and %s)))\n" % " ".join(conj)
    parts = []
    for part in text.split("\n;;;RAW;;;\n"):
        i = part.rfind("(check-sat)")
        parts.append(part[:i] + extra + part[i:])
    return solve.solve_text("\n;;;RAW;;;\n".join(parts), 60.0)


def _witness_ok(witness, model):
    """witness: None or dict var->value string that the solver model must match
    (only variables present in the model are compared)."""
    if not witness:
        return True
    for var, val in witness.items():
        if var in model and _num(model[var]) != _num(val):
            return False
    return True


def _num(s):
    from fractions import Fraction

    try:
        return Fraction(str(s).replace("?", ""))
    except Exception:
        try:
            return Fraction(float(str(s).replace("?", "")))
        except Exception:
            return s


def model_value(model, name, default=None):
    if name not in model:
        return default
    v = _num(model[name])
    try:
        return float(v)
    except Exception:
        return default


class _Inconclusive(Exception):
    pass


def concrete_replay(run, expected_exceptions, model, oname):
    """Replay of a counterexample on the real code: the contract's run function (which calls
    the real hypnotoad function objects) is executed again under CPython with every symbolic
    input replaced by the model's value -- exact rational arithmetic (Sym wrapping z3
    numerals), no solver involved; sqrt/exp/... applications take the model's value for that
    application (else a 12-digit rational approximation).  The obligation is then EVALUATED."""
    import math
    from fractions import Fraction

    from .shim import numpy_shimmed
    from .sym import Ctx, Sym

    vals = {}
    for k, v in model.items():
        try:
            v2 = _num(v)
            if isinstance(v2, Fraction):
                vals[k] = v2
        except Exception:
            pass
    used, defaulted, approx = {}, [], []

    class ConcreteCtx(Ctx):
        def _val(self, name, default):
            if name in vals:
                used[name] = str(vals[name])
                return vals[name]
            defaulted.append(name)
            return default

        def real(self, name):
            f = self._val(name, Fraction(1))
            return Sym(z3.RealVal(str(Fraction(f))))

        def int(self, name):
            return Sym(z3.IntVal(int(self._val(name, 1))))

        def bool(self, name):
            b = model.get(name)
            return Sym(z3.BoolVal(str(b).lower() == "true"))

        def pi(self):
            return Sym(z3.RealVal(str(Fraction(vals.get("pi", Fraction(math.pi)))))) if "pi" in vals else Sym(z3.RealVal("3.14159265358979"))

        def decide(self, term):
            t = z3.simplify(term)
            if z3.is_true(t):
                return True
            if z3.is_false(t):
                return False
            raise _Inconclusive("a branch condition does not evaluate on the model: %s" % str(t)[:120])

        def apply(self, fname, arg):
            a = z3.simplify(arg)
            name = "%s!%d" % (fname, next(self.counter))
            if name in vals:
                used[name] = str(vals[name])
                return z3.RealVal(str(Fraction(vals[name])))
            if z3.is_rational_value(a):
                x = float(a.as_fraction())
                try:
                    y = {"sqrt": math.sqrt, "exp": math.exp, "log": math.log, "sin": math.sin, "cos": math.cos, "erf": math.erf}[fname](x)
                except Exception:
                    raise _Inconclusive("%s(%r) undefined" % (fname, x))
                approx.append("%s(%.6g)" % (fname, x))
                return z3.RealVal(str(Fraction(y).limit_denominator(10**12)))
            raise _Inconclusive("%s applied to a non-numeral" % fname)

    ctx = ConcreteCtx([])
    out = dict(kind="concrete re-execution of the real function on the solver's model (exact rationals)", inputs=None)
    try:
        with numpy_shimmed():
            with ctx:
                try:
                    run(ctx)
                except _Inconclusive as e:
                    return dict(out, reproduced=False, note="inconclusive: %s" % e)
                except tuple(expected_exceptions or ()) as e:
                    out["raised"] = repr(e)[:200]
    except Exception:
        return dict(out, reproduced=False, note="re-execution failed: " + traceback.format_exc()[-400:])
    out["inputs"] = dict(sorted(used.items())[:60])
    if defaulted:
        out["inputs_not_in_model_set_to_1"] = sorted(set(defaulted))[:30]
    if approx:
        out["transcendental_values_approximated"] = approx[:10]
    pre_false = [str(t)[:100] for t in ctx.pc if z3.is_false(z3.simplify(t))]
    if pre_false:
        return dict(out, reproduced=False, note="the completed model violates a precondition on re-execution: %s" % pre_false[:2])
    hits = [o for o in ctx.obligations if o["name"] == oname]
    if oname.startswith("no-raise:"):
        return dict(out, reproduced="raised" in out, note="re-execution %s" % ("raised " + out.get("raised", "") if "raised" in out else "did not raise"))
    if not hits:
        return dict(out, reproduced=False, note="obligation not reached on the path taken by this input")
    verdicts = []
    for o in hits:
        t = z3.simplify(o["cond"])
        verdicts.append("false" if z3.is_false(t) else ("true" if z3.is_true(t) else "open"))
    out["obligation_values"] = verdicts
    if "false" in verdicts:
        return dict(out, reproduced=True, note="the obligation evaluates to False on this input")
    return dict(out, reproduced=False, note="the obligation does not evaluate to False on this input (%s)" % ",".join(verdicts))
