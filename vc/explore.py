"""All-paths exploration by re-execution (depth first over the decision stack)."""
import time

from .sym import Ctx, PathPruned, SymbolicError


class Path:
    def __init__(self, index, ctx, result, exc):
        self.index = index
        self.ctx = ctx
        self.result = result
        self.exc = exc
        self.decisions = [d[0] for d in ctx.decisions[: ctx.ptr]]
        self.pruned = False

    @property
    def tag(self):
        return "".join("T" if d else "F" for d in self.decisions) or "-"


class ExploreStats:
    def __init__(self):
        self.paths = 0
        self.pruned = 0
        self.feas_queries = 0
        self.feas_unknown = 0
        self.wall = 0.0


def explore(run, expected_exceptions=(), max_paths=20000, feas_timeout_ms=4000, stats=None):
    """Yield a Path for every feasible path of `run(ctx)`.

    `run` creates its symbols from ctx, assumes the precondition, calls the real
    function and posts obligations with ctx.oblige().  Exceptions listed in
    `expected_exceptions` terminate a path normally (path.exc is set); any other
    exception propagates (checker crash, exit 3) -- except SymbolicError which also
    propagates (undecided, exit 2).
    """
    st = stats if stats is not None else ExploreStats()
    t0 = time.time()
    prefix = []
    n = 0
    while True:
        ctx = Ctx(prefix, feas_timeout_ms=feas_timeout_ms)
        pruned = False
        res = exc = None
        with ctx:
            try:
                res = run(ctx)
            except PathPruned:
                pruned = True
            except SymbolicError:
                raise
            except expected_exceptions as e:  # noqa
                exc = e
        st.feas_queries += ctx.n_feas
        st.feas_unknown += ctx.feas_unknown
        if pruned:
            st.pruned += 1
            if ctx.safety or ctx.obligations:
                # the path condition became unsatisfiable AFTER some safety conditions had been
                # asserted (assert-then-assume): e.g. a divisor that is identically zero makes the
                # rest of the path infeasible.  Those assertions are still obligations.
                pp = Path(-1, ctx, None, None)
                pp.pruned = True
                yield pp
        else:
            st.paths += 1
            yield Path(n, ctx, res, exc)
            n += 1
            if n > max_paths:
                raise SymbolicError("path explosion: more than %d paths" % max_paths)
        d = [list(x) for x in ctx.decisions[: ctx.ptr]]
        while d and not d[-1][1]:
            d.pop()
        if not d:
            break
        d[-1] = [not d[-1][0], False]
        prefix = d
    st.wall += time.time() - t0
