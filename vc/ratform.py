"""Division-free normal form of real-arithmetic queries.

`Sym` real terms keep z3's native division.  Before a query goes to a solver every
arithmetic atom  A ~ B  is rewritten, with sympy doing the algebra, to a polynomial
atom over the original variables:

    A - B = N / D   (common denominator, D kept factored)
    A == B   ->  N == 0          A != B  ->  N != 0
    A <  B   ->  N * D' < 0      (D' = product of the odd-power factors of D)  etc.

This is an equivalence when D != 0.  Every denominator in the program comes from a
division executed by the code (or by the contract), and each of those generated a
*safety obligation* `den != 0` that is discharged separately, in program order,
under the path condition at the division.  The rewritten query therefore receives
the hypotheses  den_j != 0  for the divisions executed before the obligation was
posted (`side` argument below).

`If(c, a, b)` sub-terms (from abs / min / max / sign) are abstracted by a fresh
variable v with hypotheses  c -> v == a,  not c -> v == b.
"""
import itertools

import sympy
import z3

_counter = itertools.count()


class Rationalizer:
    def __init__(self):
        self.sym2z3 = {}
        self.ite_defs = []  # z3 bool terms (already rationalised)
        self.ite_cache = {}
        self.atom_cache = {}
        self.keep = []

    # ---- z3 arithmetic term -> sympy expression
    def to_sympy(self, t):
        k = t.get_id()
        c = self.atom_cache.get(("s", k))
        if c is not None:
            return c
        r = self._to_sympy(t)
        self.atom_cache[("s", k)] = r
        self.keep.append(t)
        return r

    def _to_sympy(self, t):
        if z3.is_int_value(t):
            return sympy.Integer(t.as_long())
        if z3.is_rational_value(t):
            return sympy.Rational(t.numerator_as_long(), t.denominator_as_long())
        if z3.is_const(t) and t.decl().kind() == z3.Z3_OP_UNINTERPRETED:
            nm = t.decl().name()
            s = sympy.Symbol(nm, real=True)
            self.sym2z3[s] = t
            return s
        k = t.decl().kind()
        ch = t.children()
        if k == z3.Z3_OP_ADD:
            return sympy.Add(*[self.to_sympy(c) for c in ch])
        if k == z3.Z3_OP_MUL:
            return sympy.Mul(*[self.to_sympy(c) for c in ch])
        if k == z3.Z3_OP_SUB:
            r = self.to_sympy(ch[0])
            for c in ch[1:]:
                r = r - self.to_sympy(c)
            return r
        if k == z3.Z3_OP_UMINUS:
            return -self.to_sympy(ch[0])
        if k in (z3.Z3_OP_DIV,):
            return self.to_sympy(ch[0]) / self.to_sympy(ch[1])
        if k == z3.Z3_OP_TO_REAL:
            return self.to_sympy(ch[0])
        if k == z3.Z3_OP_POWER:
            e = self.to_sympy(ch[1])
            if e.is_Integer:
                return self.to_sympy(ch[0]) ** e
        if k == z3.Z3_OP_ITE:
            i = t.get_id()
            if i not in self.ite_cache:
                v = z3.Real("ite!%d" % next(_counter)) if z3.is_real(t) else z3.Int("ite!%d" % next(_counter))
                self.ite_cache[i] = v
                self.keep.append(t)
                c = self.formula(ch[0])
                self.ite_defs.append(z3.Implies(c, self.atom_eq(v, ch[1])))
                self.ite_defs.append(z3.Implies(z3.Not(c), self.atom_eq(v, ch[2])))
            return self.to_sympy(self.ite_cache[i])
        # anything else (idiv, mod, to_int, ...) : opaque atom
        i = t.get_id()
        if i not in self.ite_cache:
            v = z3.Real("opq!%d" % next(_counter)) if z3.is_real(t) else z3.Int("opq!%d" % next(_counter))
            self.ite_cache[i] = v
            self.keep.append(t)
            self.ite_defs.append(v == t)
        return self.to_sympy(self.ite_cache[i])

    # ---- sympy polynomial -> z3
    def to_z3(self, e):
        e = sympy.expand(e)
        return self._poly_z3(e)

    def _poly_z3(self, e):
        if e.is_Integer:
            return z3.RealVal(int(e))
        if e.is_Rational:
            return z3.RealVal("%d/%d" % (e.p, e.q))
        if e.is_Symbol:
            v = self.sym2z3[e]
            return z3.ToReal(v) if z3.is_int(v) else v
        if e.is_Add:
            return z3.Sum(*[self._poly_z3(a) for a in e.args])
        if e.is_Mul:
            return z3.Product(*[self._poly_z3(a) for a in e.args])
        if e.is_Pow and e.exp.is_Integer and e.exp > 0:
            b = self._poly_z3(e.base)
            return z3.Product(*([b] * int(e.exp)))
        raise ValueError("not a polynomial: %s" % e)

    def num_den(self, e):
        """e -> (N expanded polynomial, list of (factor, exponent)) with e = N / prod f^k."""
        e = sympy.together(e)
        n, d = sympy.fraction(e)
        facs = []
        coef = sympy.Integer(1)
        for f in sympy.Mul.make_args(d):
            if f.is_Number:
                coef *= f
                continue
            if f.is_Pow and f.exp.is_Integer:
                facs.append((f.base, int(f.exp)))
            else:
                facs.append((f, 1))
        n = sympy.expand(n / coef)
        return n, facs

    def _sign_den(self, facs):
        odd = [f for f, k in facs if k % 2 == 1]
        return sympy.Mul(*odd) if odd else sympy.Integer(1)

    def atom(self, op, a, b):
        key = (op, a.get_id(), b.get_id())
        if key in self.atom_cache:
            return self.atom_cache[key]
        self.keep += [a, b]
        e = self.to_sympy(a) - self.to_sympy(b)
        n, facs = self.num_den(e)
        if op in ("==", "!="):
            lhs = self.to_z3(n)
        else:
            lhs = self.to_z3(n * self._sign_den(facs))
        zero = z3.RealVal(0)
        r = {"==": lhs == zero, "!=": lhs != zero, "<": lhs < zero, "<=": lhs <= zero, ">": lhs > zero, ">=": lhs >= zero}[op]
        r = z3.simplify(r)
        self.atom_cache[key] = r
        return r

    def atom_eq(self, a, b):
        return self.atom("==", a, b)

    # ---- boolean structure
    def formula(self, f):
        k = f.get_id()
        c = self.atom_cache.get(("f", k))
        if c is not None:
            return c
        r = self._formula(f)
        self.atom_cache[("f", k)] = r
        self.keep.append(f)
        return r

    def _formula(self, f):
        if z3.is_true(f) or z3.is_false(f):
            return f
        if z3.is_const(f):
            return f
        k = f.decl().kind()
        ch = f.children()
        if k == z3.Z3_OP_AND:
            return z3.And(*[self.formula(c) for c in ch])
        if k == z3.Z3_OP_OR:
            return z3.Or(*[self.formula(c) for c in ch])
        if k == z3.Z3_OP_NOT:
            return z3.Not(self.formula(ch[0]))
        if k == z3.Z3_OP_IMPLIES:
            return z3.Implies(self.formula(ch[0]), self.formula(ch[1]))
        if k == z3.Z3_OP_ITE:
            return z3.If(self.formula(ch[0]), self.formula(ch[1]), self.formula(ch[2]))
        if k in (z3.Z3_OP_EQ, z3.Z3_OP_IFF) and z3.is_bool(ch[0]):
            return self.formula(ch[0]) == self.formula(ch[1])
        if k == z3.Z3_OP_DISTINCT and len(ch) == 2 and not z3.is_bool(ch[0]):
            return self._arith("!=", ch[0], ch[1])
        ops = {z3.Z3_OP_EQ: "==", z3.Z3_OP_LT: "<", z3.Z3_OP_LE: "<=", z3.Z3_OP_GT: ">", z3.Z3_OP_GE: ">="}
        if k in ops:
            return self._arith(ops[k], ch[0], ch[1])
        return f

    def _arith(self, op, a, b):
        if z3.is_int(a) and z3.is_int(b):
            # pure integer atom: leave to the integer solver untouched
            return {"==": a == b, "!=": a != b, "<": a < b, "<=": a <= b, ">": a > b, ">=": a >= b}[op]
        return self.atom(op, a, b)


def _has_div(t, cache={}):
    k = t.get_id()
    if k in cache:
        return cache[k][1]
    r = False
    if z3.is_app(t):
        if t.decl().kind() == z3.Z3_OP_DIV or (t.decl().kind() == z3.Z3_OP_ITE and z3.is_real(t)):
            r = True
        else:
            r = any(_has_div(c) for c in t.children())
    cache[k] = (t, r)
    return r


def needs_rationalizing(terms):
    return any(_has_div(t) for t in terms)


def rationalize_query(hyps, goal):
    """-> (new_hyps, new_goal) division-free."""
    rz = Rationalizer()
    g = rz.formula(goal)
    hs = [rz.formula(h) for h in hyps]
    return hs + list(rz.ite_defs), g
