"""Cheap witness search for feasibility queries.

Before a path-feasibility query goes to a solver, random float points are evaluated
(vectorised) against the path condition.  A point that satisfies every constraint
*with a margin* (far above float rounding) is a witness: answer "sat" without a
solver.  The sampler never answers "unsat"; an erroneous "sat" could only make the
explorer run an infeasible path (whose obligations hold vacuously), so soundness of
the proofs does not depend on it.
"""
import numpy as np
import z3

from .sym import term_vars

_RNG = np.random.default_rng(12345)
N = 6000


class _Bad(Exception):
    pass


def _num(t, env, cache):
    k = t.get_id()
    if k in cache:
        return cache[k]
    r = _num0(t, env, cache)
    cache[k] = r
    return r


def _num0(t, env, cache):
    if z3.is_int_value(t):
        return float(t.as_long())
    if z3.is_rational_value(t):
        return t.numerator_as_long() / t.denominator_as_long()
    if z3.is_const(t) and t.decl().kind() == z3.Z3_OP_UNINTERPRETED:
        nm = t.decl().name()
        if nm not in env:
            raise _Bad(nm)
        return env[nm]
    k = t.decl().kind()
    ch = t.children()
    if k == z3.Z3_OP_ADD:
        r = _num(ch[0], env, cache)
        for c in ch[1:]:
            r = r + _num(c, env, cache)
        return r
    if k == z3.Z3_OP_MUL:
        r = _num(ch[0], env, cache)
        for c in ch[1:]:
            r = r * _num(c, env, cache)
        return r
    if k == z3.Z3_OP_SUB:
        r = _num(ch[0], env, cache)
        for c in ch[1:]:
            r = r - _num(c, env, cache)
        return r
    if k == z3.Z3_OP_UMINUS:
        return -_num(ch[0], env, cache)
    if k == z3.Z3_OP_DIV:
        a, b = _num(ch[0], env, cache), _num(ch[1], env, cache)
        b = np.where(np.abs(b) < 1e-7, np.nan, b)
        return a / b
    if k == z3.Z3_OP_TO_REAL:
        return _num(ch[0], env, cache)
    if k == z3.Z3_OP_ITE:
        c = _bool(ch[0], env, cache, True)
        cn = _bool(ch[0], env, cache, False)
        a, b = _num(ch[1], env, cache), _num(ch[2], env, cache)
        return np.where(c, a, np.where(cn, b, np.nan))
    if k == z3.Z3_OP_POWER and z3.is_rational_value(ch[1]):
        return _num(ch[0], env, cache) ** (ch[1].numerator_as_long() / ch[1].denominator_as_long())
    raise _Bad(str(t.decl()))


def _bool(t, env, cache, pos):
    """Vector of booleans: the constraint t (pos) / its negation (not pos) holds with margin."""
    key = (t.get_id(), pos)
    if key in cache:
        return cache[key]
    r = _bool0(t, env, cache, pos)
    cache[key] = r
    return r


def _bool0(t, env, cache, pos):
    if z3.is_true(t):
        return np.full(N, pos)
    if z3.is_false(t):
        return np.full(N, not pos)
    k = t.decl().kind()
    ch = t.children()
    if k == z3.Z3_OP_NOT:
        return _bool(ch[0], env, cache, not pos)
    if k == z3.Z3_OP_AND or k == z3.Z3_OP_OR:
        conj = (k == z3.Z3_OP_AND) == pos
        r = None
        for c in ch:
            v = _bool(c, env, cache, pos)
            r = v if r is None else (r & v if conj else r | v)
        return r
    if k == z3.Z3_OP_IMPLIES:
        a, b = ch
        if pos:
            return _bool(a, env, cache, False) | _bool(b, env, cache, True)
        return _bool(a, env, cache, True) & _bool(b, env, cache, False)
    if k in (z3.Z3_OP_LT, z3.Z3_OP_LE, z3.Z3_OP_GT, z3.Z3_OP_GE, z3.Z3_OP_EQ, z3.Z3_OP_DISTINCT) and not z3.is_bool(ch[0]):
        a, b = _num(ch[0], env, cache), _num(ch[1], env, cache)
        with np.errstate(all="ignore"):
            m = 1e-7 * (1.0 + np.abs(a) + np.abs(b))
            lt, gt = a < b - m, a > b + m
            ne = lt | gt
        never = np.zeros(N, dtype=bool)
        table = {
            (z3.Z3_OP_LT, True): lt, (z3.Z3_OP_LT, False): gt,
            (z3.Z3_OP_LE, True): lt, (z3.Z3_OP_LE, False): gt,
            (z3.Z3_OP_GT, True): gt, (z3.Z3_OP_GT, False): lt,
            (z3.Z3_OP_GE, True): gt, (z3.Z3_OP_GE, False): lt,
            (z3.Z3_OP_EQ, True): never, (z3.Z3_OP_EQ, False): ne,
            (z3.Z3_OP_DISTINCT, True): ne, (z3.Z3_OP_DISTINCT, False): never,
        }  # fmt: skip
        r = table[(k, pos)]
        return np.broadcast_to(r, (N,)) if np.ndim(r) == 0 else r
    raise _Bad(str(t.decl()))


def witness(terms):
    """True if some random point satisfies all terms with margin; False = don't know."""
    allv = set()
    for t in terms:
        allv |= term_vars(t)
    if not allv or any(k != z3.Z3_REAL_SORT or "!" in n for n, k in allv):
        return False
    env = {}
    for n, _ in sorted(allv):
        scale = _RNG.choice([1.0, 3.0, 0.3])
        env[n] = _RNG.uniform(-scale, scale, N)
        # sprinkle structured values (equal coordinates, zeros) for axis-aligned classes
        env[n][: N // 10] = np.round(env[n][: N // 10] * 2) / 2
    cache = {}
    try:
        ok = np.ones(N, dtype=bool)
        for t in terms:
            with np.errstate(all="ignore"):
                ok &= _bool(t, env, cache, True)
            if not ok.any():
                return False
        return bool(ok.any())
    except _Bad:
        return False
