"""Prepare (slice + rationalise) and run solver queries."""
import z3

from .sym import relevant_slice, term_vars
from . import ratform

RAW_FRACTION = 0.25
STATS = dict(sampled_sat=0, solver_calls=0)
_RZ = ratform.Rationalizer()  # process-global: z3 ASTs are hash-consed, ids are stable while kept alive


def prepare(hyps, goal_terms):
    """-> list of division-free hypotheses relevant to goal_terms, and the goals."""
    hyps = relevant_slice(list(hyps), goal_terms)
    if ratform.needs_rationalizing(list(hyps) + list(goal_terms)):
        n0 = len(_RZ.ite_defs)
        goals = [_RZ.formula(g) for g in goal_terms]
        hs = [_RZ.formula(h) for h in hyps]
        hs = relevant_slice(hs + list(_RZ.ite_defs), goals)
        return hs, goals
    return hyps, list(goal_terms)


def _pure_real(terms):
    allv = set()
    for t in terms:
        allv |= term_vars(t)
    return bool(allv) and all(k == z3.Z3_REAL_SORT for _, k in allv)


def check_sat(hyps, term, timeout_ms):
    """sat / unsat / unknown for hyps /\\ term."""
    from . import sampler

    raw = relevant_slice(list(hyps), [term])
    key = (frozenset(h.get_id() for h in raw), term.get_id())
    if key in _CACHE:
        STATS["cache_hits"] = STATS.get("cache_hits", 0) + 1
        return _CACHE[key][0]
    r = _check_sat(raw, hyps, term, timeout_ms)
    if r != "unknown":
        _CACHE[key] = (r, raw, term)  # keep the ASTs alive: ids stay unique
    return r


_CACHE = {}


def _check_sat(raw, hyps, term, timeout_ms):
    from . import sampler

    if sampler.witness(raw + [term]):
        STATS["sampled_sat"] += 1
        return "sat"
    STATS["solver_calls"] += 1
    # (1) z3's default solver on the raw terms (native division kept: sub-terms such
    # as Rcross stay atomic, which is what interval-style refutations need)
    s = z3.Solver()
    s.set("timeout", max(200, int(timeout_ms * RAW_FRACTION)))
    s.add(*(raw + [term]))
    try:
        r = s.check()
        if r == z3.unsat:
            STATS["raw_unsat"] = STATS.get("raw_unsat", 0) + 1
            return "unsat"
        if r == z3.sat and not ratform.needs_rationalizing(raw + [term]):
            return "sat"  # no division: z3's model is a real model
    except z3.Z3Exception:
        pass
    # (2) division-free normal form
    hs, (g,) = prepare(hyps, [term])
    terms = hs + [g]
    plan = ["nlsat", "default"] if _pure_real(terms) else ["default"]
    for which in plan:
        if which == "nlsat":
            s = z3.Then("simplify", "purify-arith", "qfnra-nlsat").solver()
        else:
            s = z3.Solver()
        s.set("timeout", int(timeout_ms))
        s.add(*terms)
        try:
            r = s.check()
        except z3.Z3Exception:
            continue
        if r == z3.sat:
            return "sat"
        if r == z3.unsat:
            return "unsat"
    return "unknown"


def obligation_smt2(hyps, goal):
    hs, (g,) = prepare(hyps, [goal])
    s = z3.Solver()
    s.add(*hs)
    s.add(z3.Not(g))
    return s.to_smt2()


def obligation_smt2_raw(hyps, goal):
    """The same obligation with z3's native division kept (sub-terms stay atomic);
    None when it would be identical to the division-free text."""
    raw = relevant_slice(list(hyps), [goal])
    if not ratform.needs_rationalizing(raw + [goal]):
        return None
    s = z3.Solver()
    s.add(*raw)
    s.add(z3.Not(goal))
    return s.to_smt2()
