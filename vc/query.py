"""Prepare (slice + rationalise) and run solver queries."""
import z3

from .sym import relevant_slice, term_vars
from . import ratform

_RZ = ratform.Rationalizer()  # process-global: z3 ASTs are hash-consed, ids are stable while kept alive


def prepare(hyps, goal_terms):
    """-> list of division-free hypotheses relevant to goal_terms, and the goals."""
    hyps = relevant_slice(list(hyps), goal_terms)
    if ratform.needs_rationalizing(list(hyps) + list(goal_terms)):
        n0 = len(_RZ.ite_defs)
        goals = [_RZ.formula(g) for g in goal_terms]
        hs = [_RZ.formula(h) for h in hyps]
        hs = relevant_slice(hs + list(_RZ.ite_defs), goals)
        return hs, goals
    return hyps, list(goal_terms)


def _pure_real(terms):
    allv = set()
    for t in terms:
        allv |= term_vars(t)
    return bool(allv) and all(k == z3.Z3_REAL_SORT for _, k in allv)


def check_sat(hyps, term, timeout_ms):
    """sat / unsat / unknown for hyps /\\ term."""
    hs, (g,) = prepare(hyps, [term])
    terms = hs + [g]
    plan = ["nlsat", "default"] if _pure_real(terms) else ["default"]
    for which in plan:
        if which == "nlsat":
            s = z3.Then("simplify", "purify-arith", "qfnra-nlsat").solver()
        else:
            s = z3.Solver()
        s.set("timeout", int(timeout_ms))
        s.add(*terms)
        try:
            r = s.check()
        except z3.Z3Exception:
            continue
        if r == z3.sat:
            return "sat"
        if r == z3.unsat:
            return "unsat"
    return "unknown"


def obligation_smt2(hyps, goal):
    hs, (g,) = prepare(hyps, [goal])
    s = z3.Solver()
    s.add(*hs)
    s.add(z3.Not(g))
    return s.to_smt2()
