"""Mechanical AST transforms of the CURRENT source of functions under contract.

Every transform re-reads the source from /repo's working tree on every run
(`inspect.getsource`), rewrites the AST and compiles the result in (a copy of) the
defining module's namespace.  What is changed -- and nothing else:

* lift_literals: a float literal becomes the exact decimal it is written as
  (CPython would otherwise fold `1.0/3.0` to a double before the symbolic layer sees
  it); `numpy.pi` becomes the symbol pi.
* extract_nested: a nested `def` is lifted out of its enclosing function, its free
  variables supplied by the harness (stated per use).
* cut_loops (vc/loopcut.py): `for i in range(n)` with symbolic n -> invariant cut.
* drop_io: `print(...)`, `warnings.warn(...)` expression statements are dropped.
"""
import ast
import inspect
import textwrap
from fractions import Fraction

import z3

from .sym import Sym, _ctx


def _vc_lit(text):
    return Sym(z3.RealVal(str(Fraction(text))))


def _vc_pi():
    return _ctx().pi()


class _Lift(ast.NodeTransformer):
    def __init__(self):
        self.n_literals = 0
        self.n_pi = 0
        self.n_io = 0

    def visit_Constant(self, node):
        if isinstance(node.value, float):
            self.n_literals += 1
            txt = repr(node.value)
            return ast.copy_location(ast.Call(func=ast.Name(id="_vc_lit", ctx=ast.Load()), args=[ast.Constant(value=txt)], keywords=[]), node)
        return node

    def visit_Attribute(self, node):
        self.generic_visit(node)
        if node.attr == "pi" and isinstance(node.value, ast.Name) and node.value.id in ("numpy", "np", "math"):
            self.n_pi += 1
            return ast.copy_location(ast.Call(func=ast.Name(id="_vc_pi", ctx=ast.Load()), args=[], keywords=[]), node)
        return node

    def visit_Expr(self, node):
        v = node.value
        if isinstance(v, ast.Call):
            f = v.func
            nm = f.id if isinstance(f, ast.Name) else (f.attr if isinstance(f, ast.Attribute) else None)
            if nm in ("print", "warn"):
                self.n_io += 1
                return ast.copy_location(ast.Pass(), node)
        self.generic_visit(node)
        return node


def get_source_tree(func):
    src = textwrap.dedent(inspect.getsource(func))
    return ast.parse(src), src


def find_def(tree, name):
    for node in ast.walk(tree):
        if isinstance(node, (ast.FunctionDef, ast.Lambda)) and getattr(node, "name", None) == name:
            return node
    return None


def recompile(func, extra_globals=None, nested=None, transformers=(), lift=True, report=None):
    """Recompile `func` (or the nested def `nested` inside it) from its current source."""
    func = inspect.unwrap(func)
    if hasattr(func, "__func__"):
        func = func.__func__
    tree, src = get_source_tree(func)
    fdef = tree.body[0]
    if nested is not None:
        fdef = find_def(fdef, nested)
        if fdef is None:
            raise LookupError("nested def %s not found in %s" % (nested, func.__qualname__))
    fdef.decorator_list = []
    lf = _Lift()
    if lift:
        fdef = lf.visit(fdef)
    for t in transformers:
        fdef = t.visit(fdef)
    free = {}
    if func.__closure__:
        for nm, cell in zip(func.__code__.co_freevars, func.__closure__):
            try:
                free[nm] = cell.cell_contents
            except ValueError:
                pass
    if extra_globals:
        free.update(extra_globals)
    # def _vc_factory(<free vars>): <def f ...>; return f   -- real closure, real module globals
    fac = ast.FunctionDef(
        name="_vc_factory",
        args=ast.arguments(posonlyargs=[], args=[ast.arg(arg=k) for k in free], kwonlyargs=[], kw_defaults=[], defaults=[]),
        body=[fdef, ast.Return(value=ast.Name(id=fdef.name, ctx=ast.Load()))],
        decorator_list=[],
        type_params=[],
    )
    mod = ast.Module(body=[fac], type_ignores=[])
    ast.fix_missing_locations(mod)
    g = func.__globals__  # the defining module's real namespace (sees shims and stubs)
    g["_vc_lit"] = _vc_lit
    g["_vc_pi"] = _vc_pi
    loc = {}
    code = compile(mod, "<vc:%s>" % func.__qualname__, "exec")
    exec(code, g, loc)
    out = loc["_vc_factory"](**free)
    if report is not None:
        report.append(dict(function=func.__qualname__ + ("." + nested if nested else ""), float_literals_lifted=lf.n_literals, pi_lifted=lf.n_pi, io_statements_dropped=lf.n_io, other_transforms=[type(t).__name__ for t in transformers]))
    return out
