#!/verif/.venv/bin/python
"""tools/seed_eval.py <seed-src-dir> <name> [--no-suite]

Confirm a property-breaking change independently and run the registered quick check
of its property against it:
  1. fresh scratch worktree of /repo HEAD (outside /repo and /verif);
  2. demo.py on the clean tree            -> must exit 0
  3. apply patch.diff; demo.py            -> must exit non-zero
  4. pinned test suite on the patched tree -> must pass (159)
  5. ./check <prop> --tier quick with VERIF_REPO=<scratch>   -> detected iff exit 1 + VIOLATION line
Results are written to /verif/seeded/<name>/meta.json (together with patch.diff, demo.py);
the scratch worktree is removed.
"""
import json
import os
import shutil
import subprocess
import sys
import time

ROOT = os.path.dirname(os.path.dirname(os.path.abspath(__file__)))


def sh(cmd, **kw):
    return subprocess.run(cmd, shell=True, capture_output=True, text=True, **kw)


def main():
    src, name = sys.argv[1], sys.argv[2]
    suite = "--no-suite" not in sys.argv
    props = [a.split("=")[1] for a in sys.argv if a.startswith("--props=")]
    meta_src = json.load(open(os.path.join(src, "meta.json"))) if os.path.exists(os.path.join(src, "meta.json")) else {}
    src = os.path.abspath(src)
    prop = meta_src.get("property") or name[:3]
    dst = os.path.join(ROOT, "seeded", name)
    os.makedirs(dst, exist_ok=True)
    for f in ("patch.diff", "demo.py"):
        if os.path.realpath(os.path.join(src, f)) != os.path.realpath(os.path.join(dst, f)):
            shutil.copy(os.path.join(src, f), os.path.join(dst, f))
    wt = "/tmp/seedwt_%s_%d" % (name, os.getpid())
    sh("git -C /repo worktree add -q --detach %s HEAD" % wt)
    old = json.load(open(os.path.join(dst, "meta.json"))) if os.path.exists(os.path.join(dst, "meta.json")) else {}
    out = dict(property=prop, name=name, source="independent sub-agent given only the property text", summary=meta_src.get("summary"), needs=meta_src.get("needs"), files=meta_src.get("files"), repo_commit=sh("git -C /repo rev-parse --short HEAD").stdout.strip())
    try:
        env = dict(os.environ, PYTHONPATH=wt, MPLBACKEND="Agg")
        r0 = sh("cd %s && timeout 900 /venv/bin/python %s/demo.py" % (dst, dst), env=env)
        out["demo_clean_exit"] = r0.returncode
        ap = sh("git -C %s apply %s/patch.diff" % (wt, dst))
        out["patch_applies"] = ap.returncode == 0
        if ap.returncode != 0:
            out["apply_error"] = ap.stderr[-500:]
        r1 = sh("cd %s && timeout 900 /venv/bin/python %s/demo.py" % (dst, dst), env=env)
        out["demo_patched_exit"] = r1.returncode
        out["demo_patched_tail"] = (r1.stdout + r1.stderr)[-600:]
        if suite:
            t0 = time.time()
            rs = sh("cd %s && timeout 3000 /venv/bin/python -m pytest -q -p no:cacheprovider -n 8 --timeout=900 hypnotoad 2>&1 | tail -3" % wt)
            out["suite_tail"] = rs.stdout.strip()[-300:]
            out["suite_passed"] = " passed" in rs.stdout and "failed" not in rs.stdout and "error" not in rs.stdout.lower()
            out["suite_wall_s"] = round(time.time() - t0)
        else:
            for k in ("suite_tail", "suite_passed", "suite_wall_s"):
                if k in old:
                    out[k] = old[k]
        out["checks"] = {}
        for p in props or [prop]:
            t0 = time.time()
            rc = sh("cd %s && VERIF_REPO=%s timeout 3000 .venv/bin/python check %s --tier quick" % (ROOT, wt, p))
            lines = [l for l in rc.stdout.splitlines() if l.startswith("VIOLATION") or l.startswith("KNOWN") or l.startswith(p)]
            out["checks"][p] = dict(exit=rc.returncode, detected=rc.returncode == 1 and any(l.startswith("VIOLATION") for l in lines), lines=[l[:300] for l in lines[:6]], wall_s=round(time.time() - t0))
        out["confirmed"] = bool(out["demo_clean_exit"] == 0 and out.get("patch_applies") and out["demo_patched_exit"] != 0 and (out.get("suite_passed", True)))
        out["what_was_run"] = "scratch worktree of /repo HEAD; demo.py clean/patched with PYTHONPATH=<worktree>; pinned suite on the patched tree; `check <prop> --tier quick` with VERIF_REPO=<worktree>"
    finally:
        sh("git -C /repo worktree remove --force %s" % wt)
    json.dump(out, open(os.path.join(dst, "meta.json"), "w"), indent=1)
    print(json.dumps({k: out.get(k) for k in ("name", "property", "confirmed", "demo_clean_exit", "demo_patched_exit", "suite_passed")}), {p: (c["exit"], c["detected"]) for p, c in out.get("checks", {}).items()})


if __name__ == "__main__":
    main()
