CHECKS = {
    "C02": dict(
        level="proof",
        bounded=True,
        text="Deductive: the real MeshRegion.calcMetric (both branches), geometry2, calcBeta and the zShift integrand are executed on symbolic arrays over all paths; matrix-inverse, Jacobian, closed-form and displacement-scalar-product postconditions are discharged by z3 nlsat for all real values and both signs of bpsign (A-REAL). Measured displacement/zShift agreement on generated grids is a bounded stand-in, reported separately and never counted as proved.",
        note="Trusted: Sym/numpy-object engine, sympy normal form, z3/cvc5; exact real arithmetic; element-wise action of numpy ufuncs; DDX/calc_curvature/calcHy stubbed by their own contracts; accuracy of the zShift integral and of hy (arc length) not proved (bounded only).",
        technique="contract-based deductive verification: symbolic execution of the real functions + z3 (qfnra-nlsat) discharge of postconditions; bounded run-time contracts on generated grids",
    ),
    "C07": dict(
        level="proof",
        bounded=True,
        text="Deductive: the real MeshRegion.calc_curvature (R-Z form, orthogonal and non-orthogonal) and the real Equilibrium helper chain are executed on jet symbols of psi and fpol; the three outputs are proved equal to curl(b/B).grad x/y/z built by a derivative operator over the jets, for all values (A-REAL). Agreement of the x-y derivative formulation to discretisation error is bounded only.",
        note="Trusted: engine, jets derivative operator, z3/cvc5. Assumed: interpolant contracts (Bp_R=psi_Z/R ...: proved in C18 under the scipy spline contract), geometry1/calcHy post-conditions as preconditions.",
        technique="contract-based deductive verification: symbolic execution of the real functions over jets + z3 nlsat discharge of rational-function identities",
    ),
    "C18": dict(
        level="proof",
        bounded=True,
        text="Deductive: each field-derivative helper equals D_R/D_Z of its own field and div B = 0 (jets); spline-branch and DCT-branch wiring of magneticFunctionsFromGrid under the assumed scipy contracts; every DCT_2D derivative method is the derivative of __call__ for all coefficients and evaluation points at bounded node-grid shapes; MultiLocationArray dispatch per location. Node reproduction and spline-vs-DCT agreement on smooth data are bounded numerical checks only.",
        note="Assumed (external): RectBivariateSpline derivative semantics and node interpolation, scipy dct definition. A-SHAPE for DCT node grids (3x2, 2x4).",
        technique="contract-based deductive verification: symbolic execution + derivative operator over jets + z3 nlsat",
    ),
}
_todo = "check not built yet in this session (work in progress; see DESIGN.md section 4 for the planned contracts)"
NOT_APPLICABLE = {k: _todo for k in ["C01", "C03", "C04", "C05", "C06", "C08", "C09", "C10", "C11", "C12", "C13", "C14", "C15", "C16", "C17", "C19", "C20"]}
