CHECKS = {
    "C02": dict(
        level="proof",
        bounded=True,
        text="Deductive: the real MeshRegion.calcMetric (both branches), geometry2, calcBeta and the zShift integrand are executed on symbolic arrays over all paths; matrix-inverse, Jacobian, closed-form and displacement-scalar-product postconditions are discharged by z3 nlsat for all real values and both signs of bpsign (A-REAL). Measured displacement/zShift agreement on generated grids is a bounded stand-in, reported separately and never counted as proved.",
        note="Trusted: Sym/numpy-object engine, sympy normal form, z3/cvc5; exact real arithmetic; element-wise action of numpy ufuncs; DDX/calc_curvature/calcHy stubbed by their own contracts; accuracy of the zShift integral and of hy (arc length) not proved (bounded only).",
        technique="contract-based deductive verification: symbolic execution of the real functions + z3 (qfnra-nlsat) discharge of postconditions; bounded run-time contracts on generated grids",
    ),
    "C07": dict(
        level="proof",
        bounded=True,
        text="Deductive: the real MeshRegion.calc_curvature (R-Z form, orthogonal and non-orthogonal) and the real Equilibrium helper chain are executed on jet symbols of psi and fpol; the three outputs are proved equal to curl(b/B).grad x/y/z built by a derivative operator over the jets, for all values (A-REAL). Agreement of the x-y derivative formulation to discretisation error is bounded only.",
        note="Trusted: engine, jets derivative operator, z3/cvc5. Assumed: interpolant contracts (Bp_R=psi_Z/R ...: proved in C18 under the scipy spline contract), geometry1/calcHy post-conditions as preconditions.",
        technique="contract-based deductive verification: symbolic execution of the real functions over jets + z3 nlsat discharge of rational-function identities",
    ),
    "C18": dict(
        level="proof",
        bounded=True,
        text="Deductive: each field-derivative helper equals D_R/D_Z of its own field and div B = 0 (jets); spline-branch and DCT-branch wiring of magneticFunctionsFromGrid under the assumed scipy contracts; every DCT_2D derivative method is the derivative of __call__ for all coefficients and evaluation points at bounded node-grid shapes; MultiLocationArray dispatch per location. Node reproduction and spline-vs-DCT agreement on smooth data are bounded numerical checks only.",
        note="Assumed (external): RectBivariateSpline derivative semantics and node interpolation, scipy dct definition. A-SHAPE for DCT node grids (3x2, 2x4).",
        technique="contract-based deductive verification: symbolic execution + derivative operator over jets + z3 nlsat",
    ),
    "C08": dict(
        level="proof",
        bounded=True,
        text="Deductive, unbounded in sizes: the real describeSingleNull/DoubleNull, createRegionObjects, EquilibriumRegion.__init__/ny, makeConnection, Mesh.__init__, BoutMesh.__init__ and the topology-integer block of writeGridfile (sliced mechanically) are executed for each of 8 topology structures with every nx_*, ny_*, nx_inter_sep and y_boundary_guards a symbolic integer; tiling, symmetry, BOUT++ adjacency (spec function bout_up) and index ordering are discharged as linear-integer obligations. Circular/TORPEX, y-coord/theta/chi and shared-edge coincidence are bounded grid checks only.",
        note="bout_up is a specification written from doc/grid-file.rst and BOUT++'s branch-cut semantics (assumed correct reading of BOUT++); findLegs/coreRegionToRegion/segmentsWithPsivals/makeRegions/ParallelMap stubbed by their own contracts.",
        technique="contract-based deductive verification: symbolic execution of the real book-keeping code with symbolic integer sizes + z3 linear integer arithmetic",
    ),
    "C13": dict(
        level="proof",
        bounded=True,
        text="Deductive (no process started): the real ParallelMap.__call__ and worker_run run against contract stubs of the two queues in which get() returns an arbitrary pending item; every completion order and every task pick-up order for n<=4 tasks (n<=5 thorough) is a path; result==[f(a) for a in args], exactly-once answering, clean queues and first-failure-raises are obligations on every path. Real-process runs (np=2,3, failing task at each position, watchdog) are a bounded stand-in.",
        note="Assumed: multiprocessing.Queue delivers each item exactly once in arbitrary order; dill/pickle round trips; no worker killed from outside. Bounded in the number of tasks (a Python list of symbolic length cannot be executed).",
        technique="contract-based deductive verification: exhaustive path exploration of the real code over symbolic scheduling choices; bounded native multiprocessing runs",
    ),
    "C17": dict(
        level="proof",
        bounded=True,
        text="Token lemma decided completely by enumerating the class-quotient of the token language on the real `re` after a syntactic proof that the extracted pattern is digit-blind; stream alignment of the real write()/read() for every nx,ny in 1..12 and all optional-entry variants; header parsing for every digit-length class; read_geqdsk axis/index/wall mapping proved symbolically (z3). The printf/float() 10-digit contract is assumed and swept (bounded).",
        note="Assumed: C printf %1.9E shape and correct rounding, Python re implements its pattern. A-SHAPE: array sizes up to 12 (all residues of the 5-per-line chunking). Preconditions: finite values, two-digit exponents, nx,ny<=9999.",
        technique="contract-based verification: symbolic execution (read_geqdsk) + exhaustive finite-quotient enumeration on the real functions (token lemma, alignment)",
    ),
    "C20": dict(
        level="proof",
        bounded=False,
        text="Deductive: the real find_intersections is explored over all feasible paths (slope classes, orderings, tolerance filters) on 8 symbolic real coordinates; soundness (reported point on both supporting lines, within the 1e-14-extended extents), completeness (meeting segments not parallel within the code's 1e-15 slope tolerance are reported, at the meeting point), shared-vertex behaviour with the real wallIntersection, closest_approach = min distance, polygons.area = shoelace (n=3..6), polygons.intersect <=> proper crossing by orientation signs -- all discharged by z3 nlsat / raw arithmetic.",
        note="A-REAL; wall edges treated independently (lane independence); shapes bounded for area/intersect; non-degeneracy preconditions exposed.",
        technique="contract-based deductive verification: all-paths symbolic execution of the real functions + z3 (nlsat, default) with cvc5 fallback",
    ),
}
_todo = "check not built yet in this session (work in progress; see DESIGN.md section 4 for the planned contracts)"
NOT_APPLICABLE = {k: _todo for k in ["C01", "C03", "C04", "C05", "C06", "C09", "C10", "C11", "C12", "C14", "C15", "C16", "C19"]}
