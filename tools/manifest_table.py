CHECKS = {
    "C02": dict(
        level="other",
        bounded=True,
        text="Deductive: the real MeshRegion.calcMetric (both branches), geometry2, calcBeta and the zShift integrand are executed on symbolic arrays over all paths; matrix-inverse, Jacobian, closed-form and displacement-scalar-product postconditions are discharged by z3 nlsat for all real values and both signs of bpsign (A-REAL). Reported as 'other' rather than 'proof' while known finding F10 (non-orthogonal g12/g13/g_12 sign for bpsign=+1) is unrepaired, because discharged != obligations. Measured displacement/zShift agreement on generated grids is a bounded stand-in.",
        note="Trusted: Sym/numpy-object engine, sympy normal form, z3/cvc5; exact real arithmetic; element-wise action of numpy ufuncs; DDX/calc_curvature/calcHy stubbed by their own contracts; accuracy of the zShift integral and of hy (arc length) not proved (bounded only).",
        technique="contract-based deductive verification: symbolic execution of the real functions + z3 (qfnra-nlsat) discharge of postconditions; bounded run-time contracts on generated grids",
    ),
}
_todo = "check not built yet in this session (work in progress; see DESIGN.md section 4 for the planned contracts)"
NOT_APPLICABLE = {k: _todo for k in ["C01", "C03", "C04", "C05", "C06", "C07", "C08", "C09", "C10", "C11", "C12", "C13", "C14", "C15", "C16", "C17", "C18", "C19", "C20"]}
