#!/verif/.venv/bin/python
"""Regenerate MANIFEST.json from the table below and validate it."""
import json, os, sys
ROOT = os.path.dirname(os.path.dirname(os.path.abspath(__file__)))
sys.path.insert(0, ROOT)
from tools.manifest_table import CHECKS, NOT_APPLICABLE

PY = ".venv/bin/python"
m = {
    "version": 1,
    "setup_cmd": "./setup.sh",
    "hooks": {
        "guard": "HYPNOTOAD_VERIF",
        "enable": "none needed: the checks import /repo's working tree and patch attributes / recompile functions from outside; no hook code exists in the repository, the guard variable is unused",
        "baseline_off_cmd": "cd /repo && /venv/bin/python -m pytest -ra -q -p no:cacheprovider --timeout=900 --continue-on-collection-errors",
        "source_commits": [],
        "add_only": True,
    },
    "engines": [
        {"name": "vc", "path": "vc/", "serves_properties": sorted(CHECKS), "kind_free_text": "contract-based deductive verification: the real functions from /repo are executed on symbolic values (z3 terms) over all feasible paths; pre/postconditions, loop invariants and ghost lemmas become obligations discharged by z3 (nlsat / default) with cvc5 as second solver; failed obligations are replayed natively"},
        {"name": "bounded", "path": "bounded/", "serves_properties": sorted(k for k, v in CHECKS.items() if v.get("bounded")), "kind_free_text": "bounded stand-in: the same contract clauses evaluated at run time on a bank of generated meshes / enumerated lattices; labelled bounded, never counted as proved"},
    ],
    "checks": [],
    "not_applicable": [{"property_id": k, "reason": v} for k, v in sorted(NOT_APPLICABLE.items())],
    "notes": "See DESIGN.md. Exit codes of every check: 0 held (possibly with KNOWN-FINDING lines), 1 violation, 2 undecided (solver budget / lost anchor), 3 checker crash.",
}
for pid in sorted(CHECKS):
    c = CHECKS[pid]
    m["checks"].append({
        "property_id": pid,
        "quick_cmd": "%s check %s --tier quick" % (PY, pid),
        "thorough_cmd": "%s check %s --tier thorough" % (PY, pid),
        "evidence_file": "evidence/%s.json" % pid,
        "replay_cmd_template": "%s check %s --replay {path}" % (PY, pid),
        "engine": "vc",
        "level_claimed": {"category": c["level"], "text": c["text"], "design_ref": c.get("design_ref", "DESIGN.md section 4 (%s)" % pid)},
        "level_note": c["note"],
        "technique": c["technique"],
    })
json.dump(m, open(os.path.join(ROOT, "MANIFEST.json"), "w"), indent=1)
import jsonschema
jsonschema.validate(m, json.load(open("/root/.vp/MANIFEST.schema.json")))
ids = [json.loads(l)["id"] for l in open(os.path.join(ROOT, "properties.jsonl"))]
missing = [i for i in ids if i not in CHECKS and i not in NOT_APPLICABLE]
assert not missing, missing
print("MANIFEST ok: %d checks, %d not_applicable" % (len(CHECKS), len(NOT_APPLICABLE)))
