#!/bin/sh
# tools/runall.sh [tier]  -- run every registered check on /repo, print one line per property
T=${1:-quick}
cd /verif
for c in $(python3 -c "import json; print(' '.join(x['property_id'] for x in json.load(open('MANIFEST.json'))['checks']))"); do
  s=$(date +%s)
  out=$(.venv/bin/python check $c --tier $T 2>/dev/null | grep -E "^(VIOLATION|KNOWN-FINDING|$c )" | cut -c1-160)
  echo "$out ($(( $(date +%s) - s ))s)"
done
