#!/bin/sh
# tools/mut.sh <prop> <file> <sed-expr>   -- apply a one-line mutation on a scratch worktree and run the quick check there
set -e
D=/tmp/mut.$$
git -C /repo worktree add -q --detach $D HEAD
trap 'git -C /repo worktree remove --force $D' EXIT
sed -i "$3" $D/$2
(cd $D && git diff --stat | tail -1)
VERIF_REPO=$D /verif/.venv/bin/python /verif/check $1 --tier quick 2>&1 | grep -v "^KNOWN" | cut -c1-220 | tail -${4:-4}
