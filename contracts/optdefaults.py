"""Defaults chain of the option tables (real optionsfactory objects of the real classes).

Many options are per-region / per-leg refinements of a general one and are documented to take the
general value unless given: `psinorm_pf_lower`, `psinorm_pf_upper` <- `psinorm_pf` <- `psinorm_core`;
`psinorm_sol_inner` <- `psinorm_sol`; `nx_sol_inner`, `nx_sol_outer` <- `nx_sol`; `nx_pf` <- `nx_core`;
`ny_<inner|outer>_<lower|upper>_divertor` <- `ny_<inner|outer>_divertor`;
`target_<leg>_poloidal_spacing_length` <- `target_all_poloidal_spacing_length`; the non-orthogonal
`..._<leg>_poloidal_spacing_range[_inner|_outer]` <- the `..._all_...` option of the same kind.

The table below is written from the option NAMES and their documentation, not read from the code.
Decided on the real factories, for every entry:
  (follows)      with only the parent set to a value v (distinct from every default), the option is v;
  (independent)  additionally setting any SIBLING (another child of the same parent) to another value
                 leaves it at v -- an option never takes its default from a sibling;
  (own value)    given explicitly, it has its own value whatever the parent says.
"""
import z3

from vc.sym import Sym

LEGS = ("inner_lower", "inner_upper", "outer_upper", "outer_lower")


def table():
    eq = {
        "psinorm_pf": ("psinorm_core", 0.87, 0.83),
        "psinorm_pf_lower": ("psinorm_pf", 0.91, 0.93),
        "psinorm_pf_upper": ("psinorm_pf", 0.91, 0.93),
        "psinorm_sol_inner": ("psinorm_sol", 1.17, 1.23),
        "nx_pf": ("nx_core", 7, 9),
        "nx_sol_inner": ("nx_sol", 7, 9),
        "nx_sol_outer": ("nx_sol", 7, 9),
        "ny_inner_lower_divertor": ("ny_inner_divertor", 7, 9),
        "ny_inner_upper_divertor": ("ny_inner_divertor", 7, 9),
        "ny_outer_lower_divertor": ("ny_outer_divertor", 7, 9),
        "ny_outer_upper_divertor": ("ny_outer_divertor", 7, 9),
    }
    for leg in LEGS:
        eq["target_%s_poloidal_spacing_length" % leg] = ("target_all_poloidal_spacing_length", 0.31, 0.47)
    non = {}
    for leg in LEGS:
        for suffix in ("range", "range_inner", "range_outer"):
            non["nonorthogonal_target_%s_poloidal_spacing_%s" % (leg, suffix)] = ("nonorthogonal_target_all_poloidal_spacing_%s" % suffix, 0.31, 0.47)
    return eq, non


def check(S, fn, which=("eq", "nonorth")):
    from hypnotoad.cases import tokamak as T

    eq_t, non_t = table()
    bad, n = [], 0
    for kind, tab, fac in (("eq", eq_t, T.TokamakEquilibrium.user_options_factory), ("nonorth", non_t, T.TokamakEquilibrium.nonorthogonal_options_factory)):
        if kind not in which:
            continue
        for opt, (parent, v, w) in tab.items():
            sibs = [o for o, (p, _, _) in tab.items() if p == parent and o != opt]
            try:
                n += 1
                got = fac.create({parent: v})[opt]
                if got != v:
                    bad.append(dict(option=opt, case="only %s=%r given" % (parent, v), got=repr(got), want=repr(v)))
                for s in sibs:
                    n += 1
                    got = fac.create({parent: v, s: w})[opt]
                    if got != v:
                        bad.append(dict(option=opt, case="%s=%r and sibling %s=%r given" % (parent, v, s, w), got=repr(got), want=repr(v)))
                n += 1
                got = fac.create({parent: v, opt: w})[opt]
                if got != w:
                    bad.append(dict(option=opt, case="given explicitly (%r) with %s=%r" % (w, parent, v), got=repr(got), want=repr(w)))
            except Exception as e:
                bad.append(dict(option=opt, case="evaluation raised", got=repr(e)))
    S.static_vc("option-defaults", fn, "per-region / per-leg options follow the general option they refine, never a sibling, and keep their own value when given (%d evaluations of the real option tables; table written from names and documentation)" % n, not bad and n >= 20, detail=repr(bad[:3]), kind="native-all-classes", model=bad[0] if bad else None)
    return Sym(z3.BoolVal(not bad))
