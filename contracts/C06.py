"""C06  zShift, ShiftAngle, dphidy and ShiftTorsion follow the field lines.

Deductive part (real code): MeshRegion.DDX -- centred x-differences at the four
locations, across inner/outer joins and one-sided at grid boundaries, with every divisor
a defined dx entry (the 'definedness' obligation that exposed F7); geometry2's dphidy
(proved in C02, referenced); the zShift integrand Bt/(R|Bp|) (C02).  calcZShift on a two-region chain (open and periodic) with cumulative_trapezoid / interp1d
replaced by their assumed contracts: zero at the chain start, the four location maps, hand-over
(continuity at the join), ShiftAngle from the LAST region of a periodic chain.
The accuracy of the integral is also checked on generated grids (continuity, chain total, half-cell position,
2*pi*q on the circular equilibrium): bounded.
"""
import types

import numpy
import z3

from vc.shim import numpy_shimmed, patched
from vc.sym import And, Or, Not, Implies, Sym, ite, spec_mode
from . import meshkit as mk

LEVEL = "proof"
FN_DDX = "hypnotoad.core.mesh:MeshRegion.DDX"
FN_ZS = "hypnotoad.core.mesh:MeshRegion.calcZShift"
TRUE = lambda b: Sym(z3.BoolVal(bool(b)))


def make_ddx_run(inner, outer):
    def run(ctx):
        from hypnotoad.core import mesh as M

        nx, ny = 2, 1
        r = mk.skeleton_region(True)
        r.nx, r.ny = nx, ny
        f = mk.sym_mla(ctx, "f", mk.LOCS4, nx, ny, shared=False)
        r.dx = mk.sym_mla(ctx, "dx", mk.LOCS4, nx, ny, shared=False)
        for l in mk.LOCS4:
            for v in getattr(r.dx, l).flat:
                ctx.assume(v != 0)
        r.fld = f
        fin = mk.sym_mla(ctx, "fin", mk.LOCS4, nx, ny, shared=False)
        fout = mk.sym_mla(ctx, "fout", mk.LOCS4, nx, ny, shared=False)
        r.connections = dict(inner=1 if inner else None, outer=2 if outer else None, lower=None, upper=None)
        r.meshParent = types.SimpleNamespace(regions={1: types.SimpleNamespace(fld=fin), 2: types.SimpleNamespace(fld=fout)})
        with patched((M.warnings, "warn", lambda *a, **k: None)):
            res = M.MeshRegion.DDX(r, "#fld")
        with spec_mode():
            for j in range(ny):
                for i in range(nx):
                    ctx.oblige(res.centre[i, j] * r.dx.centre[i, j] == f.xlow[i + 1, j] - f.xlow[i, j], "centre[%d]: (f.xlow[i+1]-f.xlow[i])/dx.centre" % i)
                for i in range(1, nx):
                    ctx.oblige(res.xlow[i, j] * r.dx.xlow[i, j] == f.centre[i, j] - f.centre[i - 1, j], "xlow[%d]: (f.centre[i]-f.centre[i-1])/dx.xlow" % i)
                if inner:
                    ctx.oblige(res.xlow[0, j] * r.dx.xlow[0, j] == f.centre[0, j] - fin.centre[-1, j], "xlow[0]: difference across the inner join")
                else:
                    ctx.oblige(res.xlow[0, j] * r.dx.xlow[0, j] == 2 * (f.centre[0, j] - f.xlow[0, j]), "xlow[0]: one-sided at the inner grid boundary (dx/2)")
                if outer:
                    ctx.oblige(res.xlow[nx, j] * r.dx.xlow[nx, j] == fout.centre[0, j] - f.centre[-1, j], "xlow[nx]: difference across the outer join")
                else:
                    ctx.oblige(res.xlow[nx, j] * r.dx.xlow[nx, j] == 2 * (f.xlow[nx, j] - f.centre[-1, j]), "xlow[nx]: one-sided at the outer grid boundary (dx/2)")
            for j in range(ny + 1):
                for i in range(nx):
                    ctx.oblige(res.ylow[i, j] * r.dx.ylow[i, j] == f.corners[i + 1, j] - f.corners[i, j], "ylow[%d,%d]: (f.corners[i+1]-f.corners[i])/dx.ylow" % (i, j))
                for i in range(1, nx):
                    ctx.oblige(res.corners[i, j] * r.dx.corners[i, j] == f.ylow[i, j] - f.ylow[i - 1, j], "corners[%d,%d]: (f.ylow[i]-f.ylow[i-1])/dx.corners" % (i, j))
        return res

    return run


def make_ddy_run(lower, upper, own=False):
    """MeshRegion.DDY (used by the x-y derivative form of the curvature): centred differences
    at four locations, differences across y-joins, one-sided half-cell differences at targets."""

    def run(ctx):
        from hypnotoad.core import mesh as M

        nx, ny = 1, 2
        r = mk.skeleton_region(True)
        r.nx, r.ny = nx, ny
        f = mk.sym_mla(ctx, "f", mk.LOCS4, nx, ny, shared=False)
        r.dy = mk.sym_mla(ctx, "dy", mk.LOCS4, nx, ny, shared=False)
        for l in mk.LOCS4:
            for v in getattr(r.dy, l).flat:
                ctx.assume(v != 0)
        r.fld = f
        flo = mk.sym_mla(ctx, "flo", mk.LOCS4, nx, ny, shared=False)
        fup = mk.sym_mla(ctx, "fup", mk.LOCS4, nx, ny, shared=False)
        r.connections = dict(lower=1 if lower else None, upper=2 if upper else None, inner=None, outer=None)
        r.meshParent = types.SimpleNamespace(regions={1: types.SimpleNamespace(fld=flo), 2: types.SimpleNamespace(fld=fup)})
        if own:  # periodic in y: the region is its own lower and upper neighbour
            flo = fup = f
            r.meshParent = types.SimpleNamespace(regions={1: r, 2: r})
        with patched((M.warnings, "warn", lambda *a, **k: None)):
            res = M.MeshRegion.DDY(r, "#fld")
        with spec_mode():
            for i in range(nx):
                for j in range(ny):
                    ctx.oblige(res.centre[i, j] * r.dy.centre[i, j] == f.ylow[i, j + 1] - f.ylow[i, j], "centre[%d]: (f.ylow[j+1]-f.ylow[j])/dy.centre" % j)
                for j in range(1, ny):
                    ctx.oblige(res.ylow[i, j] * r.dy.ylow[i, j] == f.centre[i, j] - f.centre[i, j - 1], "ylow[%d]: (f.centre[j]-f.centre[j-1])/dy.ylow" % j)
                if lower:
                    ctx.oblige(res.ylow[i, 0] * r.dy.ylow[i, 0] == f.centre[i, 0] - flo.centre[i, -1], "ylow[0]: difference across the lower join")
                else:
                    ctx.oblige(res.ylow[i, 0] * r.dy.ylow[i, 0] == 2 * (f.centre[i, 0] - f.ylow[i, 0]), "ylow[0]: one-sided at the lower target (dy/2)")
                if upper:
                    ctx.oblige(res.ylow[i, ny] * r.dy.ylow[i, ny] == fup.centre[i, 0] - f.centre[i, -1], "ylow[ny]: difference across the upper join")
                else:
                    ctx.oblige(res.ylow[i, ny] * r.dy.ylow[i, ny] == 2 * (f.ylow[i, ny] - f.centre[i, -1]), "ylow[ny]: one-sided at the upper target (dy/2)")
            for i in range(nx + 1):
                for j in range(ny):
                    ctx.oblige(res.xlow[i, j] * r.dy.xlow[i, j] == f.corners[i, j + 1] - f.corners[i, j], "xlow[%d,%d]: (f.corners[j+1]-f.corners[j])/dy.xlow" % (i, j))
                for j in range(1, ny):
                    ctx.oblige(res.corners[i, j] * r.dy.corners[i, j] == f.xlow[i, j] - f.xlow[i, j - 1], "corners[%d,%d]: (f.xlow[j]-f.xlow[j-1])/dy.corners" % (i, j))
                if lower:
                    ctx.oblige(res.corners[i, 0] * r.dy.corners[i, 0] == f.xlow[i, 0] - flo.xlow[i, -1], "corners[%d,0]: difference across the lower join" % i)
                else:
                    ctx.oblige(res.corners[i, 0] * r.dy.corners[i, 0] == 2 * (f.xlow[i, 0] - f.corners[i, 0]), "corners[%d,0]: one-sided at the lower target" % i)
                if upper:
                    ctx.oblige(res.corners[i, ny] * r.dy.corners[i, ny] == fup.xlow[i, 0] - f.xlow[i, -1], "corners[%d,ny]: difference across the upper join" % i)
                else:
                    ctx.oblige(res.corners[i, ny] * r.dy.corners[i, ny] == 2 * (f.corners[i, ny] - f.xlow[i, -1]), "corners[%d,ny]: one-sided at the upper target" % i)
        return res

    return run


def run_shift_torsion(ctx):
    """calcMetric sets ShiftTorsion to the x-derivative (DDX, contract above) of dphidy, whose
    formula is geometry2's post-condition; `_eval_from_region` resolves "#dphidy" to the
    region's own dphidy array."""
    from hypnotoad.core import mesh as M

    MLA = mk.mla_cls()
    r = mk.skeleton_region(True)
    for n in ("Rxy", "Bpxy", "hy", "Btxy"):
        setattr(r, n, mk.sym_mla(ctx, n, ("centre", "ylow")))
    r.bpsign = ctx.real("bpsign")
    ctx.assume(And(Or(r.bpsign == 1, r.bpsign == -1), mk.at(r.Rxy, "centre") > 0, mk.at(r.hy, "centre") > 0, r.bpsign * mk.at(r.Bpxy, "centre") > 0, mk.at(r.Rxy, "ylow") > 0, mk.at(r.hy, "ylow") > 0, r.bpsign * mk.at(r.Bpxy, "ylow") > 0))
    r.dphidy = r.hy * r.Btxy / (r.Bpxy * r.Rxy)
    asked = []
    tok = MLA(1, 1)

    def ddx(expr):
        asked.append(expr)
        return tok

    r.DDX = ddx
    r.calc_curvature = lambda: None
    M.MeshRegion.calcMetric(r)
    with spec_mode():
        ctx.oblige(TRUE(asked == ["#dphidy"] and r.ShiftTorsion is tok), "ShiftTorsion = DDX of dphidy (one derivative taken, of that field)")
        ctx.oblige(TRUE(M.MeshRegion._eval_from_region(r, "#dphidy") is r.dphidy), "'#dphidy' evaluates to this region's dphidy array")
    return r


def run_g1_g2_capped(ctx):
    """geometry1 followed by geometry2 with cap_Bp_ylow_xpoint=True on the same region (real
    methods, calcHy by its contract): dphidy = hy Btxy/(Bpxy Rxy) holds for the arrays the region
    ends up with -- in particular for the y-face Bp that the cap has overwritten -- and the cap
    only ever raises |..| entries next to the X-point to the documented minimum."""
    from hypnotoad.core import mesh as M
    from .C03 import run_geometry1

    r = run_geometry1(ctx)
    del ctx.obligations[:]  # geometry1's own post-conditions: C03
    del ctx.safety[:]
    r.user_options.cap_Bp_ylow_xpoint = True
    xp = object()
    r.equilibriumRegion.xPointsAtStart = [xp, None]
    r.equilibriumRegion.xPointsAtEnd = [None, None]
    nb = types.SimpleNamespace(Bpxy=mk.sym_mla(ctx, "Bp_lower_neighbour", ("centre",), r.nx, r.ny, shared=False))
    r.connections = dict(r.connections, lower=7)
    regs = dict(getattr(r.meshParent, "regions", {}) or {})
    regs[7] = nb
    r.meshParent.regions = regs
    hy = mk.sym_mla(ctx, "hy", mk.LOCS4, r.nx, r.ny, shared=False)
    for l in mk.LOCS4:
        for v in getattr(hy, l).flat:
            ctx.assume(v > 0)
    r.calcHy = lambda: hy
    # geometry precondition (as in C02): the poloidal field does not vanish at a grid point
    for l in mk.LOCS4:
        for v in getattr(r.Bpxy, l).flat:
            ctx.assume(v != 0)
    for v in nb.Bpxy.centre.flat:
        ctx.assume(v != 0)
        # every region of a mesh has the same sign of Bp (geometry1 raises otherwise): the neighbour too
        ctx.assume(r.bpsign * v > 0)
    bp_before = numpy.array(r.Bpxy.ylow, dtype=object).copy()
    M.MeshRegion.geometry2(r)
    with spec_mode():
        for l in mk.LOCS4:
            G = lambda n: getattr(getattr(r, n), l)
            for idx in numpy.ndindex(*G("dphidy").shape):
                ctx.oblige(G("dphidy")[idx] * (G("Bpxy")[idx] * G("Rxy")[idx]) == hy.__getattribute__(l)[idx] * G("Btxy")[idx], "dphidy = hy Btxy/(Bpxy Rxy) with the FINAL Bpxy @%s%s" % (l, list(idx)))
        sg = r.bpsign  # Bpxy is signed; the cap is a statement about |Bp| (F22)
        m0, m1 = sg * r.Bpxy.centre[0, 0], sg * nb.Bpxy.centre[0, -1]
        low = ite(m0 <= m1, m0, m1)
        now = r.Bpxy.ylow
        ctx.oblige(Or(now[0, 0] == bp_before[0, 0], And(sg * bp_before[0, 0] < low, sg * now[0, 0] == low)), "cap: the y-face Bp at the X-point is unchanged or raised IN MAGNITUDE to min(|Bp| of the two adjacent cell centres), sign kept")
        ctx.oblige(And(*[now[i, j] == bp_before[i, j] for i in range(now.shape[0]) for j in range(1, now.shape[1])]), "cap touches only the faces at the X-point end")
    return r


def make_groups_run(topo):
    """Real Mesh.__init__ + Mesh.makeRegions (MeshRegion replaced by a recorder, the region's
    getRegridded by the identity): one MeshRegion per (region, segment) with its id, connections
    and radial index; the y-groups (the chains zShift / poloidal_distance are integrated along)
    partition the regions, follow the `upper` connections, start at a target whenever the chain
    has one, and number their members in order; x-groups likewise from the innermost region."""

    def run(ctx):
        from hypnotoad.core import mesh as M
        from . import topokit as tk

        eq, info = tk.build_equilibrium(ctx, topo)
        made = []

        class Rec:
            def __init__(self, mesh, rid, eqreg, connections, i, options, pm):
                self.meshParent, self.myID, self.equilibriumRegion, self.connections, self.radialIndex = mesh, rid, eqreg, connections, i
                self.name = "%s(%d)" % (eqreg.name, i)
                self.yGroupIndex = None
                made.append(self)

            def getNeighbour(self, d):
                k = self.connections[d]
                return None if k is None else self.meshParent.regions[k]

        class PM:
            def __init__(self, *a, **k):
                pass

        for r_ in eq.regions.values():
            r_.getRegridded = lambda radialIndex=None, psi=None, width=None, _r=r_: _r
        eq.psi = None
        m = object.__new__(M.Mesh)
        with patched((M, "MeshRegion", Rec), (M, "ParallelMap", PM), (M, "print", lambda *a, **k: None)):
            M.Mesh.__init__(m, eq, {})
        with spec_mode():
            pairs = [(nm, k) for nm, r_ in eq.regions.items() for k in range(r_.nSegments)]
            ctx.oblige(TRUE([(x.equilibriumRegion.name, x.radialIndex) for x in made] == pairs and [x.myID for x in made] == list(range(len(pairs)))), "one MeshRegion per (region, segment), numbered in order")
            ctx.oblige(TRUE(all(x.connections is m.connections[x.myID] for x in made)), "each MeshRegion gets the connections of its own id")
            flat = [x for g in m.y_groups for x in g]
            ctx.oblige(TRUE(len(flat) == len(made) and {id(x) for x in flat} == {id(x) for x in made}), "y-groups partition the regions")
            for g in m.y_groups:
                ctx.oblige(TRUE(all(g[k + 1] is g[k].getNeighbour("upper") for k in range(len(g) - 1))), "a y-group follows the upper connections")
                ctx.oblige(TRUE([x.yGroupIndex for x in g] == list(range(len(g)))), "yGroupIndex = position in the chain")
                last_up = g[-1].getNeighbour("upper")
                has_target = any(x.connections["lower"] is None for x in g)
                ctx.oblige(TRUE((g[0].connections["lower"] is None and last_up is None) if has_target else (last_up is g[0])), "an open chain runs from target to target; a closed one returns to its first region")
            flatx = [x for g in m.x_groups for x in g]
            ctx.oblige(TRUE(len(flatx) == len(made) and {id(x) for x in flatx} == {id(x) for x in made} and all(g[0].connections["inner"] is None and all(g[k + 1] is g[k].getNeighbour("outer") for k in range(len(g) - 1)) for g in m.x_groups)), "x-groups partition the regions, from the innermost region outwards")
        return m

    return run


def run_dx_defined(ctx):
    """definedness: after the real geometry1 every dx entry DDX divides by has been assigned
    (non-zero for strictly monotone psi_vals)."""
    from .C03 import run_geometry1

    r = run_geometry1(ctx)
    with spec_mode():
        pv = r.psi_vals
        mono = Or(And(*[pv[k + 1] > pv[k] for k in range(len(pv) - 1)]), And(*[pv[k + 1] < pv[k] for k in range(len(pv) - 1)]))
        for l in mk.LOCS4:
            ctx.oblige(TRUE(getattr(r.dx, "_%s_array" % l) is not None), "dx.%s assigned by geometry1" % l)
            for v in getattr(r.dx, l).flat:
                ctx.oblige(Implies(mono, v != 0), "dx.%s != 0 for strictly monotone psi_vals" % l)


def add_ddy(S):
    S.under_contract("hypnotoad.core.mesh:MeshRegion.DDY")
    for lo in (False, True):
        for up in (False, True):
            S.contract("DDY[lower=%s,upper=%s]" % (lo, up), "hypnotoad.core.mesh:MeshRegion.DDY", make_ddy_run(lo, up), shape="nx=1, ny=2")
    S.contract("DDY[the region is its own y-neighbour]", "hypnotoad.core.mesh:MeshRegion.DDY", make_ddy_run(True, True, own=True), shape="nx=1, ny=2, periodic in y")


def build(S):
    S.under_contract(FN_DDX, FN_ZS, "hypnotoad.core.mesh:MeshRegion.geometry1", "hypnotoad.core.mesh:MeshRegion.geometry2")
    S.assume("A-SHAPE: DDX proved at nx=2, ny=1 for the four combinations of inner/outer neighbour, all values symbolic")
    S.assume("external (assumed): scipy cumulative_trapezoid is the trapezoid rule, interp1d(kind='linear') is linear interpolation; accuracy of the zShift integral is bounded-only")
    from .C03 import g1_raises_ok

    with numpy_shimmed():
        for i in (False, True):
            for o in (False, True):
                S.contract("DDX[inner=%s,outer=%s]" % (i, o), FN_DDX, make_ddx_run(i, o), shape="nx=2, ny=1")
        add_ddy(S)
        S.under_contract("hypnotoad.core.mesh:MeshRegion.capBpYlowXpoint")
        S.contract("geometry1;geometry2[cap_Bp_ylow_xpoint]", "hypnotoad.core.mesh:MeshRegion.geometry2", run_g1_g2_capped, expected_exceptions=(ValueError,), raises_ok=g1_raises_ok, shape="nx=1, ny=3, X-point at the lower inner corner", max_paths=400)
        from . import topokit as tk

        S.under_contract("hypnotoad.core.mesh:Mesh.makeRegions", "hypnotoad.core.mesh:Mesh.__init__")
        for topo in tk.TOPOLOGIES:
            S.contract("makeRegions[y-groups,%s]" % topo, "hypnotoad.core.mesh:Mesh.makeRegions", make_groups_run(topo), expected_exceptions=(ValueError,), raises_ok=lambda p: True, shape="sizes symbolic; MeshRegion is a recorder")
        S.under_contract("hypnotoad.core.mesh:MeshRegion.calcMetric")
        S.contract("calcMetric[ShiftTorsion]", "hypnotoad.core.mesh:MeshRegion.calcMetric", run_shift_torsion, expected_exceptions=(ValueError,), shape="one point")
        from . import chainkit

        for per in (False, True):
            S.contract("calcZShift[two-region chain,periodic=%s]" % per, FN_ZS, chainkit.run_zshift(per), shape="two regions, nx=1, ny=1", assume_safety="R>0 and Bp!=0 at the fine-contour nodes (geometry preconditions)")
        S.contract("calcZShift[open chain, guard points and a fine contour extended below the start]", FN_ZS, chainkit.run_zshift(False, start1=2, fine_offset=3), shape="two regions, nx=1; contour start index 2, fine-contour start index 5", assume_safety="R>0 and Bp!=0 at the fine-contour nodes (geometry preconditions)")
        S.contract("calcZShift[two-region open chain, called twice]", FN_ZS, chainkit.run_zshift(False, repeat=2), shape="two regions, nx=1, ny=1; second call on the same regions", assume_safety="R>0 and Bp!=0 at the fine-contour nodes (geometry preconditions)")
        S.contract("calcZShift[one region, its own y-neighbour, called twice]", FN_ZS, chainkit.run_zshift(True, single=True, repeat=2), shape="one periodic region, nx=1, ny=1; second call on the same region", assume_safety="R>0 and Bp!=0 at the fine-contour nodes (geometry preconditions)")
        S.contract("calcZShift[one region, its own y-neighbour]", FN_ZS, chainkit.run_zshift(True, single=True), shape="one periodic region (single-null core), nx=1, ny=1", assume_safety="R>0 and Bp!=0 at the fine-contour nodes (geometry preconditions)")
        S.contract("dx defined at all four locations", "hypnotoad.core.mesh:MeshRegion.geometry1", run_dx_defined, expected_exceptions=(ValueError,), raises_ok=g1_raises_ok, shape="nx=1, ny=3")


def post(S):
    from bounded import gridrun
    from . import C06_bounded

    gridrun.run(S, ["zshift_continuity", "shiftangle_chain", "dphidy_formula", "zshift_halfcell", "g23_vs_zshift"], FN_ZS, name="zShift / ShiftAngle / dphidy on generated grids")
    C06_bounded.run(S)
