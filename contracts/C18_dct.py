"""C18(c)  DCT_2D: the derivative methods are derivatives of __call__ (real code)."""
import numpy
import z3

from vc.jets import Jets
from vc.shim import patched
from vc.sym import And, Sym, spec_mode

FN = "hypnotoad.utils.dct_interpolation:DCT_2D"
TRUE = lambda b: Sym(z3.BoolVal(bool(b)))


def make_run(nR, nZ, Rg, Zg):
    def run(ctx):
        from hypnotoad.utils import dct_interpolation as M

        calls = []

        def dct_stub(x, axis=-1, **kw):
            # external (assumed) contract: some linear transform along `axis`; only the
            # wiring (what is transformed, along which axis) is checked here
            out = numpy.empty(x.shape, dtype=object)
            tag = "c%d" % len(calls)
            for idx in numpy.ndindex(*x.shape):
                out[idx] = ctx.real("%s_%s" % (tag, "_".join(map(str, idx))))
            calls.append(dict(x=x, axis=axis, out=out))
            return out

        psi = numpy.empty((nR, nZ), dtype=object)
        for idx in numpy.ndindex(nR, nZ):
            psi[idx] = ctx.real("psi_%d_%d" % idx)
        with patched((M, "dct", dct_stub)):
            d = M.DCT_2D(Rg, Zg, psi)
        R, Z = ctx.real("R"), ctx.real("Z")
        jets = Jets(ctx, {R: {"R": 1}, Z: {"Z": 1}}, const=lambda n: n.startswith("c0_") or n.startswith("c1_"))
        u = lambda x: x[()] if isinstance(x, numpy.ndarray) else x
        v = u(d(R, Z))
        out = dict(ddR=u(d.ddR(R, Z)), ddZ=u(d.ddZ(R, Z)), d2dR2=u(d.d2dR2(R, Z)), d2dZ2=u(d.d2dZ2(R, Z)), d2dRdZ=u(d.d2dRdZ(R, Z)))
        with spec_mode():
            ctx.oblige(TRUE(len(calls) == 2 and calls[0]["axis"] == 0 and calls[1]["axis"] == 1 and calls[1]["x"] is calls[0]["out"]), "dct along axis 0 then axis 1")
            x0 = calls[0]["x"]
            ctx.oblige(TRUE(x0.shape == (nZ, nR) and all(x0[j, i] is psi[i, j] for i in range(nR) for j in range(nZ))), "input transposed: row index = Z, column index = R")
            c1 = calls[1]["out"]
            for j in range(nZ):
                for i in range(nR):
                    w = (0.5 if i == 0 else 1.0) * (0.5 if j == 0 else 1.0)
                    ctx.oblige(d.psiDCT[j, i] * (nR * nZ) == c1[j, i] * w, "coefficient normalisation[%d,%d]" % (j, i))
            dR = jets.D(v, "R")
            dZ = jets.D(v, "Z")
            ctx.oblige(out["ddR"] == dR, "ddR=D_R(call)")
            ctx.oblige(out["ddZ"] == dZ, "ddZ=D_Z(call)")
            ctx.oblige(out["d2dR2"] == jets.D(dR, "R"), "d2dR2=D_R D_R(call)")
            ctx.oblige(out["d2dZ2"] == jets.D(dZ, "Z"), "d2dZ2=D_Z D_Z(call)")
            ctx.oblige(out["d2dRdZ"] == jets.D(dR, "Z"), "d2dRdZ=D_Z D_R(call)")
            ctx.oblige(out["d2dRdZ"] == jets.D(dZ, "R"), "d2dRdZ=D_R D_Z(call)")
            ctx.oblige(out["ddR"] == -dR, "twin:ddR sign", kind="must-fail")
            ctx.oblige(out["d2dRdZ"] == -jets.D(dR, "Z"), "twin:d2dRdZ sign", kind="must-fail")

    return run


def run_mla(ctx):
    """Each of the six DCT_2D methods on MultiLocationArray arguments: the result at location l is
    that method evaluated on the R and Z of location l (real code, symbolic coefficients)."""
    from hypnotoad.core.multilocationarray import MultiLocationArray
    from hypnotoad.utils import dct_interpolation as M

    nR, nZ = 2, 3

    def dct_stub(x, axis=-1, **kw):
        out = numpy.empty(x.shape, dtype=object)
        for idx in numpy.ndindex(*x.shape):
            out[idx] = ctx.real("c%d_%s" % (axis, "_".join(map(str, idx))))
        return out

    psi = numpy.empty((nR, nZ), dtype=object)
    for idx in numpy.ndindex(nR, nZ):
        psi[idx] = ctx.real("psi_%d_%d" % idx)
    with patched((M, "dct", dct_stub)):
        d = M.DCT_2D(numpy.array([1.0, 2.0]), numpy.array([-0.5, 0.0, 0.5]), psi)
    locs = ("centre", "xlow", "ylow", "corners")
    R, Z = MultiLocationArray(1, 1), MultiLocationArray(1, 1)
    for l in locs:
        getattr(R, l)[...] = ctx.real("R_" + l)
        getattr(Z, l)[...] = ctx.real("Z_" + l)
    u = lambda x: x.reshape(-1)[0] if isinstance(x, numpy.ndarray) else x
    with spec_mode():
        pass
    for nm in ("__call__", "ddR", "ddZ", "d2dR2", "d2dZ2", "d2dRdZ"):
        meth = getattr(d, nm)
        res = meth(R, Z)
        for l in locs:
            want = u(meth(u(getattr(R, l)), u(getattr(Z, l))))
            got = u(getattr(res, l))
            with spec_mode():
                ctx.oblige(got == want, "%s on MultiLocationArrays: %s = the method at (R.%s, Z.%s)" % (nm, l, l, l))


def add(S):
    S.contract("dct[MultiLocationArray dispatch]", FN, run_mla, expected_exceptions=(), shape="nR=2,nZ=3; one point per location")
    S.under_contract(FN, FN + ".__call__", FN + ".ddR", FN + ".ddZ", FN + ".d2dR2", FN + ".d2dZ2", FN + ".d2dRdZ")
    S.assume("A-SHAPE (DCT): derivative identities proved for all coefficient values and all evaluation points at node grids 3x2 and 2x4 with exactly representable uniform spacing; generalisation to any size rests on the per-mode structure of the sum (linear in the coefficients)")
    S.contract("dct[3x2]", FN, make_run(3, 2, numpy.array([1.0, 1.5, 2.0]), numpy.array([-0.25, 0.5])), expected_exceptions=(), shape="nR=3,nZ=2")
    S.contract("dct[2x4]", FN, make_run(2, 4, numpy.array([1.0, 3.0]), numpy.array([-1.0, -0.5, 0.0, 0.5])), expected_exceptions=(), shape="nR=2,nZ=4")
