"""C04  Orthogonal grids are orthogonal: radial grid lines follow grad(psi).

Deductive part (real code): the direction field integrated by followPerpendicular is
f = grad(psi)/|grad(psi)|^2 for both interpolants (grad(psi).f = 1, clip is the identity
inside the domain: the spline/dct wiring contracts shared with C18); followPerpendicular's
splitting / reversal returns result[k] <-> psivals[k] for every position of psi0 relative to
the psi values (all orderings of a 5-value list, solve_ivp replaced by its assumed
contract).  Accuracy of the integration and the assembled grid: bounded (independent ODE
integration of the analytic gradient on generated orthogonal grids).
"""
import itertools
import types

import numpy
import z3

from vc.shim import numpy_shimmed, patched
from vc.sym import And, Sym, spec_mode
from . import C18

LEVEL = "proof"
FN_FP = "hypnotoad.core.mesh:followPerpendicular"


def follow_cases(S):
    from hypnotoad.core import mesh as M
    from hypnotoad.core.equilibrium import Point2D

    calls = []

    class Sol:
        def __init__(self, t_eval, y0):
            # assumed contract: y[:,k] is the point of the integral curve through y0 at t_eval[k];
            # encoded as (t, tag) so that the order can be read back
            self.y = numpy.array([[t for t in t_eval], [1000.0 + k for k, t in enumerate(t_eval)]])

    def solve_ivp(f, psirange, y0, t_eval=None, **kw):
        calls.append(dict(psirange=tuple(psirange), t_eval=list(t_eval), y0=tuple(y0), kw=kw))
        return Sol(t_eval, y0)

    bad = []
    n = 0
    base = [0.8, 0.9, 1.0, 1.1, 1.2]
    with patched((M, "solve_ivp", solve_ivp), (M, "print", lambda *a, **k: None)):
        for vals in (base, base[::-1]):
            # tolerance classes: both positive; exactly 0 for one of them (valid: the options are only
            # required non-negative, findLegs itself passes rtol=0, the other tolerance then controls the error)
            for psi0, (rtol, atol) in [(p0, (1e-8, 1e-9)) for p0 in (0.8, 1.2, 1.0, 0.95, 1.15, 0.7, 1.3, 0.8 + 1e-16)] + [(p0, tl) for p0 in (0.8, 1.0, 0.95) for tl in ((0.0, 1e-11), (1e-11, 0.0))]:
                calls.clear()
                n += 1
                try:
                    res = M.followPerpendicular(0, Point2D(1.0, 2.0), psi0, f_R=None, f_Z=None, psivals=list(vals), rtol=rtol, atol=atol)
                except Exception as e:
                    bad.append(dict(psivals=vals, psi0=psi0, problem="raised %r" % e))
                    continue
                got = [p.R for p in res]
                if len(got) != len(vals) or any(abs(a - b) > 1e-12 for a, b in zip(got, vals)):
                    bad.append(dict(psivals=vals, psi0=psi0, result_psi=got, problem="result[k] is not the point at psivals[k]"))
                for c in calls:
                    t = c["t_eval"]
                    mono = all(b > a for a, b in zip(t, t[1:])) or all(b < a for a, b in zip(t, t[1:]))
                    lo, hi = min(c["psirange"]), max(c["psirange"])
                    if not mono or not all(lo - 1e-15 <= x <= hi + 1e-15 for x in t) or abs(c["psirange"][0] - psi0) > 1e-12 or c["y0"] != (1.0, 2.0):
                        bad.append(dict(psivals=vals, psi0=psi0, call=c, problem="solve_ivp asked for values outside / not ordered along its integration range, or not started at (p0, psi0)"))
                    if c["kw"].get("rtol") != rtol or c["kw"].get("atol") != atol or type(c["kw"].get("rtol")) is not float or type(c["kw"].get("atol")) is not float:
                        bad.append(dict(psivals=vals, psi0=psi0, requested=dict(rtol=rtol, atol=atol), passed=dict(rtol=c["kw"].get("rtol"), atol=c["kw"].get("atol")), problem="requested tolerances not passed to solve_ivp"))
    S.static_vc("followPerpendicular", FN_FP, "result[k] <-> psivals[k] for every position of psi0 (inside, at either end, outside, within rounding of an end) and both orderings (%d cases); integration starts at (p0, psi0) with the requested tolerances" % n, not bad, detail=repr(bad[:2]), kind="native-all-classes", model=bad[0] if bad else None)


def build(S):
    S.under_contract(FN_FP, C18.FN_MFG, "hypnotoad.core.mesh:MeshRegion.__init__")
    S.assume("external (assumed): solve_ivp(t_eval=T).y[:,k] approximates the integral curve at T[k] within rtol/atol")
    S.assume("NOT proved: accuracy of the integration, behaviour next to X-points")
    follow_cases(S)
    with numpy_shimmed():
        S.contract("spline-wiring", C18.FN_MFG, C18.run_spline, shape="one evaluation point inside the domain")
        S.contract("dct-wiring", C18.FN_MFG, C18.run_dct_wiring, shape="one evaluation point")
        from . import C01_init, C08, C18_dct
        from . import topokit as tk

        # corners pinned to an X-point are the only grid points allowed off the integral curve of their radial
        # line: the pin lists name the right radial edge in every topology (T7)
        S.under_contract("hypnotoad.cases.tokamak:TokamakEquilibrium.describeDoubleNull")
        S.under_contract("hypnotoad.cases.torpex:TORPEXMagneticField.makeRegions")
        S.contract("X-point pins[isolated X-point, TORPEX]", "hypnotoad.cases.torpex:TORPEXMagneticField.makeRegions", C08.run_torpex_setup_region, shape="two recorder legs (one reversed)")
        for topo in tk.TOPOLOGIES:
            S.contract("X-point pins[%s]" % topo, "hypnotoad.cases.tokamak:TokamakEquilibrium.describeDoubleNull", C08.make_pins_run(topo), expected_exceptions=(ValueError,), raises_ok=lambda p: True, shape="sizes symbolic")

        C01_init.add(S)  # contours[i][j] = point of perpendicular j for psi_vals[i]
        C18_dct.add(S)  # f_R, f_Z of the dct method are built from ddR, ddZ: derivatives of __call__ on non-square grids


def post(S):
    from bounded import gridrun

    gridrun.run(S, ["orthogonal_integral_curves", "orthogonal_metric_zero"], FN_FP, name="orthogonality of generated orthogonal grids")
