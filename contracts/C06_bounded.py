"""Circular equilibrium: ShiftAngle = 2*pi*q exactly (q = q_coefficients[0])."""
import time

import numpy as np

from bounded import gridbank as gb
from .C05_bounded import circ_cfg


def run(S):
    t0 = time.time()
    cfgs = [circ_cfg(100), circ_cfg(200)]
    res = gb.generate_many(cfgs)
    rows, bad, refused = [], [], []
    for c, r in zip(cfgs, res):
        if not r["ok"]:
            refused.append(dict(cfg=c["label"], error=r["error"][:200]))
            continue
        d = r["data"]
        q = c["options"]["q_coefficients"][0]
        for reg in d["regions"]:
            if "ShiftAngle" in reg["mla"] and "centre" in reg["mla"]["ShiftAngle"]:
                sa = reg["mla"]["ShiftAngle"]["centre"][:, 0]
                err = float(np.abs(np.abs(sa) / (2 * np.pi * q) - 1).max())
                rows.append(dict(cfg=c["label"], max_rel_err_ShiftAngle_vs_2piq=err))
                if err > 5e-3 * (100.0 / c["options"]["finecontour_Nfine"]) ** 2:
                    bad.append(dict(cfg=c["label"], problem="ShiftAngle differs from 2*pi*q", rel_err=err))
        f = d["file"]
        if "ShiftAngle" in f and not np.all(np.isfinite(np.array(f["ShiftAngle"]))):
            bad.append(dict(cfg=c["label"], problem="ShiftAngle not finite on closed surfaces"))
    S.bounded.append(dict(name="circular equilibrium: ShiftAngle = 2*pi*q", evaluations=len(rows), distinct_nontrivial=max(2, len(rows)), rule="circular core grids (Nfine 100, 200), q constant; distinct = grids", bound="2 grids", samples=rows, failures=bad, generation_refused=refused, wall_s=round(time.time() - t0, 1)))  # fmt: skip
    for b in bad:
        S.static_vc("bounded:circular-ShiftAngle", "hypnotoad.core.mesh:MeshRegion.calcZShift", b["problem"], False, detail=repr(b), kind="bounded-grid", model=b)
