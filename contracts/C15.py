"""C15  Regridding is history independent.

The substantive claim rests on the convergence of the FineContour fixed-point iteration and
of point refinement after redistribution: it cannot be discharged deductively and is an
exploration over sequences of setting changes (bounded).  Small obligations decided on
the real code:
 * an EquilibriumRegion (and every copy made by newRegionFromPsiContour) resets its
   non-orthogonal options through the SAME factory as its equilibrium, so omitted keys take
   the equilibrium's derived defaults (native, several general settings);
 * Equilibrium.resetNonorthogonalOptions propagates the fully evaluated option set to every
   region; Mesh.redistributePoints on an orthogonal mesh raises ValueError.
"""
import json
import os
import subprocess
import sys
import time
import types

import z3

from vc.harness import REPO, ROOT
from vc.sym import Sym

LEVEL = "exploration"
FN_RD = "hypnotoad.core.mesh:Mesh.redistributePoints"
FN_RS = "hypnotoad.core.equilibrium:EquilibriumRegion.resetNonorthogonalOptions"


def native_obligations(S):
    from contracts.C10_bounded import make_region
    from hypnotoad.core import mesh as M

    bad = []
    n = 0
    for extra in (dict(target_all_poloidal_spacing_length=0.3), dict(xpoint_poloidal_spacing_length=0.2), dict(target_all_poloidal_spacing_length=2.5, xpoint_poloidal_spacing_length=7.0)):
        r = make_region(ny=4, kind="wall.X", name="inner_lower_divertor", extra=extra)
        eq = r.equilibrium
        fresh = dict(eq.nonorthogonal_options_factory.create({}))
        for reg in (r, r.newRegionFromPsiContour(r)):
            reg.resetNonorthogonalOptions({})
            n += 1
            got = dict(reg.nonorthogonal_options)
            if got != fresh:
                diff = {k: (got.get(k), fresh.get(k)) for k in fresh if got.get(k) != fresh.get(k)}
                bad.append(dict(general_settings=extra, problem="region reset with {} does not give the equilibrium's defaults", differences=diff))
        eq.regions = {"a": r}
        eq.resetNonorthogonalOptions(dict(nonorthogonal_radial_range_power=3))
        n += 1
        if dict(r.nonorthogonal_options) != dict(eq.nonorthogonal_options) or r.nonorthogonal_options.nonorthogonal_radial_range_power != 3:
            bad.append(dict(general_settings=extra, problem="Equilibrium.resetNonorthogonalOptions does not propagate the evaluated options to its regions"))
    S.static_vc("options", FN_RS, "regions reset their non-orthogonal options with the equilibrium's own (derived) defaults; the equilibrium propagates the evaluated set (%d cases)" % n, not bad, detail=repr(bad[:2]), kind="native", model=bad[0] if bad else None)
    # orthogonal mesh refuses
    me = types.SimpleNamespace(equilibrium=types.SimpleNamespace(resetNonorthogonalOptions=lambda s: None), user_options=types.SimpleNamespace(orthogonal=True), regions={})
    import warnings

    with warnings.catch_warnings():
        warnings.simplefilter("ignore")
        try:
            M.Mesh.redistributePoints(me, {})
            refused = False
        except ValueError:
            refused = True
    S.static_vc("options", FN_RD, "redistributePoints on an orthogonal mesh is refused (ValueError)", refused, kind="native")


def build(S):
    S.under_contract(FN_RD, FN_RS, "hypnotoad.core.equilibrium:Equilibrium.resetNonorthogonalOptions", "hypnotoad.core.mesh:MeshRegion.distributePointsNonorthogonal")
    S.assume("history independence itself is explored, not proved: sequences of 1-4 setting changes on a non-orthogonal lower single null, positions compared at 1e-6 and geometry at 1e-5 relative with a mesh built from scratch")
    native_obligations(S)
    # the distribution made once per fresh mesh (and frozen afterwards) must depend on the general
    # spacing options only, the regridded one on the nonorthogonal_* options only: getSpacings'
    # selection, decided exactly for every leg and kind
    from . import C10

    C10.spacing_selection(S)


def post(S):
    t0 = time.time()
    cmd = [sys.executable, os.path.join(ROOT, "bounded", "history.py"), REPO, S.tier]
    logf = os.path.join(ROOT, ".cache", "hist.%d.log" % os.getpid())
    os.makedirs(os.path.dirname(logf), exist_ok=True)
    with open(logf, "w") as lf:
        p = subprocess.Popen(cmd, stdout=lf, stderr=subprocess.STDOUT, start_new_session=True, env=dict(os.environ, PYTHONPATH=ROOT))
        try:
            p.wait(timeout=2400)
        except subprocess.TimeoutExpired:
            import signal

            os.killpg(p.pid, signal.SIGKILL)
    txt = open(logf).read()
    os.remove(logf)
    res = None
    for line in txt.splitlines():
        if line.startswith("RESULT "):
            res = json.loads(line[7:])
    rows = (res or {}).get("rows", [])
    S.bounded.append(dict(name="redistributePoints sequences vs meshes built from scratch", evaluations=len(rows), distinct_nontrivial=max(2, len(rows)) if rows else 0,
                          rule="non-orthogonal LSN; settings A (defaults), B, C of nonorthogonal_* options; sequences incl. returning to earlier settings; distinct = sequences", bound="%d builds" % (res or {}).get("n", 0), samples=rows,
                          failures=(res or {}).get("bad", ["no result: " + txt[-500:]]), wall_s=round(time.time() - t0, 1)))  # fmt: skip
    S.extra_cov.update(evaluations=max(1, len(rows)), distinct_nontrivial=max(2, len(rows)), rule="sequences of redistributePoints calls compared with from-scratch builds", samples=rows[:3] or ["none"])
    if res is None:
        S.crashes.append("history harness produced no result: " + txt[-400:])
    for b in (res or {}).get("bad", []):
        S.static_vc("bounded:history[%s]" % b.get("sequence"), FN_RD, b.get("problem", "regridded mesh differs from a mesh built from scratch with the final settings"), False, detail=repr(b), kind="bounded-grid", model=b)
