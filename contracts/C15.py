"""C15  Regridding is history independent.

The substantive claim rests on the convergence of the FineContour fixed-point iteration and
of point refinement after redistribution: it cannot be discharged deductively and is an
exploration over sequences of setting changes (bounded).  Small obligations decided on
the real code:
 * an EquilibriumRegion (and every copy made by newRegionFromPsiContour) resets its
   non-orthogonal options through the SAME factory as its equilibrium, so omitted keys take
   the equilibrium's derived defaults (native, several general settings);
 * Equilibrium.resetNonorthogonalOptions propagates the fully evaluated option set to every
   region; Mesh.redistributePoints on an orthogonal mesh raises ValueError.
"""
import json
import os
import subprocess
import sys
import time
import types
from contracts.meshkit import Opts as _Opts  # noqa: E402

import z3

from vc.harness import REPO, ROOT
from vc.sym import Sym

LEVEL = "exploration"
FN_RD = "hypnotoad.core.mesh:Mesh.redistributePoints"
FN_RS = "hypnotoad.core.equilibrium:EquilibriumRegion.resetNonorthogonalOptions"


def native_obligations(S):
    from contracts.C10_bounded import make_region
    from hypnotoad.core import mesh as M

    bad = []
    n = 0
    for extra in (dict(target_all_poloidal_spacing_length=0.3), dict(xpoint_poloidal_spacing_length=0.2), dict(target_all_poloidal_spacing_length=2.5, xpoint_poloidal_spacing_length=7.0)):
        r = make_region(ny=4, kind="wall.X", name="inner_lower_divertor", extra=extra)
        eq = r.equilibrium
        fresh = dict(eq.nonorthogonal_options_factory.create({}))
        for reg in (r, r.newRegionFromPsiContour(r)):
            reg.resetNonorthogonalOptions({})
            n += 1
            got = dict(reg.nonorthogonal_options)
            if got != fresh:
                diff = {k: (got.get(k), fresh.get(k)) for k in fresh if got.get(k) != fresh.get(k)}
                bad.append(dict(general_settings=extra, problem="region reset with {} does not give the equilibrium's defaults", differences=diff))
        eq.regions = {"a": r}
        eq.resetNonorthogonalOptions(dict(nonorthogonal_radial_range_power=3))
        n += 1
        if dict(r.nonorthogonal_options) != dict(eq.nonorthogonal_options) or r.nonorthogonal_options.nonorthogonal_radial_range_power != 3:
            bad.append(dict(general_settings=extra, problem="Equilibrium.resetNonorthogonalOptions does not propagate the evaluated options to its regions"))
    S.static_vc("options", FN_RS, "regions reset their non-orthogonal options with the equilibrium's own (derived) defaults; the equilibrium propagates the evaluated set (%d cases)" % n, not bad, detail=repr(bad[:2]), kind="native", model=bad[0] if bad else None)
    # orthogonal mesh refuses
    me = types.SimpleNamespace(equilibrium=types.SimpleNamespace(resetNonorthogonalOptions=lambda s: None), user_options=_Opts(orthogonal=True), regions={})
    import warnings

    with warnings.catch_warnings():
        warnings.simplefilter("ignore")
        try:
            M.Mesh.redistributePoints(me, {})
            refused = False
        except ValueError:
            refused = True
    S.static_vc("options", FN_RD, "redistributePoints on an orthogonal mesh is refused (ValueError)", refused, kind="native")


def orchestration(S):
    """Mesh.redistributePoints / Mesh.calculateRZ on recorder regions (exact, no numerics): the
    equilibrium's options are reset with the settings given, every region is regridded with the
    SAME settings object's content, once, in mesh order; calculateRZ fills every region before any
    boundary row is copied from a neighbour, and recomputes the penalty mask last."""
    import types
    import warnings

    from hypnotoad.core import mesh as M

    log = []

    class R:
        def __init__(self, name):
            self.name = name

        def distributePointsNonorthogonal(self, settings=None):
            log.append(("regrid", self.name, dict(settings) if settings is not None else None))

        def fillRZ(self):
            log.append(("fillRZ", self.name))

        def getRZBoundary(self):
            log.append(("getRZBoundary", self.name))

        def calcPenaltyMask(self, eq):
            log.append(("calcPenaltyMask", self.name))

    regs = {k: R("r%d" % k) for k in range(3)}
    eq = types.SimpleNamespace(resetNonorthogonalOptions=lambda s: log.append(("reset", dict(s))))
    me = types.SimpleNamespace(equilibrium=eq, regions=regs, user_options=_Opts(orthogonal=False))
    settings = dict(nonorthogonal_xpoint_poloidal_spacing_length=0.03)
    import contextlib, io

    with warnings.catch_warnings():
        warnings.simplefilter("ignore")
        with contextlib.redirect_stdout(io.StringIO()):
            M.Mesh.redistributePoints(me, settings)
    want = [("reset", settings)] + [("regrid", "r%d" % k, settings) for k in range(3)]
    S.static_vc("orchestration", FN_RD, "redistributePoints: equilibrium options reset first, then every region regridded once with the given settings", log == want, detail=repr(log)[:600], kind="native", model=dict(log=log) if log != want else None)
    del log[:]
    with contextlib.redirect_stdout(io.StringIO()):
        M.Mesh.calculateRZ(me)
    names = ["r0", "r1", "r2"]
    want = [("fillRZ", n) for n in names] + [("getRZBoundary", n) for n in names] + [("calcPenaltyMask", n) for n in names]
    S.static_vc("orchestration", "hypnotoad.core.mesh:Mesh.calculateRZ", "calculateRZ: all regions filled, then all boundary rows copied, then all penalty masks", log == want, detail=repr(log)[:600], kind="native", model=dict(log=log) if log != want else None)


def copy_faithful(S):
    """EquilibriumRegion.copy / newRegionFromPsiContour (each MeshRegion works on a private copy,
    and every regrid makes new ones): the copy carries every structural attribute of the original
    -- from the contour for positions / indices, from the region for everything else -- and shares
    no mutable container with it."""
    import numpy as np

    from .C10_bounded import make_region

    r = make_region(kind="wall.X")
    r.xPointsAtStart, r.xPointsAtEnd = [None, None], [None, ("X", 1.0)]
    r.wallSurfaceAtStart, r.wallSurfaceAtEnd = [0.0, 1.0], None
    r.connections = [dict(lower=None, upper=("core", 0), inner=None, outer=None)]
    r.psi_vals = [np.array([1.0, 2.0, 3.0])]
    r.separatrix_radial_index = 1
    r.startInd, r.endInd, r.extend_lower, r.extend_upper = 1, len(r) - 2, 2, 0
    attrs = ["name", "nSegments", "nx", "ny_noguards", "kind", "ny_total", "psival", "xPointsAtStart", "xPointsAtEnd", "wallSurfaceAtStart", "wallSurfaceAtEnd", "connections", "separatrix_radial_index", "Rrange", "Zrange"]

    def same(a, b):
        if isinstance(a, np.ndarray) or isinstance(b, np.ndarray):
            return np.array_equal(a, b)
        if isinstance(a, (list, tuple)) and isinstance(b, (list, tuple)):
            return len(a) == len(b) and all(same(x, y) for x, y in zip(a, b))
        if isinstance(a, dict) and isinstance(b, dict):
            return a.keys() == b.keys() and all(same(a[k], b[k]) for k in a)
        return a == b

    bad = []
    contour = r.newContourFromSelf()
    contour.startInd, contour.endInd, contour.extend_lower, contour.extend_upper = 2, len(contour) - 1, 4, 0
    for what, c, src in (("copy", r.copy(), r), ("newRegionFromPsiContour", r.newRegionFromPsiContour(contour), contour)):
        for a in attrs:
            if not hasattr(c, a) or not same(getattr(c, a), getattr(r, a)):
                bad.append(dict(method=what, attribute=a, original=repr(getattr(r, a, None))[:60], copy=repr(getattr(c, a, "missing"))[:60]))
        if not (same(dict(c.user_options), dict(r.user_options)) and same(dict(c.nonorthogonal_options), dict(r.nonorthogonal_options))):
            bad.append(dict(method=what, attribute="options"))
        if not same([np.array(x) for x in c.psi_vals], [np.array(x) for x in r.psi_vals]):
            bad.append(dict(method=what, attribute="psi_vals"))
        for a in ("startInd", "endInd", "extend_lower", "extend_upper"):
            if getattr(c, a) != getattr(src, a):
                bad.append(dict(method=what, attribute=a, source=getattr(src, a), copy=getattr(c, a)))
        if not (len(c) == len(src) and all(p.R == q.R and p.Z == q.Z for p, q in zip(c, src))):
            bad.append(dict(method=what, attribute="points"))
        for a in ("xPointsAtStart", "xPointsAtEnd", "connections", "psi_vals", "wallSurfaceAtStart"):
            if getattr(c, a) is getattr(r, a):
                bad.append(dict(method=what, attribute=a, problem="shared with the original (not a copy)"))
        if what == "copy" and c.points is r.points:
            bad.append(dict(method=what, attribute="points", problem="shared with the original"))
    S.static_vc("copy", "hypnotoad.core.equilibrium:EquilibriumRegion.copy", "copy() and newRegionFromPsiContour() carry every structural attribute, take positions / indices from the right source and share no mutable container with the original", not bad, detail=repr(bad[:3]), kind="native", model=bad[0] if bad else None)


def regrid_wiring(S):
    """The real MeshRegion.distributePointsNonorthogonal on recorder contours (exact): which
    spacing function each contour is regridded with, with which surface vectors, and that the
    refined contours returned by the map are kept."""
    import contextlib
    import io
    import types

    from hypnotoad.core import mesh as M
    from hypnotoad.core.equilibrium import Point2D, PsiContour

    bad = []
    n = 0
    for method in ("combined", "perp_orthogonal_combined", "poloidal_orthogonal_combined"):
        for wall_start, wall_end in ((True, False), (False, True), (False, False)):
            for settings in (None, {}, dict(nonorthogonal_xpoint_poloidal_spacing_length=0.03)):
                n += 1
                log = []

                class C:
                    def __init__(self, k, psival):
                        self.k, self.psival = k, psival
                        self.pts = [Point2D(1.0 + 0.1 * k, -0.5), Point2D(1.0 + 0.1 * k, 0.0), Point2D(1.05 + 0.1 * k, 0.5 + 0.01 * k)]
                        self.startInd, self.endInd = 0, 2

                    def __getitem__(self, i):
                        return self.pts[i]

                    def totalDistance(self, psi=None):
                        return 1.0

                    def regrid(self, npoints, **kw):
                        log.append(("regrid", self.k, npoints, kw))

                contours = [C(0, 2.0), C(1, 2.1), C(2, 2.2)]  # contour 0 is the separatrix
                wallvec = [0.0, 1.0]
                # post-condition of the real resetNonorthogonalOptions: the region's option object is
                # REPLACED by a freshly created one.  Before the reset the region still carries the
                # method of the previous call (a different one); the regrid must follow the new object.
                methods = ("combined", "perp_orthogonal_combined", "poloidal_orthogonal_combined")
                stale = methods[(methods.index(method) + 1) % 3]

                def reset(s_):
                    log.append(("reset", dict(s_)))
                    er.nonorthogonal_options = types.SimpleNamespace(nonorthogonal_spacing_method=method)

                er = types.SimpleNamespace(
                    resetNonorthogonalOptions=reset,
                    nonorthogonal_options=types.SimpleNamespace(nonorthogonal_spacing_method=method if settings is None else stale),
                    wallSurfaceAtStart=wallvec if wall_start else None, wallSurfaceAtEnd=wallvec if wall_end else None,
                    combineSfuncs=lambda *a, **k: ("combined", a, k), psi=None, extend_lower=2 if wall_start else 0, extend_upper=2 if wall_end else 0,
                )  # fmt: skip
                refined = [object(), object(), object()]
                me = types.SimpleNamespace(equilibriumRegion=er, contours=list(contours), sfunc_orthogonal_list=["so0", "so1", "so2"], ny_noguards=4,
                                           meshParent=types.SimpleNamespace(equilibrium=types.SimpleNamespace(psi_sep=[2.0])),
                                           parallel_map=lambda f, tasks, **kw: (log.append(("map", f, [t for t in tasks])), refined)[1])  # fmt: skip
                try:
                    with contextlib.redirect_stdout(io.StringIO()):
                        M.MeshRegion.distributePointsNonorthogonal(me, settings)
                except Exception as e:
                    bad.append(dict(method=method, problem="raised %r" % e))
                    continue
                prob = []
                resets = [x for x in log if x[0] == "reset"]
                if (settings is None and resets) or (settings is not None and resets != [("reset", dict(settings))]) or (resets and log[0][0] != "reset"):
                    prob.append("region options reset %r for settings %r (must be reset, first, exactly when settings are given -- an empty dict included)" % (resets, settings))
                rg = [x for x in log if x[0] == "regrid"]
                if [x[1] for x in rg] != [0, 1, 2]:
                    prob.append("contours regridded: %r" % [x[1] for x in rg])
                for x in rg:
                    k, npts, kw = x[1], x[2], x[3]
                    if npts != 9 or kw.get("refine") is not False or kw.get("extend_lower") != er.extend_lower or kw.get("extend_upper") != er.extend_upper:
                        prob.append("contour %d regridded with npoints=%r %r" % (k, npts, {a: kw.get(a) for a in ("refine", "extend_lower", "extend_upper")}))
                    sf = kw.get("sfunc")
                    if not (isinstance(sf, tuple) and sf[0] == "combined" and sf[1][0] is contours[k] and sf[1][1] == "so%d" % k):
                        prob.append("contour %d: spacing function is not combineSfuncs(its own contour, its own orthogonal function)" % k)
                        continue
                    vecs = list(sf[1][2:]) + [None] * (4 - len(sf[1]))
                    if method == "poloidal_orthogonal_combined":
                        want = [None, None]
                    else:
                        want = []
                        for lower in (True, False):
                            wall = er.wallSurfaceAtStart if lower else er.wallSurfaceAtEnd
                            if method == "combined" and wall is not None:
                                want.append(None)  # 'combined': poloidal spacing near a wall, on every contour
                            elif k == 0:  # separatrix contour: the wall's surface vector, or poloidal spacing at an X-point
                                want.append(wall)
                            else:
                                cin, cout = contours[max(k - 1, 0)], contours[min(k + 1, 2)]
                                a, b = (cin[cin.startInd], cout[cout.startInd]) if lower else (cin[cin.endInd], cout[cout.endInd])
                                want.append([b.R - a.R, b.Z - a.Z])
                    if vecs[:2] != want:
                        prob.append("contour %d: surface vectors %r, wanted %r" % (k, vecs[:2], want))
                maps = [x for x in log if x[0] == "map"]
                if not (len(maps) == 1 and maps[0][1] is PsiContour.refine and [t[0] for t in maps[0][2]] == contours and log[-1][0] == "map" and me.contours is refined):
                    prob.append("the regridded contours are not refined through the map, last, with the result kept")
                if prob:
                    bad.append(dict(method=method, wall_start=wall_start, wall_end=wall_end, settings=settings, problems=prob[:3]))
    S.static_vc("regrid-wiring", "hypnotoad.core.mesh:MeshRegion.distributePointsNonorthogonal", "each contour is regridded once with combineSfuncs of its own orthogonal function and the surface vectors of its method / ends, options reset first exactly when settings are given, refined result kept (%d method x end x settings combinations)" % n, not bad and n == 27, detail=repr(bad[:2])[:1200], kind="native-all-classes", model=bad[0] if bad else None)


def build(S):
    copy_faithful(S)
    S.under_contract("hypnotoad.core.equilibrium:EquilibriumRegion.copy", "hypnotoad.core.equilibrium:EquilibriumRegion.newRegionFromPsiContour")
    regrid_wiring(S)
    orchestration(S)
    S.under_contract("hypnotoad.core.mesh:Mesh.calculateRZ")
    S.under_contract(FN_RD, FN_RS, "hypnotoad.core.equilibrium:Equilibrium.resetNonorthogonalOptions", "hypnotoad.core.mesh:MeshRegion.distributePointsNonorthogonal")
    S.assume("history independence itself is explored, not proved: sequences of 1-4 setting changes on a non-orthogonal lower single null, positions compared at 1e-6 and geometry at 1e-5 relative with a mesh built from scratch")
    native_obligations(S)
    # the distribution made once per fresh mesh (and frozen afterwards) must depend on the general
    # spacing options only, the regridded one on the nonorthogonal_* options only: getSpacings'
    # selection, decided exactly for every leg and kind
    from . import C10

    C10.spacing_selection(S)
    # derived quantities must be measured from the grid's own points, not from whatever extension of the fine
    # contour earlier grids left behind: zShift is zero at the contour's start point (chain contract of C06)
    from vc.shim import numpy_shimmed
    from . import chainkit

    with numpy_shimmed():
        S.under_contract("hypnotoad.core.mesh:MeshRegion.calcZShift")
        # history-independence of the derived quantities: regridding in place never leaves cached
        # distances of the OLD points behind, and a second geometry() pass accumulates nothing
        from . import C05_cache

        C05_cache.add(S)
        S.contract("calcZShift[two-region open chain, called twice]", "hypnotoad.core.mesh:MeshRegion.calcZShift", chainkit.run_zshift(False, repeat=2), shape="two regions, nx=1, ny=1; second call on the same regions", assume_safety="R>0 and Bp!=0 at the fine-contour nodes (geometry preconditions)")
        S.contract("calcZShift[open chain, guard points and a fine contour extended below the start]", "hypnotoad.core.mesh:MeshRegion.calcZShift", chainkit.run_zshift(False, start1=2, fine_offset=3), shape="two regions, nx=1; contour start index 2, fine-contour start index 5", assume_safety="R>0 and Bp!=0 at the fine-contour nodes (geometry preconditions)")


def post(S):
    t0 = time.time()
    cmd = [sys.executable, os.path.join(ROOT, "bounded", "history.py"), REPO, S.tier]
    logf = os.path.join(ROOT, ".cache", "hist.%d.log" % os.getpid())
    os.makedirs(os.path.dirname(logf), exist_ok=True)
    with open(logf, "w") as lf:
        p = subprocess.Popen(cmd, stdout=lf, stderr=subprocess.STDOUT, start_new_session=True, env=dict(os.environ, PYTHONPATH=ROOT))
        try:
            p.wait(timeout=2400)
        except subprocess.TimeoutExpired:
            import signal

            os.killpg(p.pid, signal.SIGKILL)
    txt = open(logf).read()
    os.remove(logf)
    res = None
    for line in txt.splitlines():
        if line.startswith("RESULT "):
            res = json.loads(line[7:])
    rows = (res or {}).get("rows", [])
    S.bounded.append(dict(name="redistributePoints sequences vs meshes built from scratch", evaluations=len(rows), distinct_nontrivial=max(2, len(rows)) if rows else 0,
                          rule="non-orthogonal LSN; settings A (defaults), B, C of nonorthogonal_* options; sequences incl. returning to earlier settings; distinct = sequences", bound="%d builds" % (res or {}).get("n", 0), samples=rows,
                          failures=(res or {}).get("bad", ["no result: " + txt[-500:]]), wall_s=round(time.time() - t0, 1)))  # fmt: skip
    S.extra_cov.update(evaluations=max(1, len(rows)), distinct_nontrivial=max(2, len(rows)), rule="sequences of redistributePoints calls compared with from-scratch builds", samples=rows[:3] or ["none"])
    if res is None:
        S.crashes.append("history harness produced no result: " + txt[-400:])
    for b in (res or {}).get("bad", []):
        S.static_vc("bounded:history[%s]" % b.get("sequence"), FN_RD, b.get("problem", "regridded mesh differs from a mesh built from scratch with the final settings"), False, detail=repr(b), kind="bounded-grid", model=b)
