"""C18  psi interpolation reproduces the data; derived fields are its derivatives.

(a) helper chain Equilibrium.Bzeta ... dBdZ (real code) against the derivative
    operator D_R, D_Z over jets of psi and fpol; div B = 0.
(b) spline branch of magneticFunctionsFromGrid (real code) with RectBivariateSpline
    replaced by its assumed contract: S(R,Z,dx=a,dy=b) = d^a_R d^b_Z psi.
(c) DCT_2D: every derivative method is the derivative of __call__ (real code on a
    symbolic coefficient array, all modes), given the constructor's uniform-grid guard.
(e) handleMultiLocationArray: location l of the result is getResult on location l.
Node reproduction and spline-vs-DCT agreement are bounded (numerical) checks.
"""
import types

import numpy
import z3

from vc.shim import numpy_shimmed, patched
from vc.sym import And, Or, Sym, spec_mode, SymbolicError
from . import eqkit
from . import meshkit as mk

LEVEL = "proof"
FN_MFG = "hypnotoad.core.equilibrium:Equilibrium.magneticFunctionsFromGrid"
FN_HMLA = "hypnotoad.core.equilibrium:Equilibrium.handleMultiLocationArray"
TRUE = lambda b: Sym(z3.BoolVal(bool(b)))


def helper_chain_obligations(ctx, eq, jf, p, tag="", twins=False):
    """Post-conditions of the helper chain at jet point p (real methods of eq)."""
    R, Z = p.R, p.Z
    D = jf.D
    sp = eqkit.spec_fields(p)
    val = {h: getattr(eq, h)(R, Z) for h in eqkit.HELPERS}
    with spec_mode():
        ctx.oblige(val["Bzeta"] == sp["Bzeta"], "Bzeta=fpol(psi)/R" + tag)
        ctx.oblige(val["B2"] == sp["B2"], "B2=BR^2+BZ^2+Bzeta^2" + tag)
        BR, BZ = eq.Bp_R(R, Z), eq.Bp_Z(R, Z)
        for name, base in (("Bzeta", val["Bzeta"]), ("BR", BR), ("BZ", BZ), ("B2", val["B2"])):
            ctx.oblige(val["d%sdR" % name] == D(base, "R"), "d%sdR=D_R(%s)" % (name, name) + tag)
            ctx.oblige(val["d%sdZ" % name] == D(base, "Z"), "d%sdZ=D_Z(%s)" % (name, name) + tag)
        B = val["B2"].sqrt()
        ctx.oblige(val["dBdR"] == D(B, "R"), "dBdR=D_R(sqrt(B2))" + tag)
        ctx.oblige(val["dBdZ"] == D(B, "Z"), "dBdZ=D_Z(sqrt(B2))" + tag)
        ctx.oblige(D(R * BR, "R") / R + D(BZ, "Z") == 0, "divB=0(interpolant)" + tag, kind="lemma")
        ctx.oblige(val["dBRdR"] + BR / R + val["dBZdZ"] == 0, "divB=0(code derivatives)" + tag)
        if twins:
            ctx.oblige(val["dBZdR"] == -D(BZ, "R"), "twin:dBZdR sign" + tag, kind="must-fail")
            ctx.oblige(val["dB2dZ"] == D(val["B2"], "R"), "twin:dB2dZ=D_R" + tag, kind="must-fail")
    return val


def run_helpers(ctx):
    jf = eqkit.JetField(ctx, ("",))
    p = jf.points[""]
    eq = eqkit.skeleton_equilibrium(jf)
    ctx.assume(p.R > 0)
    sp = eqkit.spec_fields(p)
    ctx.assume(sp["B2"] > 0)
    helper_chain_obligations(ctx, eq, jf, p, twins=True)


class SplineStub:
    """Assumed contract of scipy.interpolate.RectBivariateSpline."""

    instances = []

    def __init__(self, x, y, z, **kw):
        self.x, self.y, self.z, self.kw = x, y, z, kw
        self.calls = []
        SplineStub.instances.append(self)

    def __call__(self, R, Z, dx=0, dy=0, grid=True):
        self.calls.append(dict(dx=dx, dy=dy, grid=grid))
        return SplineStub.jf.lift(lambda p: p.psi_partial(dx, dy), "S[%d,%d]" % (dx, dy))(R, Z)


def run_spline(ctx):
    from hypnotoad.core import equilibrium as E

    jf = eqkit.JetField(ctx, ("",))
    p = jf.points[""]
    SplineStub.jf = jf
    SplineStub.instances = []
    eq = object.__new__(E.Equilibrium)
    # the four extents are pairwise different, so a mixed-up bound cannot hide
    Rg = numpy.array([1.0, 1.5, 2.5])
    Zg = numpy.array([-1.25, 0.0, 1.0, 3.0])
    data = numpy.arange(12.0).reshape(3, 4)
    with patched((E.interpolate, "RectBivariateSpline", SplineStub)):
        E.Equilibrium.magneticFunctionsFromGrid(eq, Rg, Zg, data, "spline")
        R, Z = p.R, p.Z
        ctx.assume(And(R >= 1.0, R <= 2.5, Z >= -1.25, Z <= 3.0))  # inside the domain: clip is the identity
        gm = p.pR * p.pR + p.pZ * p.pZ
        ctx.assume(gm > 0)
        out = dict(psi=eq.psi(R, Z), f_R=eq.f_R(R, Z), f_Z=eq.f_Z(R, Z), Bp_R=eq.Bp_R(R, Z), Bp_Z=eq.Bp_Z(R, Z), RR=eq.d2psidR2(R, Z), ZZ=eq.d2psidZ2(R, Z), RZ=eq.d2psidRdZ(R, Z))
    with spec_mode():
        s = SplineStub.instances
        ctx.oblige(TRUE(len(s) == 1 and s[0].x is Rg and s[0].y is Zg and s[0].z is data and not s[0].kw), "one spline built from (R, Z, psiRZ) as given")
        ctx.oblige(TRUE(all(c["grid"] is False for c in s[0].calls)), "point-wise evaluation (grid=False)")
        ctx.oblige(out["psi"] == p.psi, "psi=S")
        ctx.oblige(out["f_R"] * gm == p.pR, "f_R=psi_R/|grad psi|^2")
        ctx.oblige(out["f_Z"] * gm == p.pZ, "f_Z=psi_Z/|grad psi|^2")
        ctx.oblige(p.pR * out["f_R"] + p.pZ * out["f_Z"] == 1, "grad(psi).f=1")
        ctx.oblige(out["Bp_R"] == p.pZ / R, "Bp_R=psi_Z/R")
        ctx.oblige(out["Bp_Z"] == -p.pR / R, "Bp_Z=-psi_R/R")
        ctx.oblige(out["RR"] == p.pRR, "d2psidR2")
        ctx.oblige(out["ZZ"] == p.pZZ, "d2psidZ2")
        ctx.oblige(out["RZ"] == p.pRZ, "d2psidRdZ")
        ctx.oblige(out["Bp_R"] == p.pR / R, "twin:Bp_R uses dx", kind="must-fail")


def run_spline_mla(ctx):
    """(e) MultiLocationArray arguments: per-location evaluation (shape nx=1, ny=1)."""
    from hypnotoad.core import equilibrium as E

    locs = mk.LOCS4
    jf = eqkit.JetField(ctx, locs)
    SplineStub.jf = jf
    SplineStub.instances = []
    eq = object.__new__(E.Equilibrium)
    Rg = numpy.array([1.0, 1.5, 2.5])
    Zg = numpy.array([-1.25, 0.0, 3.0])
    MLA = mk.mla_cls()
    Rm, Zm = MLA(1, 1), MLA(1, 1)
    for l in locs:
        getattr(Rm, l)[...] = jf.points[l].R
        getattr(Zm, l)[...] = jf.points[l].Z
        ctx.assume(And(jf.points[l].R >= 1.0, jf.points[l].R <= 2.5, jf.points[l].Z >= -1.25, jf.points[l].Z <= 3.0))
        ctx.assume(jf.points[l].pR * jf.points[l].pR + jf.points[l].pZ * jf.points[l].pZ > 0)
    with patched((E.interpolate, "RectBivariateSpline", SplineStub)):
        E.Equilibrium.magneticFunctionsFromGrid(eq, Rg, Zg, numpy.zeros((3, 3)), "spline")
        psi = eq.psi(Rm, Zm)
        bpr = eq.Bp_R(Rm, Zm)
        fz = eq.f_Z(Rm, Zm)
    with spec_mode():
        for l in locs:
            p = jf.points[l]
            a = getattr(psi, l)
            ctx.oblige(TRUE(a.shape == getattr(Rm, l).shape), "shape@%s" % l)
            for idx in numpy.ndindex(*a.shape):
                ctx.oblige(a[idx] == p.psi, "psi[MLA]@%s%s" % (l, list(idx)))
                ctx.oblige(getattr(bpr, l)[idx] == p.pZ / p.R, "Bp_R[MLA]@%s%s" % (l, list(idx)))
                ctx.oblige(getattr(fz, l)[idx] * (p.pR * p.pR + p.pZ * p.pZ) == p.pZ, "f_Z[MLA]@%s%s" % (l, list(idx)))
    # mixed argument kinds are refused
    try:
        eq.psi(Rm, 1.0)
        refused = False
    except ValueError:
        refused = True
    ctx.oblige(TRUE(refused), "MLA with non-MLA argument is refused")


class DCTStub:
    """Contract of DCT_2D proved in C18_dct: the five derivative methods are the
    partial derivatives of __call__."""

    instances = []

    def __init__(self, R, Z, psiRZ):
        self.args = (R, Z, psiRZ)
        DCTStub.instances.append(self)
        jf = DCTStub.jf
        self.ddR = jf.lift(lambda p: p.pR, "ddR")
        self.ddZ = jf.lift(lambda p: p.pZ, "ddZ")
        self.d2dR2 = jf.lift(lambda p: p.pRR, "d2dR2")
        self.d2dZ2 = jf.lift(lambda p: p.pZZ, "d2dZ2")
        self.d2dRdZ = jf.lift(lambda p: p.pRZ, "d2dRdZ")
        self._call = jf.lift(lambda p: p.psi, "call")

    def __call__(self, R, Z):
        return self._call(R, Z)


def run_dct_wiring(ctx):
    from hypnotoad.core import equilibrium as E
    from hypnotoad.utils import dct_interpolation as M

    jf = eqkit.JetField(ctx, ("",))
    p = jf.points[""]
    DCTStub.jf = jf
    DCTStub.instances = []
    eq = object.__new__(E.Equilibrium)
    Rg, Zg, data = numpy.array([1.0, 1.5, 2.0]), numpy.array([-1.0, 0.0, 1.0, 2.0]), numpy.arange(12.0).reshape(3, 4)
    with patched((M, "DCT_2D", DCTStub)):
        E.Equilibrium.magneticFunctionsFromGrid(eq, Rg, Zg, data, "dct")
    R, Z = p.R, p.Z
    gm = p.pR * p.pR + p.pZ * p.pZ
    ctx.assume(And(R > 0, gm > 0))
    out = dict(psi=eq.psi(R, Z), f_R=eq.f_R(R, Z), f_Z=eq.f_Z(R, Z), Bp_R=eq.Bp_R(R, Z), Bp_Z=eq.Bp_Z(R, Z), RR=eq.d2psidR2(R, Z), ZZ=eq.d2psidZ2(R, Z), RZ=eq.d2psidRdZ(R, Z))
    with spec_mode():
        s = DCTStub.instances
        ctx.oblige(TRUE(len(s) == 1 and s[0].args[0] is Rg and s[0].args[1] is Zg and s[0].args[2] is data), "one DCT_2D built from (R, Z, psiRZ) as given")
        ctx.oblige(out["psi"] == p.psi, "psi=DCT")
        ctx.oblige(out["f_R"] * gm == p.pR, "f_R=psi_R/|grad psi|^2")
        ctx.oblige(out["f_Z"] * gm == p.pZ, "f_Z=psi_Z/|grad psi|^2")
        ctx.oblige(p.pR * out["f_R"] + p.pZ * out["f_Z"] == 1, "grad(psi).f=1")
        ctx.oblige(out["Bp_R"] == p.pZ / R, "Bp_R=psi_Z/R")
        ctx.oblige(out["Bp_Z"] == -p.pR / R, "Bp_Z=-psi_R/R")
        ctx.oblige(out["RR"] == p.pRR, "d2psidR2")
        ctx.oblige(out["ZZ"] == p.pZZ, "d2psidZ2")
        ctx.oblige(out["RZ"] == p.pRZ, "d2psidRdZ")
    bad = False
    try:
        E.Equilibrium.magneticFunctionsFromGrid(object.__new__(E.Equilibrium), Rg, Zg, data, "cubic")
    except ValueError:
        bad = True
    ctx.oblige(TRUE(bad), "unknown interpolation option is refused")


def build(S):
    S.under_contract(*eqkit.FN_HELPERS)
    S.under_contract(FN_MFG, FN_HMLA)
    S.assume("A-PURE: psi, fpol are smooth deterministic functions; their partial derivatives are independent jet symbols (psi up to 3rd order, fpol up to 2nd)")
    S.assume("external contract (assumed): RectBivariateSpline.__call__(R,Z,dx=a,dy=b,grid=False) = d^a/dR^a d^b/dZ^b of the same interpolant; the spline interpolates its nodes (bounded check only)")
    S.assume("external contract (assumed): scipy.fftpack.dct type II definition, inverse-DCT identity (node reproduction is a bounded check)")
    S.trust("interpolant-level members of the skeleton Equilibrium are jet stubs with the contracts proved in run_spline / run_dct")
    with numpy_shimmed():
        S.contract("helpers", "hypnotoad.core.equilibrium:Equilibrium.dB2dR", run_helpers, shape="one evaluation point")
        S.contract("spline-wiring", FN_MFG, run_spline, shape="one evaluation point inside the domain; 3x4 node grid")
        S.contract("spline-wiring[MLA]", FN_HMLA, run_spline_mla, shape="nx=1, ny=1, four locations")
        S.contract("dct-wiring", FN_MFG, run_dct_wiring, shape="one evaluation point")
        from . import C03, C18_dct

        # fpol / fpolprime of the tokamak class: fpolprime is the psi-derivative of fpol for either orientation of the psi profile
        S.under_contract(C03.FN_FPOL, C03.FN_FPP)
        S.contract("fpol/fpolprime/pressure/Bt_axis", C03.FN_FPP, C03.run_profiles, shape="scalar")
        C18_dct.add(S)
        # the hand-over INTO the interpolation on the g-file route: the node coordinates and the
        # psi[x, y] order handed to the constructor are those of the file (off-centre Z grids included)
        from . import C17

        S.under_contract(C17.FN_RG)
        S.contract("read_geqdsk[3x4,wall]", C17.FN_RG, C17.run_read_geqdsk(3, 4, True), shape="nx=3, ny=4, symbolic rleft, rdim, zmid, zdim")
        S.contract("read_geqdsk[5x3,nowall]", C17.FN_RG, C17.run_read_geqdsk(5, 3, False), shape="nx=5, ny=3")


def post(S):
    from . import C18_bounded

    C18_bounded.run(S)
