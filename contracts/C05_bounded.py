"""Circular equilibrium: the arc length of a flux surface is analytic (r * dtheta), so
hy*dy, poloidal_distance and total_poloidal_distance can be compared with exact values,
and the convergence with finecontour_Nfine measured."""
import time

import numpy as np

from bounded import gridbank as gb

BASE = dict(R0=2.3, B0=3.2, poloidal_spacing_method="linear", q_coefficients=[4.1], r_inner=0.2, r_outer=1.2, refine_methods="line", refine_width=1.0e-3, nx=4, ny=16, number_of_processors=1)


def circ_cfg(nfine, limiter=False, **kw):
    o = dict(BASE)
    o.update(finecontour_Nfine=nfine, limiter=limiter)
    o.update(kw)
    return gb.cfg("circular", o, kind="circular", label="circular-%s-Nfine%d" % ("limiter" if limiter else "core", nfine))


def measure(d):
    R0 = d["cfg"]["options"]["R0"]
    errs = []
    tot_err = []
    for r in d["regions"]:
        m = r["mla"]
        dy = m["dy"]["centre"][0, 0]
        for mid, face in (("centre", "ylow"), ("xlow", "corners")):
            Rf, Zf = m["Rxy"][face], m["Zxy"][face]
            rad = np.hypot(Rf - R0, Zf)
            th = np.unwrap(np.arctan2(Zf, Rf - R0), axis=1)
            arc = np.abs(th[:, 1:] - th[:, :-1]) * 0.5 * (rad[:, 1:] + rad[:, :-1])
            errs.append(np.abs(m["hy"][mid] * dy - arc) / arc)
        if "total_poloidal_distance" in m and r["connections"].get("lower") is not None:
            rc = np.hypot(m["Rxy"]["centre"][:, 0] - R0, m["Zxy"]["centre"][:, 0])
            tp = m["total_poloidal_distance"]["centre"][:, 0]
            tot_err.append(np.abs(tp - 2 * np.pi * rc) / (2 * np.pi * rc))
    return float(np.max([e.max() for e in errs])), (float(np.max([e.max() for e in tot_err])) if tot_err else None)


def run(S):
    t0 = time.time()
    nf = [50, 100, 200] if S.tier == "quick" else [50, 100, 200, 400, 800]
    cfgs = [circ_cfg(n) for n in nf] + [circ_cfg(100, limiter=True)]
    res = gb.generate_many(cfgs)
    rows, bad, refused = [], [], []
    for c, r in zip(cfgs, res):
        if not r["ok"]:
            refused.append(dict(cfg=c["label"], error=r["error"][:200]))
            continue
        e_hy, e_tot = measure(r["data"])
        rows.append(dict(cfg=c["label"], Nfine=c["options"]["finecontour_Nfine"], limiter=c["options"]["limiter"], max_rel_err_hy_dy=e_hy, max_rel_err_total=e_tot))
    core = [x for x in rows if not x["limiter"]]
    for x in rows:
        if x["max_rel_err_hy_dy"] > 2e-3 * (100.0 / x["Nfine"]) ** 2 + 1e-7:
            bad.append(dict(x, problem="hy*dy differs from the exact arc length r*dtheta"))
        if x["max_rel_err_total"] is not None and x["max_rel_err_total"] > 2e-3 * (100.0 / x["Nfine"]) ** 2 + 1e-7:
            bad.append(dict(x, problem="total_poloidal_distance differs from the circumference 2*pi*r"))
    # quadratic convergence: doubling Nfine divides the error by about 4 (at least 2.5)
    for a, b in zip(core[:-1], core[1:]):
        if a["max_rel_err_hy_dy"] > 1e-9 and not (a["max_rel_err_hy_dy"] / max(b["max_rel_err_hy_dy"], 1e-300) > 2.5):
            bad.append(dict(problem="error does not shrink quadratically with finecontour_Nfine", coarse=a, fine=b))
    S.bounded.append(dict(name="circular equilibrium: hy*dy and total_poloidal_distance vs exact arc length; convergence in finecontour_Nfine", evaluations=len(rows) * 2, distinct_nontrivial=len(rows),
                          rule="circular core (Nfine in %s) and limiter grids, nx=4, ny=16; exact arc = r*dtheta; distinct = grids" % nf, bound="Nfine<=%d" % max(nf), samples=rows, failures=bad[:4], generation_refused=refused, wall_s=round(time.time() - t0, 1)))  # fmt: skip
    for b in bad:
        S.static_vc("bounded:circular-arc-length", "hypnotoad.core.equilibrium:FineContour.calcDistance", b["problem"], False, detail=repr(b)[:600], kind="bounded-grid", model=b)
