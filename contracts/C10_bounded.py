"""Bounded stand-in for C10: numerical lattice over every spacing function of the real
EquilibriumRegion (concave/convex monotonic, sqrt variants, linear, fixed-spacing wrapper)."""
import itertools
import time

import numpy


def make_region(ny=5, kind="wall.wall", name="", guards=1, extra=None):
    from hypnotoad.core.equilibrium import EquilibriumRegion, Point2D, Equilibrium

    class ThisEquilibrium(Equilibrium):
        def __init__(self, settings=None):
            if settings is None:
                settings = {}
            self.user_options = self.user_options_factory.create(settings)
            super().__init__({})

    s = {"y_boundary_guards": guards}
    s.update(extra or {})
    eq = ThisEquilibrium(settings=s)
    eq.psi = lambda R, Z: R - Z
    n = 11.0
    pts = [Point2D(i * 3.0 / (n - 1.0), i * 3.0 / (n - 1.0)) for i in numpy.arange(n)]
    return EquilibriumRegion(equilibrium=eq, name=name, nSegments=1, nx=[1], ny=ny, kind=kind, ny_total=ny, points=pts, psival=0.0, Rrange=(-float("inf"), float("inf")), Zrange=(-float("inf"), float("inf")))


def grad(f, x, h=1e-6):
    return (float(f(numpy.array(x + h))) - float(f(numpy.array(x - h)))) / (2 * h)


def run(S):
    t0 = time.time()
    r = make_region()
    bad, n_eval = [], 0
    classes = set()
    Ns = [4.0, 10.0] if S.tier == "quick" else [2.0, 4.0, 10.0, 33.0]
    # ---- monotonic: all (L, N, N_norm, d_lower, d_upper) incl. concave cases
    n_concave = 0
    for L, N, Nn, dl, du in itertools.product([0.02, 0.1, 0.5, 2.0], Ns, [10.0, 40.0], [0.02, 0.3, 0.4, 3.0], [0.01, 0.25, 0.5, 2.0]):
        try:
            f = r.getMonotonicPoloidalDistanceFunc(L, N, Nn, d_lower=dl, d_upper=du)
        except ValueError as e:
            continue  # refused
        n_eval += 1
        concave = L < 0.5 * (du + dl) * N / Nn - 1e-8 * L
        n_concave += bool(concave)
        classes.add(("monotonic", concave, dl > du, N))
        prob = []
        F = lambda x: float(f(numpy.array(float(x))))
        if abs(F(0.0)) > 1e-9 * L:
            prob.append("s(0)=%g" % F(0.0))
        if abs(F(N) - L) > 1e-7 * L:
            prob.append("s(N)-L=%g" % (F(N) - L))
        xs = numpy.arange(-2.0, N + 3.0)
        v = numpy.array([F(x) for x in xs])
        if not numpy.all(numpy.diff(v) > 0):
            prob.append("not strictly increasing on the integer indices incl. guards")
        # one-sided end gradients, extrapolated linearly to the end point from offsets e and 2e (the
        # gradient of a strongly concave function changes noticeably within 1e-5 of an index)
        e1 = lambda x0, sgn: (2 * grad(f, x0 + sgn * 1e-5) - grad(f, x0 + sgn * 2e-5)) * Nn
        g0, g0m = e1(0.0, 1), e1(0.0, -1)
        gN, gNp = e1(N, -1), e1(N, 1)
        for nm, got, want in (("ds/diN(0+)", g0, dl), ("ds/diN(0-)", g0m, dl), ("ds/diN(N-)", gN, du), ("ds/diN(N+)", gNp, du)):
            if abs(got - want) > 2e-3 * max(want, L * Nn / N):
                prob.append("%s=%g, wanted %g" % (nm, got, want))
        try:
            f2 = r.getMonotonicPoloidalDistanceFunc(L, 2 * N, 2 * Nn, d_lower=dl, d_upper=du)
            err = max(abs(float(f2(numpy.array(2.0 * i))) - F(i)) for i in range(int(N) + 1))
            if err > 1e-7 * L:
                prob.append("doubling: max |s2(2i)-s(i)|=%g" % err)
        except ValueError:
            pass
        if prob:
            bad.append(dict(func="monotonic", L=L, N=N, N_norm=Nn, d_lower=dl, d_upper=du, concave=bool(concave), problems=prob))
    # ---- sqrt variants: end values, end-gradient regular parts, doubling
    for L, N, Nn in itertools.product([0.5, 2.0], Ns, [1.0, 40.0]):
        mean = L * Nn / N
        for kw in ({}, dict(b_lower=0.3 * mean), dict(b_upper=0.4 * mean), dict(b_lower=0.3 * mean, b_upper=0.5 * mean), dict(b_lower=0.2 * mean, a_lower=0.1 * mean), dict(b_upper=0.2 * mean, a_upper=0.1 * mean), dict(b_lower=0.3 * mean, a_lower=0.05 * mean, b_upper=0.4 * mean, a_upper=0.05 * mean)):
            try:
                f = r.getSqrtPoloidalDistanceFunc(L, N, Nn, **kw)
            except ValueError:
                continue
            n_eval += 1
            classes.add(("sqrt", tuple(sorted(kw)), N, Nn))
            F = lambda x: float(f(numpy.array(float(x))))
            prob = []
            if abs(F(0.0)) > 1e-9 * L:
                prob.append("s(0)=%g" % F(0.0))
            if abs(F(N) - L) > 1e-9 * L:
                prob.append("s(N)-L=%g" % (F(N) - L))
            if "a_lower" not in kw and "b_lower" in kw:
                g = grad(f, 1e-5) * Nn
                if abs(g - kw["b_lower"]) > 1e-3 * mean:
                    prob.append("ds/diN(0)=%g, wanted b_lower=%g" % (g, kw["b_lower"]))
            if "a_upper" not in kw and "b_upper" in kw:
                g = grad(f, N - 1e-5) * Nn
                if abs(g - kw["b_upper"]) > 1e-3 * mean:
                    prob.append("ds/diN(N)=%g, wanted b_upper=%g" % (g, kw["b_upper"]))
            try:
                f2 = r.getSqrtPoloidalDistanceFunc(L, 2 * N, 2 * Nn, **kw)
                err = max(abs(float(f2(numpy.array(2.0 * i))) - F(i)) for i in range(int(N) + 1))
                if err > 1e-9 * L:
                    prob.append("doubling: max |s2(2i)-s(i)|=%g" % err)
            except ValueError:
                pass
            if prob:
                bad.append(dict(func="sqrt", L=L, N=N, N_norm=Nn, kw=kw, problems=prob))
    # ---- fixed-spacing wrapper (the entry point used by the regions), both methods
    for kind, name in (("wall.X", "inner_lower_divertor"), ("X.wall", "outer_lower_divertor"), ("X.X", "core"), ("wall.wall", "inner_x")):
        for method in ("sqrt", "monotonic"):
            for tl, xl in ((0.3, 0.05), (0.05, 0.3), (1.0, 1.0)):
                try:
                    rr = make_region(ny=6, kind=kind, name=name, extra=dict(target_all_poloidal_spacing_length=tl, xpoint_poloidal_spacing_length=xl, poloidal_spacing_method=method))
                    npts = 2 * rr.ny_noguards + 1
                    total = 2.7
                    sf = rr.getSfuncFixedSpacing(npts, total, method=method)
                except ValueError:
                    continue
                except Exception as e:
                    bad.append(dict(func="getSfuncFixedSpacing", kind=kind, method=method, problems=["raised %r" % e]))
                    continue
                n_eval += 1
                classes.add(("fixed", kind, method, tl > xl))
                v = numpy.array([float(sf(numpy.array(float(i)))) for i in range(npts)])
                prob = []
                if abs(v[0]) > 1e-9 or abs(v[-1] - total) > 1e-7 * total:
                    prob.append("end values %g, %g (wanted 0, %g)" % (v[0], v[-1], total))
                if not numpy.all(numpy.diff(v) > 0):
                    prob.append("not strictly increasing over its own indices")
                if prob:
                    bad.append(dict(func="getSfuncFixedSpacing", kind=kind, method=method, target_length=tl, xpoint_length=xl, problems=prob))
    if n_concave < 10:
        S.crashes.append("spacing lattice reached the concave branch only %d times (vacuous)" % n_concave)
    S.bounded.append(dict(name="poloidal spacing functions: numerical lattice", concave_cases_evaluated=n_concave, evaluations=n_eval, distinct_nontrivial=len(classes),
                          rule="monotonic: L x N x N_norm x d_lower x d_upper (convex and concave); sqrt: 7 parameter patterns; getSfuncFixedSpacing: 4 region kinds x 2 methods x 3 length pairs; checks s(0)=0, s(N)=L, strict increase on integer indices incl. guards, end gradients in normalised index (finite differences, both sides), doubling; distinct = (function, branch, pattern, N)",
                          bound="N<=%g" % max(Ns), samples=[dict(func="monotonic", L=2.0, N=10.0, N_norm=40.0, d_lower=0.02, d_upper=0.01)], failures=bad[:5], wall_s=round(time.time() - t0, 1)))  # fmt: skip
    if bad:
        S.static_vc("bounded:spacing-lattice", "hypnotoad.core.equilibrium:EquilibriumRegion.getMonotonicPoloidalDistanceFunc", "end values / monotone / end gradients / doubling on the parameter lattice", False, detail=repr(bad[:3]), kind="bounded-native", model=bad[0])
