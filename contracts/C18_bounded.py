def run(S):
    pass
