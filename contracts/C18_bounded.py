"""C18, bounded part: node reproduction and agreement of the two interpolation methods.

Node reproduction is decided *completely in the values* for each array size tried: both
interpolants are linear in the data (DCT_2D.__call__ is a linear form in psiDCT -- visible in
the contract of C18_dct --, psiDCT is a linear image of the data through scipy's dct,
RectBivariateSpline with s=0 solves a linear collocation system), so reproducing every unit
array e_ij at every node to eps implies |interp(psi)(node) - psi[node]| <= eps * sum|psi| for
EVERY array of that size.  Additivity is itself spot-checked natively.  Bounded in the
array size only.  The real wiring (Equilibrium.magneticFunctionsFromGrid, transposition
conventions included) is what is called.
"""
import time

import numpy as np

FN_MFG = "hypnotoad.core.equilibrium:Equilibrium.magneticFunctionsFromGrid"
SIZES_QUICK = [(4, 4), (4, 7), (9, 5), (12, 17)]
SIZES_THOROUGH = SIZES_QUICK + [(5, 4), (6, 6), (17, 12), (24, 33), (33, 20)]


def bare_equilibrium(R, Z, psiRZ, option):
    from hypnotoad.core.equilibrium import Equilibrium

    eq = object.__new__(Equilibrium)
    eq.magneticFunctionsFromGrid(R, Z, psiRZ, option)
    return eq


def node_reproduction(S):
    t0 = time.time()
    sizes = SIZES_QUICK if S.tier == "quick" else SIZES_THOROUGH
    rows, bad = [], []
    n_eval = 0
    rng = np.random.default_rng(18)
    for option in ("spline", "dct"):
        for nR, nZ in sizes:
            R = np.linspace(0.7, 2.9, nR)
            Z = np.linspace(-1.9, 1.3, nZ)
            RR, ZZ = np.meshgrid(R, Z, indexing="ij")
            worst, where = 0.0, None
            for i in range(nR):
                for j in range(nZ):
                    e = np.zeros((nR, nZ))
                    e[i, j] = 1.0
                    eq = bare_equilibrium(R, Z, e, option)
                    got = np.asarray(eq.psi(RR, ZZ), dtype=float)
                    err = np.abs(got - e).max()
                    n_eval += got.size
                    if err > worst:
                        worst, where = float(err), [i, j] + [int(k) for k in np.unravel_index(np.argmax(np.abs(got - e)), got.shape)]
            # additivity / homogeneity on random data (the linearity the basis argument rests on)
            a, b = rng.normal(size=(nR, nZ)), rng.normal(size=(nR, nZ))
            pts = (rng.uniform(R[0], R[-1], 40), rng.uniform(Z[0], Z[-1], 40))
            ea, eb, eab = (bare_equilibrium(R, Z, x, option) for x in (a, b, 2.5 * a - 1.5 * b))
            lin = float(np.abs(np.asarray(eab.psi(*pts)) - (2.5 * np.asarray(ea.psi(*pts)) - 1.5 * np.asarray(eb.psi(*pts)))).max())
            # scalar and array arguments agree
            s0 = float(ea.psi(pts[0][0], pts[1][0]))
            scal = abs(s0 - float(np.asarray(ea.psi(*pts))[0]))
            row = dict(method=option, nR=nR, nZ=nZ, basis_arrays=nR * nZ, worst_node_error=worst, worst_at_basis_and_node=where, linearity_defect=lin, scalar_vs_array=scal)
            rows.append(row)
            if worst > 1e-11 or lin > 1e-9 or scal > 1e-12:
                bad.append(row)
    S.bounded.append(dict(name="node reproduction on the basis of unit arrays (complete in values by linearity)", evaluations=n_eval, distinct_nontrivial=len(rows), rule="for each method and array size: every unit array e_ij is reproduced at every node to 1e-11 through the real magneticFunctionsFromGrid wiring (non-square sizes, distinct R and Z extents), linearity on random data to 1e-9, scalar = array evaluation; by linearity |interp(psi)(node)-psi[node]| <= 1e-11*sum|psi| for every array of these sizes; distinct = (method, size)", bound="sizes %s" % (sizes,), samples=rows[:4], failures=bad, wall_s=round(time.time() - t0, 1)))  # fmt: skip
    for b in bad:
        S.static_vc("bounded:node-reproduction[%s %dx%d]" % (b["method"], b["nR"], b["nZ"]), FN_MFG, "the interpolated psi reproduces the input array at the input nodes", False, detail=repr(b), kind="bounded-grid", model=b)


def analytic():
    import sympy as sp

    R, Z = sp.symbols("R Z", real=True)
    psi = (R - 1.7) ** 2 + sp.Rational(3, 5) * (Z + sp.Rational(1, 5)) ** 2 - sp.Rational(3, 10) * (R - 1.7) ** 3 + sp.Rational(1, 4) * sp.sin(sp.Rational(13, 10) * Z) * (R - 1) + sp.Rational(1, 10) * sp.cos(2 * R) * Z
    f = lambda e: sp.lambdify((R, Z), e, "numpy")
    d = dict(psi=psi, dR=sp.diff(psi, R), dZ=sp.diff(psi, Z), dRR=sp.diff(psi, R, 2), dZZ=sp.diff(psi, Z, 2), dRZ=sp.diff(psi, R, Z))
    return {k: f(v) for k, v in d.items()}


# (quantity, tolerance relative to the scale of the analytic quantity) per resolution, interior points;
# measured on the repaired tree: see evidence samples; margins >= 5x
TOL = {
    "spline": {33: dict(psi=4e-7, grad=2e-5, hess=1.2e-3), 65: dict(psi=4e-8, grad=5e-6, hess=3e-4), 129: dict(psi=4e-9, grad=6e-7, hess=1e-4)},
    "dct": {33: dict(psi=2e-3, grad=5e-2, hess=0.8), 65: dict(psi=2.5e-4, grad=1.5e-2, hess=0.5), 129: dict(psi=4e-5, grad=4e-3, hess=0.3)},
}


def method_agreement(S):
    t0 = time.time()
    A = analytic()
    rng = np.random.default_rng(181)
    Rlo, Rhi, Zlo, Zhi = 0.9, 2.6, -1.5, 1.2
    pr = rng.uniform(Rlo + 0.2 * (Rhi - Rlo), Rhi - 0.2 * (Rhi - Rlo), 300)
    pz = rng.uniform(Zlo + 0.2 * (Zhi - Zlo), Zhi - 0.2 * (Zhi - Zlo), 300)
    exact = {k: f(pr, pz) for k, f in A.items()}
    g2 = exact["dR"] ** 2 + exact["dZ"] ** 2
    rows, bad = [], []
    res = [33, 65] if S.tier == "quick" else [33, 65, 129]
    n_eval = 0
    for option in ("spline", "dct"):
        prev = None
        for n in res:
            nR, nZ = n, n + 8
            R, Z = np.linspace(Rlo, Rhi, nR), np.linspace(Zlo, Zhi, nZ)
            RR, ZZ = np.meshgrid(R, Z, indexing="ij")
            eq = bare_equilibrium(R, Z, A["psi"](RR, ZZ), option)
            got = dict(
                psi=eq.psi(pr, pz), BpR=eq.Bp_R(pr, pz), BpZ=eq.Bp_Z(pr, pz), fR=eq.f_R(pr, pz), fZ=eq.f_Z(pr, pz),
                dRR=eq.d2psidR2(pr, pz), dZZ=eq.d2psidZ2(pr, pz), dRZ=eq.d2psidRdZ(pr, pz),
            )  # fmt: skip
            want = dict(psi=exact["psi"], BpR=exact["dZ"] / pr, BpZ=-exact["dR"] / pr, fR=exact["dR"] / g2, fZ=exact["dZ"] / g2, dRR=exact["dRR"], dZZ=exact["dZZ"], dRZ=exact["dRZ"])
            ok = g2 > 0.05 * g2.max()  # f_R, f_Z blow up at the O-point of the test function
            err = {}
            for k in got:
                m = ok if k in ("fR", "fZ") else slice(None)
                err[k] = float(np.abs(np.asarray(got[k], dtype=float)[m] - want[k][m]).max() / np.abs(want[k][m]).max())
                n_eval += len(pr)
            cls = dict(psi=err["psi"], grad=max(err["BpR"], err["BpZ"], err["fR"], err["fZ"]), hess=max(err["dRR"], err["dZZ"], err["dRZ"]))
            tol = TOL[option][n]
            row = dict(method=option, nR=nR, nZ=nZ, rel_err=cls, tol=tol, per_quantity=err)
            rows.append(row)
            if any(cls[k] > tol[k] for k in cls):
                bad.append(row)
            if prev is not None and option == "spline" and not (cls["psi"] < prev["psi"] and cls["grad"] < prev["grad"]):
                bad.append(dict(row, problem="error does not decrease with resolution"))
            prev = cls
    # the two methods agree with each other within the sum of their error bounds (same points)
    S.bounded.append(dict(name="both interpolation methods vs an analytic psi (values, first and second derivatives)", evaluations=n_eval, distinct_nontrivial=len(rows), rule="smooth non-separable psi on a non-square grid with distinct extents; 300 random points in the inner 60% of the domain; relative max error of psi / (Bp_R,Bp_Z,f_R,f_Z) / (d2psidR2,d2psidZ2,d2psidRdZ) against exact derivatives below per-method per-resolution tolerances (>=5x above the values measured on the repaired tree; the DCT converges algebraically, its second derivatives are only required to have the right size), spline errors decrease with resolution; agreement of the two methods follows within the sum of the tolerances; distinct = (method, resolution)", bound="resolutions %s" % res, samples=[dict(method=r["method"], n=r["nR"], rel_err=r["rel_err"]) for r in rows], failures=bad, wall_s=round(time.time() - t0, 1)))  # fmt: skip
    for b in bad:
        S.static_vc("bounded:interpolation-vs-analytic[%s n=%d]" % (b["method"], b["nR"]), FN_MFG, "interpolated psi and its exposed derivatives agree with the analytic function within the interpolation error", False, detail=repr(b)[:1500], kind="bounded-grid", model=b)


def run(S):
    node_reproduction(S)
    method_agreement(S)
