"""C07  Curvature outputs are the contravariant components of curl(b/B).

Real code under contract: MeshRegion.calc_curvature (curvature_type "curl(b/B)",
orthogonal and non-orthogonal) together with the real Equilibrium helper chain
(Bzeta ... dB2dZ).  Specification (ghost): b/B = (B_R, B_Z, B_zeta)/B^2 with
B_R = psi_Z/R, B_Z = -psi_R/R, B_zeta = fpol(psi)/R; cylindrical curl by the
derivative operator over jets; grad x = grad psi; grad y = s(b - tan(beta) n)/hy --
the unique poloidal vector with grad y . e_x = 0, grad y . e_y = 1 for
e_x ~ n + tan(beta) b (calcBeta's definition) and e_y = s hy b (ghost lemmas);
grad z = grad zeta - (Bt hy/(Bp R)) grad y.
"""
import types

import z3

from vc.shim import numpy_shimmed
from vc.sym import And, Or, Sym, spec_mode
from vc.harness import model_value
from . import eqkit
from . import meshkit as mk
from .C18 import helper_chain_obligations

LEVEL = "proof"
FN = "hypnotoad.core.mesh:MeshRegion.calc_curvature"


def make_run(orth, locs, twins=True):
    from hypnotoad.core.mesh import MeshRegion

    MLA = mk.mla_cls()

    def run(ctx):
        jf = eqkit.JetField(ctx, locs)
        eq = eqkit.skeleton_equilibrium(jf)
        r = mk.skeleton_region(orth)
        r.meshParent = types.SimpleNamespace(equilibrium=eq)
        r.Rxy, r.Zxy = MLA(1, 1), MLA(1, 1)
        r.hy = mk.sym_mla(ctx, "hy", locs)
        r.Bpxy = mk.sym_mla(ctx, "Bp", locs)
        r.Bxy = mk.sym_mla(ctx, "B", locs)
        r.Btxy = MLA(1, 1)
        r.bpsign = ctx.real("bpsign")
        ctx.assume(Or(r.bpsign == 1, r.bpsign == -1))
        r.I = MLA(1, 1).zero()
        if not orth:
            r.tanBeta = mk.sym_mla(ctx, "tb", locs)
        for l in locs:
            p = jf.points[l]
            getattr(r.Rxy, l)[...] = p.R
            getattr(r.Zxy, l)[...] = p.Z
            ctx.assume(p.R > 0)
            getattr(r.Btxy, l)[...] = p.f / p.R  # geometry1: Btxy = fpol(psixy)/Rxy
            sp = eqkit.spec_fields(p)
            Bp = mk.at(r.Bpxy, l)
            # geometry1's post-conditions: Bpxy^2 = Br^2+Bz^2, sign(Bpxy) = bpsign; hy > 0 (calcHy)
            ctx.assume(And(p.R > 0, mk.at(r.hy, l) > 0, Bp * Bp == sp["BR"] * sp["BR"] + sp["BZ"] * sp["BZ"], r.bpsign * Bp > 0, mk.at(r.Bxy, l) > 0))
        MeshRegion.calc_curvature(r)
        with spec_mode():
            for l in locs:
                p = jf.points[l]
                D = jf.D
                sp = eqkit.spec_fields(p)
                BR, BZ, Bze, B2 = sp["BR"], sp["BZ"], sp["Bzeta"], sp["B2"]
                AR, AZ, Aze = BR / B2, BZ / B2, Bze / B2
                cR = -D(Aze, "Z")
                cZ = D(p.R * Aze, "R") / p.R
                cze = D(AR, "Z") - D(AZ, "R")
                hy, Bp, s = mk.at(r.hy, l), mk.at(r.Bpxy, l), r.bpsign
                t = mk.at(r.tanBeta, l) if not orth else 0
                absBp = s * Bp
                # ghost: unit vectors in (R,Z) components
                b = (BR / absBp, BZ / absBp)
                n = (-BZ / absBp, BR / absBp)
                ex = (n[0] + t * b[0], n[1] + t * b[1])  # direction of the radial grid displacement
                ey = (s * hy * b[0], s * hy * b[1])
                gy = (s * (b[0] - t * n[0]) / hy, s * (b[1] - t * n[1]) / hy)
                ctx.oblige(gy[0] * ex[0] + gy[1] * ex[1] == 0, "ghost:grad y.e_x=0@%s" % l, kind="lemma")
                ctx.oblige(gy[0] * ey[0] + gy[1] * ey[1] == 1, "ghost:grad y.e_y=1@%s" % l, kind="lemma")
                ctx.oblige((gy[0] * gy[0] + gy[1] * gy[1]) * hy * hy == 1 + t * t, "ghost:|grad y|=1/(hy cos beta)@%s" % l, kind="lemma")
                want_x = cR * p.pR + cZ * p.pZ
                want_y = cR * gy[0] + cZ * gy[1]
                Bt = p.f / p.R
                want_z = cze / p.R - Bt * hy / (Bp * p.R) * want_y
                G = lambda nm: mk.at(getattr(r, nm), l)
                ctx.oblige(G("curl_bOverB_x") == want_x, "curl_x=curl(b/B).grad x@%s" % l)
                ctx.oblige(G("curl_bOverB_y") == want_y, "curl_y=curl(b/B).grad y@%s" % l)
                ctx.oblige(G("curl_bOverB_z") == want_z, "curl_z=curl(b/B).grad z@%s" % l)
                Bx = mk.at(r.Bxy, l)
                for c in "xyz":
                    ctx.oblige(G("bxcv" + c) == Bx / 2 * G("curl_bOverB_" + c), "bxcv%s=B/2.curl_%s@%s" % (c, c, l))
                if twins:
                    ctx.oblige(G("curl_bOverB_x") == -want_x, "twin:curl_x sign@%s" % l, kind="must-fail")
                    ctx.oblige(G("curl_bOverB_z") == cze / p.R, "twin:curl_z without grad y term@%s" % l, kind="must-fail")
        return r

    return run


def run_xy_form(ctx):
    """curvature_type 'curl(b/B) with x-y derivatives' (orthogonal grids): the standard
    contravariant curl in the field-aligned coordinates, (curl A)^i = eps^ijk d_j A_k / J with
    J = hy/Bp (signed), A = b/B: A_x = 0 (orthogonal), A_y = Bp hy/B^2 ... expressed through the
    quantities the code differentiates; DDX / DDY are stubs returning symbolic derivative
    values (their stencils: C06)."""
    from hypnotoad.core.mesh import MeshRegion

    MLA = mk.mla_cls()
    r = mk.skeleton_region(True, curvature_type="curl(b/B) with x-y derivatives")
    locs = ("centre",)
    for n in ("Rxy", "Bpxy", "Btxy", "Bxy", "hy"):
        setattr(r, n, mk.sym_mla(ctx, n, locs))
    r.bpsign = ctx.real("bpsign")
    ctx.assume(Or(r.bpsign == 1, r.bpsign == -1))
    R, Bp, Bt, B, hy = (mk.at(getattr(r, n), "centre") for n in ("Rxy", "Bpxy", "Btxy", "Bxy", "hy"))
    ctx.assume(And(R > 0, hy > 0, r.bpsign * Bp > 0, B > 0, B * B == Bp * Bp + Bt * Bt))
    r.I = MLA(1, 1).zero()
    d = {}

    def stub(kind):
        def f(expr):
            v = ctx.real("%s(%s)" % (kind, expr))
            d[(kind, expr)] = v
            m = MLA(1, 1)
            m.centre[...] = v
            return m

        return f

    r.DDX, r.DDY = stub("DDX"), stub("DDY")
    MeshRegion.calc_curvature(r)
    G = lambda n: mk.at(getattr(r, n), "centre")
    with spec_mode():
        J = hy / Bp
        dyB = d[("DDY", "#Bxy")]
        # covariant components of b/B in (x,y,z): A_y = hy*Bp/B^2 * (hy/... ) -- only the
        # derivatives the code takes are needed:
        #   (curl A)^x = (1/J) d_y A_z ,  A_z = Bt R / B^2 ,  Bt R = fpol(psi) is constant along y
        want_x = (1 / J) * (-2 * Bt * R / (B * B * B)) * dyB
        #   (curl A)^y = -(1/J) d_x A_z
        want_y = -(1 / J) * d[("DDX", "#Btxy*#Rxy/#Bxy**2")]
        ctx.oblige(G("curl_bOverB_x") == want_x, "x-y form: curl^x = (1/J) d_y(Bt R/B^2), J = hy/Bp signed")
        ctx.oblige(G("curl_bOverB_y") == want_y, "x-y form: curl^y = -(1/J) d_x(Bt R/B^2)")
        for c in "xyz":
            ctx.oblige(G("bxcv" + c) == B / 2 * G("curl_bOverB_" + c), "x-y form: bxcv%s = B/2 curl^%s" % (c, c))
    return r


def run_helpers(ctx):
    jf = eqkit.JetField(ctx, ("",))
    p = jf.points[""]
    eq = eqkit.skeleton_equilibrium(jf)
    ctx.assume(p.R > 0)
    ctx.assume(eqkit.spec_fields(p)["B2"] > 0)
    helper_chain_obligations(ctx, eq, jf, p)


def run_refuses(ctx):
    """x-y derivative form refuses non-orthogonal grids; unknown types are refused."""
    from hypnotoad.core.mesh import MeshRegion

    out = []
    for orth, ct in ((False, "curl(b/B) with x-y derivatives"), (True, "bxkappa"), (True, "nonsense")):
        r = mk.skeleton_region(orth, curvature_type=ct)
        try:
            MeshRegion.calc_curvature(r)
            out.append(False)
        except ValueError:
            out.append(True)
    ctx.oblige(Sym(z3.BoolVal(all(out))), "unsupported curvature_type / mode combinations raise ValueError")


def replay(orth):
    def rep(vc, model):
        """Native: random smooth analytic psi, finite-difference curl of b/B vs calc_curvature."""
        import numpy as np
        from hypnotoad.core.mesh import MeshRegion
        from hypnotoad.core.equilibrium import Equilibrium

        s = model_value(model, "bpsign", 1.0) or 1.0
        tb = model_value(model, "tb_centre", 0.37) or 0.37
        eq = object.__new__(Equilibrium)
        a = s
        psi = lambda R, Z: a * (0.7 * (R - 1.4) ** 2 + 0.4 * (Z + 0.1) ** 2 + 0.2 * R * Z + 0.05 * R**3)
        pR = lambda R, Z: a * (1.4 * (R - 1.4) + 0.2 * Z + 0.15 * R**2)
        pZ = lambda R, Z: a * (0.8 * (Z + 0.1) + 0.2 * R)
        eq.psi = psi
        eq.Bp_R = lambda R, Z: pZ(R, Z) / R
        eq.Bp_Z = lambda R, Z: -pR(R, Z) / R
        eq.d2psidR2 = lambda R, Z: a * (1.4 + 0.3 * R) + 0 * Z
        eq.d2psidZ2 = lambda R, Z: a * 0.8 + 0 * R
        eq.d2psidRdZ = lambda R, Z: a * 0.2 + 0 * R
        eq.fpol = lambda p: 2.0 + 0.3 * p
        eq.fpolprime = lambda p: 0.3 + 0 * p
        R0, Z0 = 1.7, 0.25
        r = mk.skeleton_region(orth)
        r.meshParent = types.SimpleNamespace(equilibrium=eq)
        f = lambda v: mk.float_mla({"centre": v})
        r.Rxy, r.Zxy = f(R0), f(Z0)
        BR, BZ = eq.Bp_R(R0, Z0), eq.Bp_Z(R0, Z0)
        Bp = s * np.hypot(BR, BZ)
        Bt = eq.fpol(psi(R0, Z0)) / R0
        hy = 0.8
        r.hy, r.Bpxy, r.Btxy, r.Bxy = f(hy), f(Bp), f(Bt), f(np.hypot(Bp, Bt))
        r.bpsign = s
        r.I = f(0.0)
        if not orth:
            r.tanBeta = f(tb)
        MeshRegion.calc_curvature(r)
        h = 1e-5

        def A(R, Z):
            br, bz, bt = eq.Bp_R(R, Z), eq.Bp_Z(R, Z), eq.fpol(psi(R, Z)) / R
            b2 = br * br + bz * bz + bt * bt
            return br / b2, bz / b2, bt / b2

        dR = [(x - y) / (2 * h) for x, y in zip(A(R0 + h, Z0), A(R0 - h, Z0))]
        dZ = [(x - y) / (2 * h) for x, y in zip(A(R0, Z0 + h), A(R0, Z0 - h))]
        cR, cZ, cze = -dZ[2], A(R0, Z0)[2] / R0 + dR[2], dZ[0] - dR[1]
        t = tb if not orth else 0.0
        absBp = abs(Bp)
        b = (BR / absBp, BZ / absBp)
        n = (-BZ / absBp, BR / absBp)
        gy = (s * (b[0] - t * n[0]) / hy, s * (b[1] - t * n[1]) / hy)
        want = dict(x=cR * pR(R0, Z0) + cZ * pZ(R0, Z0), y=cR * gy[0] + cZ * gy[1])
        want["z"] = cze / R0 - Bt * hy / (Bp * R0) * want["y"]
        got = {c: float(getattr(r, "curl_bOverB_" + c).centre[0, 0]) for c in "xyz"}
        bad = {c: dict(code=got[c], spec=want[c]) for c in "xyz" if abs(got[c] - want[c]) > 1e-6 * max(1.0, abs(want[c]))}
        return dict(inputs=dict(R=R0, Z=Z0, bpsign=s, tanBeta=t, hy=hy), native_mismatches=bad, reproduced=bool(bad))

    return rep


def build(S):
    S.under_contract(FN)
    S.under_contract(*eqkit.FN_HELPERS)
    S.assume("A-PURE: psi, fpol smooth; jets up to third order are independent symbols")
    S.assume("A-ELEMENTWISE: one symbolic point per location (4 locations orthogonal, centre+ylow non-orthogonal)")
    S.assume("preconditions taken from proved post-conditions: geometry1 (Btxy=fpol(psi)/R, Bpxy^2=Br^2+Bz^2, sign(Bpxy)=bpsign: C03), calcHy (hy>0: C05), I=0 (shiftedmetric)")
    S.trust("interpolant members (psi, Bp_R, Bp_Z, d2psi*) of the skeleton Equilibrium are jet stubs carrying the contracts proved in C18")
    S.assume("agreement of the x-y derivative formulation with the R-Z formulation to discretisation error is a bounded check only")
    with numpy_shimmed():
        S.contract("helpers", "hypnotoad.core.equilibrium:Equilibrium.dB2dR", run_helpers, shape="one point")
        S.contract("calc_curvature[orthogonal]", FN, make_run(True, mk.LOCS4), replay=replay(True), shape="1x1 per location, 4 locations")
        S.contract("calc_curvature[nonorthogonal]", FN, make_run(False, ("centre", "ylow")), replay=replay(False), shape="1x1 per location, centre+ylow")
        S.contract("calc_curvature[refusals]", FN, run_refuses, shape="-")
        S.contract("calc_curvature[x-y form]", FN, run_xy_form, shape="one point, DDX/DDY stubbed")
        from . import C06, C18_dct

        C18_dct.add(S)  # the DCT interpolant's second derivatives feed the curvature
        C06.add_ddy(S)  # DDY / DDX (C06) are what the x-y form differentiates with
        from . import C03_circular

        C03_circular.add(S)  # analytic family: the second derivatives of psi that feed dB/dR, dB/dZ are D D of ITS psi, sheared q included


def post(S):
    """Bounded: the two formulations agree on orthogonal grids to discretisation error."""
    import time

    import numpy as np

    from bounded import gridbank as gb

    t0 = time.time()
    P = dict(fpol="profile", pressure=True)
    o = dict(orthogonal=True, nx_core=10, nx_sol=10, ny_inner_divertor=8, ny_outer_divertor=8, ny_sol=24)
    signs = (1.0, -1.0)
    cfgs = []
    for ps in signs:
        cfgs += [gb.cfg("lsn", o, psi_sign=ps, label="lsn-fine(psi%+d)" % ps, **P), gb.cfg("lsn", dict(o, curvature_type="curl(b/B) with x-y derivatives"), psi_sign=ps, label="lsn-fine-xy(psi%+d)" % ps, **P)]
    res = gb.generate_many(cfgs)
    rows, bad = [], []
    for k in range(0, len(cfgs), 2):
        a, b = res[k], res[k + 1]
        if not (a["ok"] and b["ok"]):
            S.undecided.append("curvature comparison grid does not generate: %s" % (a.get("error") or b.get("error"))[:120])
            continue
        A, B = a["data"]["file"], b["data"]["file"]
        for nm, lo, hi in (("curl_bOverB_x", 0.85, 1.3), ("curl_bOverB_y", 0.97, 1.03), ("curl_bOverB_z", 0.9, 1.1), ("bxcvx", 0.85, 1.3), ("bxcvy", 0.97, 1.03), ("bxcvz", 0.9, 1.1)):
            x, y = np.array(A[nm])[3:-3, 6:-6], np.array(B[nm])[3:-3, 6:-6]
            ok = np.abs(x) > 1e-3 * np.abs(x).max()
            ratio = y[ok] / x[ok]
            med = float(np.median(ratio))
            frac_same_sign = float((ratio > 0).mean())
            rows.append(dict(pair=cfgs[k]["label"], component=nm, median_ratio=med, same_sign_fraction=frac_same_sign, cells=int(ok.sum())))
            if not (lo <= med <= hi) or frac_same_sign < 0.95:
                bad.append(rows[-1])
    S.bounded.append(dict(name="curvature formulations agree on orthogonal grids", evaluations=sum(r["cells"] for r in rows), distinct_nontrivial=max(2, len(rows)), rule="orthogonal LSN (nx 10+10, ny 8+24+8) generated with both curvature_type values; interior cells; median ratio x-y/R-Z within the discretisation band and >=95% equal signs; distinct = (grid pair, component)", bound="%d grids" % len(cfgs), samples=rows[:6], failures=bad, wall_s=round(time.time() - t0, 1)))  # fmt: skip
    for b in bad:
        S.static_vc("bounded:curvature-formulations[%s]" % b["pair"], FN, "x-y derivative form agrees with the R-Z form: %s" % b["component"], False, detail=repr(b), kind="bounded-grid", model=b)
