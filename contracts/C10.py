"""C10  Poloidal spacing: end-point exact, monotone, resolution-consistent.

Deductive part (real code; source recompiled with exact decimal literals because CPython
folds 1.0/3.0 before a symbolic value sees it): getLinearPoloidalDistanceFunc,
getMonotonicPoloidalDistanceFunc (convex branch: end values, end gradients in normalised
index, positivity of the gradient, value/gradient continuity into the extrapolations,
resolution consistency), getSqrtPoloidalDistanceFunc (end values of its closed-form
branches), _checkMonotonic (raises iff some consecutive pair decreases, over exactly the
indices [-extend_lower, 2 ny + extend_upper]).
Bounded: numerical lattice over all branches (incl. the brentq-based concave branch and
combined functions), and grid-level checks.
"""
import types
from contracts.meshkit import Opts as _Opts  # noqa: E402

import numpy
import z3

from vc import transform
from vc.jets import Jets
from vc.shim import numpy_shimmed, patched
from vc.sym import And, Or, Not, Implies, Sym, ite, spec_mode

LEVEL = "proof"
E_ = "hypnotoad.core.equilibrium:EquilibriumRegion."
FN_MONO = E_ + "getMonotonicPoloidalDistanceFunc"
FN_SQRT = E_ + "getSqrtPoloidalDistanceFunc"
FN_LIN = E_ + "getLinearPoloidalDistanceFunc"
FN_CHK = E_ + "_checkMonotonic"
TRUE = lambda b: Sym(z3.BoolVal(bool(b)))


class Concave(Exception):
    pass


def region():
    from hypnotoad.core import equilibrium as E

    r = object.__new__(E.EquilibriumRegion)
    r.user_options = _Opts(sfunc_checktol=1.0e-13)
    return r


def run_linear(ctx):
    from hypnotoad.core import equilibrium as E

    L, N, i = ctx.real("L"), ctx.real("N"), ctx.real("i")
    ctx.assume(And(L > 0, N >= 1))
    f = E.EquilibriumRegion.getLinearPoloidalDistanceFunc(region(), L, N)
    f2 = E.EquilibriumRegion.getLinearPoloidalDistanceFunc(region(), L, 2 * N)
    with spec_mode():
        ctx.oblige(f(0.0 * N) == 0, "s(0)=0")
        ctx.oblige(f(N) == L, "s(N)=L")
        ctx.oblige(f(i + 1) > f(i), "strictly increasing")
        ctx.oblige(f2(2 * i) == f(i), "doubling N keeps every original point")


def run_mono_convex(S):
    def run(ctx):
        from hypnotoad.core import equilibrium as E

        fn = transform.recompile(E.EquilibriumRegion.getMonotonicPoloidalDistanceFunc, report=S.extraction)
        L, N, Nn = ctx.real("L"), ctx.real("N"), ctx.real("N_norm")
        dl, du = ctx.real("d_lower"), ctx.real("d_upper")
        ctx.assume(And(L > 0, N >= 1, Nn >= 1, dl > 0, du > 0))

        def no_brentq(*a, **k):
            raise Concave()

        with patched((E, "brentq", no_brentq)):
            try:
                f = fn(region(), L, N, Nn, d_lower=dl, d_upper=du)
                f2 = fn(region(), L, 2 * N, 2 * Nn, d_lower=dl, d_upper=du)
            except Concave:
                ctx.notes.append("concave branch: bounded only")
                return None
        i = ctx.real("i")
        jets = Jets(ctx, {i: {"i": 1}}, const=lambda nm: True)
        u = lambda x: x[()] if isinstance(x, numpy.ndarray) else x
        # interior piece: 0 <= i <= N
        ctx.assume(And(i >= 0, i <= N))
        s_i = u(f(i))
        with spec_mode():
            ctx.oblige(u(f(0.0 * N)) == 0, "s(0)=0")
            ctx.oblige(u(f(N)) == L, "s(N)=L")
            ds = jets.D(s_i, "i")
            ctx.oblige(jets.at(ds, i, 0) * Nn == dl, "ds/d(i/N_norm) at 0 = d_lower")
            ctx.oblige(jets.at(ds, i, N) * Nn == du, "ds/d(i/N_norm) at N = d_upper")
            ctx.oblige(ds > 0, "ds/di > 0 on [0,N] (convex branch is strictly increasing)")
            ctx.oblige(u(f2(2 * i)) == s_i, "s_{2N,2N_norm}(2i) = s_{N,N_norm}(i)")
        return f

    return run


def run_mono_extrap(S, side):
    """The linear extrapolations for i<0 / i>N continue value and gradient."""

    def run(ctx):
        from hypnotoad.core import equilibrium as E

        fn = transform.recompile(E.EquilibriumRegion.getMonotonicPoloidalDistanceFunc, report=None)
        L, N, Nn = ctx.real("L"), ctx.real("N"), ctx.real("N_norm")
        dl, du = ctx.real("d_lower"), ctx.real("d_upper")
        ctx.assume(And(L > 0, N >= 1, Nn >= 1, dl > 0, du > 0))

        def no_brentq(*a, **k):
            raise Concave()

        with patched((E, "brentq", no_brentq)):
            try:
                f = fn(region(), L, N, Nn, d_lower=dl, d_upper=du)
            except Concave:
                return None
        i = ctx.real("i")
        u = lambda x: x[()] if isinstance(x, numpy.ndarray) else x
        ctx.assume(i < 0 if side == "lower" else i > N)
        with spec_mode():
            if side == "lower":
                ctx.oblige(u(f(i)) * Nn == dl * i, "i<0: s = d_lower*i/N_norm (value 0 and gradient d_lower at 0)")
            else:
                ctx.oblige((u(f(i)) - L) * Nn == du * (i - N), "i>N: s = L + d_upper*(i-N)/N_norm")

    return run


def run_sqrt_ends(which):
    def run(ctx):
        from hypnotoad.core import equilibrium as E

        fn = transform.recompile(E.EquilibriumRegion.getSqrtPoloidalDistanceFunc, report=None)
        L, N, Nn = ctx.real("L"), ctx.real("N"), ctx.real("N_norm")
        ctx.assume(And(L > 0, N >= 1, Nn >= 1))
        kw = {}
        for k in which:
            kw[k] = ctx.real(k)
            ctx.assume(kw[k] > 0)
        f = fn(region(), L, N, Nn, **kw)
        u = lambda x: x[()] if isinstance(x, numpy.ndarray) else x
        with spec_mode():
            ctx.oblige(u(f(0.0 * N)) == 0, "s(0)=0")
            ctx.oblige(u(f(N)) == L, "s(N)=L")
        return f

    return run


SQRT_CASES = {
    # name: (lower kwargs, upper kwargs) -- a_* absent means a wall end (no sqrt term there)
    "wall.wall": (("b_lower",), ("b_upper",)),
    "X.wall": (("b_lower", "a_lower"), ("b_upper",)),
    "wall.X": (("b_lower",), ("b_upper", "a_upper")),
    "X.X": (("b_lower", "a_lower"), ("b_upper", "a_upper")),
    "-.wall": ((), ("b_upper",)),
    "wall.-": (("b_lower",), ()),
}


def _sqrt_setup(ctx, case, fn):
    L, N, Nn = ctx.real("L"), ctx.real("N"), ctx.real("N_norm")
    ctx.assume(And(L > 0, N >= 1, Nn >= 1))
    kw = {}
    for k in SQRT_CASES[case][0] + SQRT_CASES[case][1]:
        kw[k] = ctx.real(k)
        ctx.assume(kw[k] > 0)
    return L, N, Nn, kw, fn(region(), L, N, Nn, **kw)


def run_sqrt_extrap(case, side):
    """The exponential continuation beyond a wall end matches value, gradient and curvature
    of the interior formula (what the function documents; gradient continuity is what makes
    guard cells continue the requested end spacing)."""

    def run(ctx):
        from hypnotoad.core import equilibrium as E

        fn = transform.recompile(E.EquilibriumRegion.getSqrtPoloidalDistanceFunc, report=None)
        L, N, Nn, kw, f = _sqrt_setup(ctx, case, fn)
        u = lambda x: x[()] if isinstance(x, numpy.ndarray) else x
        i_in, i_out = ctx.real("i_in"), ctx.real("i_out")
        ctx.assume(And(i_in > 0, i_in < N, (i_out < 0) if side == "lower" else (i_out > N)))
        s_in, s_out = u(f(i_in)), u(f(i_out))
        jets = Jets(ctx, {i_in: {"i": 1}, i_out: {"i": 1}}, const=lambda nm: True)
        edge = 0.0 * N if side == "lower" else N
        with spec_mode():
            a0, b0 = jets.at(s_in, i_in, edge), jets.at(s_out, i_out, edge)
            ctx.oblige(a0 == b0, "value continuous at the %s wall" % side)
            d_in, d_out = jets.D(s_in, "i"), jets.D(s_out, "i")
            ctx.oblige(jets.at(d_in, i_in, edge) == jets.at(d_out, i_out, edge), "gradient continuous at the %s wall" % side)
            ctx.oblige(jets.at(jets.D(d_in, "i"), i_in, edge) == jets.at(jets.D(d_out, "i"), i_out, edge), "curvature continuous at the %s wall" % side)
            ctx.oblige(d_out > 0, "strictly increasing beyond the %s wall" % side)
        return f

    return run


def run_sqrt_mirror(case, zone):
    """s_mirror(N - i) = L - s(i): exchanging the lower and upper parameters gives the
    reflected spacing, inside the region and beyond either wall (C16)."""
    mirror = {"wall.wall": "wall.wall", "X.X": "X.X", "X.wall": "wall.X", "wall.X": "X.wall", "-.wall": "wall.-", "wall.-": "-.wall"}

    def run(ctx):
        from hypnotoad.core import equilibrium as E

        fn = transform.recompile(E.EquilibriumRegion.getSqrtPoloidalDistanceFunc, report=None)
        L, N, Nn, kw, f = _sqrt_setup(ctx, case, fn)
        kw2 = {k.replace("lower", "UP").replace("upper", "lower").replace("UP", "upper"): v for k, v in kw.items()}
        f2 = fn(region(), L, N, Nn, **kw2)
        u = lambda x: x[()] if isinstance(x, numpy.ndarray) else x
        i = ctx.real("i")
        ctx.assume({"inside": And(i > 0, i < N), "below": i < 0, "above": i > N}[zone])
        a, b = u(f(i)), u(f2(N - i))
        with spec_mode():
            ctx.oblige(a + b == L, "s(i) + s_mirrored(N-i) = L (%s)" % zone)

    return run


def run_sqrt_gradients(case):
    """Requested end gradients in units of the normalised index: at a wall end
    ds/diN = b exactly; at an X-point end ds/diN = a/sqrt(distance in iN) + b + o(1), i.e. the
    function minus its 2a*sqrt(.) term is differentiable at the end with gradient b."""

    def run(ctx):
        from hypnotoad.core import equilibrium as E

        fn = transform.recompile(E.EquilibriumRegion.getSqrtPoloidalDistanceFunc, report=None)
        L, N, Nn, kw, f = _sqrt_setup(ctx, case, fn)
        u = lambda x: x[()] if isinstance(x, numpy.ndarray) else x
        i = ctx.real("i")
        ctx.assume(And(i > 0, i < N))
        s_i = u(f(i))
        jets = Jets(ctx, {i: {"i": 1}}, const=lambda nm: True)
        with spec_mode():
            if "b_lower" in kw:
                reg = s_i - 2 * kw.get("a_lower", 0.0) * (i / Nn).sqrt()
                ctx.oblige(jets.at(jets.D(reg, "i"), i, 0.0 * N) * Nn == kw["b_lower"], "lower end: d/diN of the non-singular part = b_lower")
            if "b_upper" in kw:
                reg = s_i + 2 * kw.get("a_upper", 0.0) * ((N - i) / Nn).sqrt()
                ctx.oblige(jets.at(jets.D(reg, "i"), i, N) * Nn == kw["b_upper"], "upper end: d/diN of the non-singular part = b_upper")
                ctx.oblige(jets.at(jets.D(reg, "i"), i, N) * Nn == 2 * kw["b_upper"], "twin: factor 2", kind="must-fail")
        return f

    return run


def run_mono_mirror(zone):
    def run(ctx):
        from hypnotoad.core import equilibrium as E

        fn = transform.recompile(E.EquilibriumRegion.getMonotonicPoloidalDistanceFunc, report=None)
        L, N, Nn = ctx.real("L"), ctx.real("N"), ctx.real("N_norm")
        dl, du = ctx.real("d_lower"), ctx.real("d_upper")
        ctx.assume(And(L > 0, N >= 1, Nn >= 1, dl > 0, du > 0))

        def no_brentq(*a, **k):
            raise Concave()

        with patched((E, "brentq", no_brentq)):
            try:
                f = fn(region(), L, N, Nn, d_lower=dl, d_upper=du)
                f2 = fn(region(), L, N, Nn, d_lower=du, d_upper=dl)
            except Concave:
                ctx.notes.append("concave branch: bounded only")
                return None
        i = ctx.real("i")
        u = lambda x: x[()] if isinstance(x, numpy.ndarray) else x
        ctx.assume({"inside": And(i >= 0, i <= N), "below": i < 0, "above": i > N}[zone])
        with spec_mode():
            ctx.oblige(u(f(i)) + u(f2(N - i)) == L, "monotonic spacing: s(i) + s_mirrored(N-i) = L (%s)" % zone)

    return run


class UFunc:
    """An uninterpreted spacing function (contract stub): one fresh value per argument."""

    def __init__(self, ctx, name):
        self.ctx, self.name, self.vals = ctx, name, {}

    def at(self, x):
        from vc.sym import lift

        x = lift(x)
        k = x.t.get_id()
        if k not in self.vals:
            self.vals[k] = (self.ctx.real("%s!%d" % (self.name, len(self.vals))), x)
        return self.vals[k][0]

    def __call__(self, i):
        if isinstance(i, numpy.ndarray):
            out = numpy.empty(i.shape, dtype=object)
            for idx in numpy.ndindex(*i.shape):
                out[idx] = self.at(i[idx])
            return out
        return self.at(i)


def make_combine_run(ranges, orth, vecs):
    """combineSfuncs: result is an affine combination (weights summing to one) of the fixed
    lower / fixed upper / orthogonal spacing functions, hence end-point exact; beyond the ends
    it is the fixed function of that end; it is handed to _checkMonotonic."""

    def run(ctx):
        from hypnotoad.core import equilibrium as E

        r = object.__new__(E.EquilibriumRegion)
        ny, L = ctx.real("ny_noguards"), ctx.real("L")
        pre, nyt = ctx.real("N_norm_prefactor"), ctx.real("ny_total")
        ctx.assume(And(ny >= 1, L > 0, pre > 0, nyt >= ny))
        r.ny_noguards, r.ny_total, r.psi, r.name = ny, nyt, None, "r"
        r.user_options = _Opts(N_norm_prefactor=pre, sfunc_checktol=1.0e-13)
        r.nonorthogonal_options = types.SimpleNamespace(nonorthogonal_radial_range_power=1.0)
        sp = {}
        for side in ("lower", "upper"):
            for suf in ("", "_inner", "_outer"):
                k = "nonorthogonal_range_%s%s" % (side, suf)
                if side in ranges:
                    sp[k] = ctx.real(k)
                    ctx.assume(sp[k] > 0)
                else:
                    sp[k] = None
        r.getSpacings = lambda: dict(sp)
        r.nxOutsideSeparatrix = lambda: 4
        r.nxInsideSeparatrix = lambda: 4
        sfl, sfu, sperp_l, sperp_u = (UFunc(ctx, n) for n in ("sfixed_lower", "sfixed_upper", "sperp_lower", "sperp_upper"))
        sorth = UFunc(ctx, "sorth") if orth else None
        made = []

        def fixed(npoints, dist, **kw):
            made.append(("poloidal", npoints, dist, kw))
            return sfl if len([m for m in made if m[0] == "poloidal"]) == 1 and vecs[0] is None else sfu

        def perp(npoints, contour, vec, lower, **kw):
            made.append(("perp", npoints, vec, lower, kw))
            return (sfl, sperp_l) if lower else (sfu, sperp_u)

        r.getSfuncFixedSpacing, r.getSfuncFixedPerpSpacing = fixed, perp
        checks = []
        r._checkMonotonic = lambda lst, **kw: checks.append((lst, kw))
        contour = types.SimpleNamespace(global_xind=1, totalDistance=lambda psi=None: L)
        new = E.EquilibriumRegion.combineSfuncs(r, contour, sorth, vecs[0], vecs[1])
        one = lambda x: numpy.array([x], dtype=object)
        ilen = 2 * ny
        # contracts of the callees: end-point exact
        for fn_ in (sfl, sfu) + ((sorth,) if orth else ()):
            ctx.assume(And(fn_.at(0.0 * L) == 0, fn_.at(ilen) == L))
        v0, vN = new(one(0.0 * L))[0], new(one(ilen))[0]
        ineg, ipos, imid = ctx.real("i_below"), ctx.real("i_above"), ctx.real("i_inside")
        ctx.assume(And(ineg < 0, ipos > ilen, imid > 0, imid < ilen))
        vneg, vpos, vmid = new(one(ineg))[0], new(one(ipos))[0], new(one(imid))[0]
        with spec_mode():
            ctx.oblige(TRUE(len(made) == 2), "one fixed-spacing function per end")
            ctx.oblige(And(*[m[1] == 2 * ny + 1 for m in made]), "fixed-spacing functions are built for the 2*ny+1 points of the contour")
            ctx.oblige(TRUE([m[0] for m in made] == ["poloidal" if v is None else "perp" for v in vecs]), "poloidal spacing at an end without a surface vector, perpendicular spacing otherwise (lower first)")
            ctx.oblige(TRUE(len(checks) == 1 and checks[0][0][0][0] is new and same(checks[0][1]["total_distance"], L)), "the combined function is passed to _checkMonotonic over the contour length")
            ctx.oblige(v0 == 0, "combined s(0) = 0")
            ctx.oblige(vN == L, "combined s(2 ny) = L")
            if "lower" in ranges:
                ctx.oblige(vneg == sfl.at(ineg), "below index 0 the combined function is the fixed lower one")
            if "upper" in ranges:
                ctx.oblige(vpos == sfu.at(ipos), "beyond the last index the combined function is the fixed upper one")
            # inside: an affine combination -- if all component functions agree the result is that value
            comps = [sfl.at(imid)] * ("lower" in ranges) + [sfu.at(imid)] * ("upper" in ranges) + ([sorth.at(imid)] if orth else [])
            ctx.oblige(Implies(And(*[c == comps[0] for c in comps[1:]]) if len(comps) > 1 else TRUE(True), vmid == comps[0]), "inside: weights sum to one (equal components give that value)")
        return new

    return run


def make_combine_range_run(side, ix):
    """combineSfuncs, one-sided transition with an orthogonal function given: the weight of the
    fixed function is exp(-((distance in normalised index from that end)/range)^2), and `range`
    varies radially from the separatrix value towards the `_inner` value for contours inside
    the separatrix (global_xind < 0) and towards the `_outer` value outside -- at BOTH ends
    alike (C16: start and end of a region are exchanged by a reflection)."""

    def run(ctx):
        from hypnotoad.core import equilibrium as E

        r = object.__new__(E.EquilibriumRegion)
        ny, L = ctx.real("ny_noguards"), ctx.real("L")
        pre, nyt = ctx.real("N_norm_prefactor"), ctx.real("ny_total")
        ctx.assume(And(ny >= 1, L > 0, pre > 0, nyt >= ny))
        r.ny_noguards, r.ny_total, r.psi, r.name = ny, nyt, None, "r"
        r.user_options = _Opts(N_norm_prefactor=pre, sfunc_checktol=1.0e-13)
        r.nonorthogonal_options = types.SimpleNamespace(nonorthogonal_radial_range_power=1.0)
        sp = {}
        for sd in ("lower", "upper"):
            for suf in ("", "_inner", "_outer"):
                k = "nonorthogonal_range_%s%s" % (sd, suf)
                if sd == side:
                    sp[k] = ctx.real(k)
                    ctx.assume(sp[k] > 0)
                else:
                    sp[k] = None
        r.getSpacings = lambda: dict(sp)
        r.nxOutsideSeparatrix = lambda: 4
        r.nxInsideSeparatrix = lambda: 4
        fixed, sorth = UFunc(ctx, "sfixed"), UFunc(ctx, "sorth")
        r.getSfuncFixedSpacing = lambda *a, **k: fixed
        r.getSfuncFixedPerpSpacing = lambda *a, **k: (fixed, None)
        r._checkMonotonic = lambda lst, **kw: None
        contour = types.SimpleNamespace(global_xind=ix, totalDistance=lambda psi=None: L)
        new = E.EquilibriumRegion.combineSfuncs(r, contour, sorth, None, None)
        imid = ctx.real("i_inside")
        ilen = 2 * ny
        ctx.assume(And(imid > 0, imid < ilen))
        v = new(numpy.array([imid], dtype=object))[0]
        with spec_mode():
            xw = (abs(ix) / 3.0) if ix != 0 else 0.0
            far = sp["nonorthogonal_range_%s_%s" % (side, "inner" if ix < 0 else "outer")]
            rng = (1.0 - xw) * sp["nonorthogonal_range_%s" % side] + xw * far
            dist = imid if side == "lower" else ilen - imid
            w = (-((dist / (pre * nyt) / rng) ** 2)).exp()
            a, c = fixed.at(imid), sorth.at(imid)
            ctx.oblige(v - c == w * (a - c), "weight of the fixed %s function = exp(-((distance from the %s end in normalised index)/range)^2) with range interpolated towards the %s value" % (side, side, "inner" if ix < 0 else "outer"))
        return new

    return run


def sqrt_raise_ok(path):
    return isinstance(path.exc, ValueError)


def check_monotonic_cases(S):
    """_checkMonotonic on the real method: raises iff a consecutive pair decreases, over
    exactly the index range [-extend_lower, 2 ny + extend_upper]."""
    from hypnotoad.core import equilibrium as E
    from . import meshkit

    meshkit.silence_pyplot()
    bad = []
    n = 0
    for ny, el, eu in ((1, 0, 0), (2, 1, 0), (3, 0, 2), (2, 2, 2)):
        r = region()
        r.ny_noguards, r._extend_lower, r._extend_upper = ny, el, eu
        r.name = "x"
        r.points = [0, 1]
        idx = list(range(-el, 2 * ny + eu + 1))
        seen = []

        def base(i, seen=seen):
            seen.append(numpy.array(i).copy())
            return numpy.array(i, dtype=float)

        with patched((E, "print", lambda *a, **k: None)):
            try:
                E.EquilibriumRegion._checkMonotonic(r, [(base, "b")])
                ok = True
            except ValueError:
                ok = False
        n += 1
        if not ok or [float(x) for x in seen[0]] != [float(x) for x in idx]:
            bad.append(dict(ny=ny, extend_lower=el, extend_upper=eu, problem="increasing function refused or wrong index range", indices=[float(x) for x in (seen[0] if seen else [])]))
        for k in range(len(idx) - 1):
            # a single decreasing pair at position k
            def dip(i, k=k, idx=idx):
                v = numpy.array(i, dtype=float).copy()
                v[numpy.array(i) > idx[k]] -= 1.5
                return v

            with patched((E, "print", lambda *a, **k: None)):
                try:
                    E.EquilibriumRegion._checkMonotonic(r, [(dip, "d")])
                    raised = False
                except ValueError:
                    raised = True
            n += 1
            if not raised:
                bad.append(dict(ny=ny, extend_lower=el, extend_upper=eu, problem="decreasing pair at %d not refused" % k))

        # a flat (non-decreasing) function is accepted here; strictness is enforced by get_distance (C05)
    S.static_vc("_checkMonotonic", FN_CHK, "raises iff some consecutive pair decreases; checks exactly indices -extend_lower..2ny+extend_upper (%d cases)" % n, not bad, detail=repr(bad[:2]), kind="native-all-classes", model=bad[0] if bad else None)


class Tok:
    """The function object a recorder stub hands back; calling it yields a tagged value."""

    def __init__(self, name, k):
        self.name, self.k = name, k

    def __call__(self, i):
        return ("value of", self, i)


SPACING_KEYS = ("sqrt_a_lower", "sqrt_b_lower", "sqrt_a_upper", "sqrt_b_upper", "monotonic_d_lower", "monotonic_d_upper", "nonorthogonal_orthogonal_d_lower", "nonorthogonal_orthogonal_d_upper")


def wiring_region(ctx, start_wall, end_wall):
    """EquilibriumRegion skeleton whose helper functions are recorder stubs (their own
    contracts are the other C10 obligations); every number it holds is symbolic."""
    from hypnotoad.core import equilibrium as E

    r = object.__new__(E.EquilibriumRegion)
    r.calls = []
    pre, ny_total = ctx.real("N_norm_prefactor"), ctx.real("ny_total")
    ctx.assume(And(pre > 0, ny_total >= 1))
    r.user_options = _Opts(N_norm_prefactor=pre, orthogonal=True, poloidal_spacing_method="sqrt", poloidalfunction_diagnose=False, sfunc_checktol=1.0e-13)
    r.ny_total = ny_total
    r.spacings = {k: ctx.real("sp_" + k) for k in SPACING_KEYS}
    r.getSpacings = lambda: dict(r.spacings)
    r.sin_angle_at_start, r.sin_angle_at_end = ctx.real("sin_start"), ctx.real("sin_end")
    r.wallSurfaceAtStart = (lambda p: [0.0, 1.0]) if start_wall else None
    r.wallSurfaceAtEnd = (lambda p: [0.0, 1.0]) if end_wall else None
    r.psi = None
    r.name = "r"

    def rec(name):
        def f(*a, **k):
            tok = Tok(name, len(r.calls))
            r.calls.append((name, a, k, tok))
            return tok

        return f

    for nm in ("getSqrtPoloidalDistanceFunc", "getMonotonicPoloidalDistanceFunc", "getLinearPoloidalDistanceFunc", "_checkMonotonic"):
        setattr(r, nm, rec(nm))
    return r, pre * ny_total


def same(a, b):
    from vc.sym import lift

    return lift(a).t.eq(lift(b).t) if isinstance(a, Sym) or isinstance(b, Sym) else a == b


def make_fixed_spacing_run(method, explicit):
    def run(ctx):
        from hypnotoad.core import equilibrium as E

        r, N_norm = wiring_region(ctx, True, True)
        npoints, dist = ctx.real("npoints"), ctx.real("distance")
        kw = dict(spacing_lower=ctx.real("given_lower"), spacing_upper=ctx.real("given_upper")) if explicit else {}
        out = E.EquilibriumRegion.getSfuncFixedSpacing(r, npoints, dist, method=method, **kw)
        helper = {"sqrt": "getSqrtPoloidalDistanceFunc", "monotonic": "getMonotonicPoloidalDistanceFunc", "linear": "getLinearPoloidalDistanceFunc"}[method]
        with spec_mode():
            ctx.oblige(TRUE(len(r.calls) == 2 and r.calls[0][0] == helper and r.calls[1][0] == "_checkMonotonic"), "one spacing function of the requested method is built, then checked")
            name, a, k, tok = r.calls[0]
            ctx.oblige(TRUE(out is tok), "the function returned is the one that was built and checked")
            ctx.oblige(TRUE(same(a[0], dist)), "total length = the contour length passed in")
            ctx.oblige(a[1] == npoints - 1, "last index = npoints-1")
            if method != "linear":
                ctx.oblige(a[2] == N_norm, "normalisation count N_norm = N_norm_prefactor*ny_total")
                ctx.oblige(a[2] == r.ny_total, "twin: prefactor dropped", kind="must-fail")
            if method == "monotonic":
                want = (kw["spacing_lower"], kw["spacing_upper"]) if explicit else (r.spacings["monotonic_d_lower"], r.spacings["monotonic_d_upper"])
                ctx.oblige(TRUE(same(k["d_lower"], want[0]) and same(k["d_upper"], want[1])), "end gradients: the explicitly given ones, else the region's monotonic_d_lower/upper (lower to lower, upper to upper)")
            if method == "sqrt":
                ctx.oblige(TRUE(all(same(k[x], r.spacings["sqrt_" + x]) for x in ("a_lower", "b_lower", "a_upper", "b_upper"))), "sqrt coefficients a/b lower/upper passed to the matching parameters")
            cname, ca, ck, _ = r.calls[1]
            ctx.oblige(TRUE(ca[0][0][0] is tok and same(ck["total_distance"], dist)), "_checkMonotonic is applied to that function over the full contour length")

    return run


def make_perp_spacing_run(start_wall, end_wall, explicit):
    def run(ctx):
        from hypnotoad.core import equilibrium as E

        r, N_norm = wiring_region(ctx, start_wall, end_wall)
        N = ctx.real("N")
        sperp_total = ctx.real("s_perp_total")
        s_of_sperp = lambda x: ("s_of_sperp", x)
        seen = []

        class Contour:
            def interpSSperp(self, vec, psi=None):
                seen.append(vec)
                return s_of_sperp, sperp_total

        vec = object()
        kw = dict(spacing_lower=ctx.real("given_lower"), spacing_upper=ctx.real("given_upper")) if explicit else {}
        sfunc, sperp_func = E.EquilibriumRegion.getSfuncFixedPerpSpacing(r, N, Contour(), vec, True, **kw)
        with spec_mode():
            ctx.oblige(TRUE(seen == [vec] and len(r.calls) == 1 and r.calls[0][0] == "getMonotonicPoloidalDistanceFunc"), "one monotonic function of the perpendicular distance along the given surface direction")
            name, a, k, tok = r.calls[0]
            lo = kw["spacing_lower"] if explicit else r.spacings["monotonic_d_lower"]
            up = kw["spacing_upper"] if explicit else r.spacings["monotonic_d_upper"]
            ctx.oblige(TRUE(same(a[0], sperp_total)), "total length = total perpendicular distance")
            ctx.oblige(a[1] == N - 1, "last index = N-1")
            ctx.oblige(a[2] == N_norm, "normalisation count N_norm = N_norm_prefactor*ny_total (the same normalised index as every other spacing function)")
            ctx.oblige(a[2] == r.ny_total, "twin: prefactor dropped", kind="must-fail")
            ctx.oblige(k["d_lower"] == (lo if start_wall else lo * r.sin_angle_at_start), "lower end gradient: requested spacing, projected by sin(angle) at an X-point end")
            ctx.oblige(k["d_upper"] == (up if end_wall else up * r.sin_angle_at_end), "upper end gradient: requested spacing, projected by sin(angle) at an X-point end")
            ctx.oblige(TRUE(sperp_func is tok and sfunc(3) == ("s_of_sperp", ("value of", tok, 3))), "results: s(i) = s_of_sperp(sperp_func(i)), and the perpendicular-distance function itself")
        return sfunc

    return run


def make_regrid_run(el, eu, with_sfunc):
    """Real PsiContour.getRegridded with the fine contour, extension and refinement as stubs:
    region end points are not moved by redistribution, indices / start / end bookkeeping."""

    def run(ctx):
        from hypnotoad.core import equilibrium as E
        from hypnotoad.core.equilibrium import Point2D, PsiContour

        npoints, n0 = 4, 5
        c = object.__new__(PsiContour)
        P = [Point2D(float(k), 0.5 * k) for k in range(n0)]
        c.points = list(P)
        c._startInd, c._endInd = 1, n0 - 2  # old guard points at both ends
        c._extend_lower = c._extend_upper = 0
        c._distance = None
        c.user_options = _Opts(refine_width=1e-5, refine_atol=2e-8)
        log = []
        c.temporaryExtend = lambda **kw: log.append(("temporaryExtend", kw))
        dfine = [0.0, 1.0, 2.0, 3.0, 4.0, 5.0, 6.0, 7.0, 8.0]

        class Fine:
            distance = numpy.array(dfine)
            startInd = 3
            extend_lower_fine = extend_upper_fine = 0

            def extend(self, **kw):
                log.append(("fine.extend", kw))
                raise AssertionError("extension not expected under the precondition")

            def interpFunction(self):
                return lambda x: ("interp", x)

        fine = Fine()
        c._fine_contour = fine
        def get_fine(psi=None):
            c._fine_contour = fine  # as the real method does after (re)building it
            return fine

        c.get_fine_contour = get_fine
        dcont = [ctx.real("dist%d" % k) for k in range(n0)]
        c.get_distance = lambda psi=None: dcont
        made = []

        def new_from_self(points=None, psival=None):
            nc = object.__new__(PsiContour)
            nc.points = list(points)
            nc._startInd, nc._endInd = 0, len(points) - 1
            nc._extend_lower = nc._extend_upper = 0
            nc._distance = nc._fine_contour = None
            nc.refine = lambda **kw: log.append(("refine", kw))
            made.append(nc)
            return nc

        c.newContourFromSelf = new_from_self
        sfunc = UFunc(ctx, "sfunc") if with_sfunc else None
        # pre: the requested distances lie within the fine contour (no extension needed)
        lo, hi = -dfine[fine.startInd], dfine[-1] - dfine[fine.startInd]
        if with_sfunc:
            ctx.assume(sfunc.at(0.0) == 0)
            for k in range(-el, npoints + eu):
                ctx.assume(And(sfunc.at(float(k)) >= lo, sfunc.at(float(k)) <= hi))
        else:
            L = dcont[c._endInd] - dcont[c._startInd]
            ctx.assume(And(L > 0, L * (npoints - 1 + eu) <= hi * (npoints - 1), -L * el >= lo * (npoints - 1)))
        with patched((E, "calc_distance", lambda a, b: 1.0)):
            new = PsiContour.getRegridded(c, npoints, psi=None, sfunc=sfunc, extend_lower=el, extend_upper=eu)
        with spec_mode():
            ctx.oblige(TRUE(new is made[0] and len(new.points) == npoints + el + eu), "new contour has npoints + extend_lower + extend_upper points")
            ctx.oblige(TRUE(new.startInd == el and new.endInd == len(new.points) - 1 - eu), "startInd = extend_lower, endInd = last - extend_upper")
            ctx.oblige(TRUE(new.points[new.startInd] is P[1] and new.points[new.endInd] is P[n0 - 2]), "the region's end points are the ORIGINAL end points (not moved by redistribution)")
            for k, q in enumerate(new.points):
                if k in (new.startInd, new.endInd):
                    continue
                idx = float(k - el)
                want = sfunc.at(idx) if with_sfunc else (dcont[c._endInd] - dcont[c._startInd]) / (npoints - 1) * idx
                ok = isinstance(q, tuple) and q[0] == "interp"
                ctx.oblige(TRUE(ok), "point %d comes from the fine contour's interpolation function" % k)
                if ok:
                    ctx.oblige(q[1] == want, "point %d sits at distance sfunc(index %d) - sfunc(0) from the start (uniform when no spacing function is given)" % (k, k - el))
            ctx.oblige(TRUE(new._fine_contour is fine), "the new contour re-uses the (extended) fine contour")
            ctx.oblige(TRUE([x for x in log if x[0] == "refine"] == [("refine", dict(psi=None, width=1e-5, atol=2e-8, skip_endpoints=True))]), "refined once, end points skipped")
            ctx.oblige(TRUE(c.extend_lower == el and c.extend_upper == eu), "requested guard counts recorded on the source contour")
        return new

    return run


def make_region_regrid_run(start_ind, lower_conn, upper_conn):
    """Real EquilibriumRegion.getRegridded (the wrapper that knows ny and the connections): the
    spacing function is built for the length BETWEEN the region's end points (startInd may be
    non-zero once guard points exist), with 2 ny + 1 points; guard points exactly at ends without
    a neighbour; the PsiContour machinery receives exactly these."""

    def run(ctx):
        from hypnotoad.core import equilibrium as E

        r = object.__new__(E.EquilibriumRegion)
        n0 = 6
        d = [ctx.real("dist%d" % k) for k in range(n0)]
        r._startInd, r._endInd = start_ind, n0 - 2
        r._fine_contour = r._distance = None
        r._extend_lower = r._extend_upper = 0
        ny, myg = ctx.int("ny_noguards"), ctx.int("y_boundary_guards")
        ctx.assume(And(ny >= 1, myg >= 0))
        r.ny_noguards = ny
        r.user_options = _Opts(y_boundary_guards=myg)
        r.connections = [dict(lower=("a", 0) if lower_conn else None, upper=("b", 0) if upper_conn else None)] * 2
        r.get_distance = lambda psi=None: d
        log = {}

        def fixed(npoints, distance, **kw):
            log["fixed"] = (npoints, distance, kw)
            return "SFUNC"

        r.getSfuncFixedSpacing = fixed
        r.newRegionFromPsiContour = lambda c: ("new region", c)

        def base_regrid(self, npoints, **kw):
            log["base"] = (npoints, kw)
            return "CONTOUR"

        with patched((E.PsiContour, "getRegridded", base_regrid)):
            out = E.EquilibriumRegion.getRegridded(r, 1, psi="PSI", width=3)
        with spec_mode():
            ctx.oblige(TRUE(out == ("new region", "CONTOUR")), "result: a region built from the regridded contour")
            npts, dist, kw = log["fixed"]
            ctx.oblige(And(npts == 2 * ny + 1, dist == d[n0 - 2] - d[start_ind]), "spacing function for 2 ny + 1 points over the length between the region's OWN end points (distance[endInd] - distance[startInd])")
            if start_ind:
                ctx.oblige(dist == d[n0 - 2] - d[0], "twin: measured from the first (guard) point", kind="must-fail")
            bn, bk = log["base"]
            ctx.oblige(And(bn == 2 * ny + 1, bk["extend_lower"] == (0 if lower_conn else 2 * myg), bk["extend_upper"] == (0 if upper_conn else 2 * myg)), "2 ny + 1 points; 2*y_boundary_guards extra points exactly at ends without a neighbour")
            ctx.oblige(TRUE(bk["sfunc"] == "SFUNC" and bk["psi"] == "PSI" and bk.get("width") == 3), "the contour is regridded with that spacing function; other keywords passed through")
        return out

    return run


def spacing_selection(S):
    """getSpacings / getTargetParameter: which option reaches which end of which leg.
    Every option is a distinct token, so the selection is decided exactly (all leg names x
    region kinds)."""
    from hypnotoad.core import equilibrium as E

    class Opts:
        def __init__(self, tag):
            self.tag = tag

        def __getattr__(self, name):
            return (self.tag, name)

    legs = {"inner_lower_divertor": "inner_lower", "outer_lower_divertor": "outer_lower", "inner_upper_divertor": "inner_upper", "outer_upper_divertor": "outer_upper", "inner_divertor": "inner_lower", "outer_divertor": "outer_lower"}
    bad, n = [], 0
    for name, leg in legs.items():
        for kind in ("wall.X", "X.wall", "wall.wall", "X.X"):
            r = object.__new__(E.EquilibriumRegion)
            r.name, r.kind = name, kind
            r.user_options, r.nonorthogonal_options = Opts("user"), Opts("nonorth")
            try:
                sp = E.EquilibriumRegion.getSpacings(r)
            except Exception as e:
                bad.append(dict(name=name, kind=kind, problem="raised %r" % e))
                continue
            n += 1
            for side, endkind in zip(("lower", "upper"), kind.split(".")):
                if endkind == "wall":
                    want = {
                        "sqrt_a_" + side: None,
                        "sqrt_b_" + side: ("user", "target_%s_poloidal_spacing_length" % leg),
                        "nonorthogonal_orthogonal_d_" + side: ("user", "target_%s_poloidal_spacing_length" % leg),
                        "monotonic_d_" + side: ("nonorth", "nonorthogonal_target_%s_poloidal_spacing_length" % leg),
                        "nonorthogonal_range_" + side: ("nonorth", "nonorthogonal_target_%s_poloidal_spacing_range" % leg),
                        "nonorthogonal_range_%s_inner" % side: ("nonorth", "nonorthogonal_target_%s_poloidal_spacing_range_inner" % leg),
                        "nonorthogonal_range_%s_outer" % side: ("nonorth", "nonorthogonal_target_%s_poloidal_spacing_range_outer" % leg),
                    }
                else:
                    want = {
                        "sqrt_a_" + side: ("user", "xpoint_poloidal_spacing_length"),
                        "sqrt_b_" + side: 0.0,
                        "nonorthogonal_orthogonal_d_" + side: ("user", "xpoint_poloidal_spacing_length"),
                        "monotonic_d_" + side: ("nonorth", "nonorthogonal_xpoint_poloidal_spacing_length"),
                        "nonorthogonal_range_" + side: ("nonorth", "nonorthogonal_xpoint_poloidal_spacing_range"),
                        "nonorthogonal_range_%s_inner" % side: ("nonorth", "nonorthogonal_xpoint_poloidal_spacing_range_inner"),
                        "nonorthogonal_range_%s_outer" % side: ("nonorth", "nonorthogonal_xpoint_poloidal_spacing_range_outer"),
                    }
                for k, v in want.items():
                    if sp.get(k, "missing") != v:
                        bad.append(dict(name=name, kind=kind, key=k, got=repr(sp.get(k, "missing")), want=repr(v)))
    S.static_vc("getSpacings", E_ + "getSpacings", "each end of each leg takes the spacing options documented for THAT target (wall end) or the X-point options (X end): %d (leg, kind) combinations, 14 entries each" % n, not bad and n == 24, detail=repr(bad[:3]), kind="native-all-classes", model=bad[0] if bad else None)


def build(S):
    from . import optdefaults

    optdefaults.check(S, "hypnotoad.core.equilibrium:EquilibriumRegion.getSpacings", which=("eq", "nonorth"))
    spacing_selection(S)
    S.under_contract(E_ + "getSpacings", E_ + "getTargetParameter")
    S.under_contract(FN_MONO, FN_SQRT, FN_LIN, FN_CHK, E_ + "combineSfuncs", E_ + "getSfuncFixedSpacing", E_ + "getSfuncFixedPerpSpacing")
    S.assume("N, N_norm treated as reals >= 1; float literals read as exact decimals (source recompiled through the literal-lifting transform)")
    S.assume("concave branch of getMonotonicPoloidalDistanceFunc (brentq, logarithms), end-gradient coefficients and interior monotonicity of the sqrt functions, combineSfuncs with both ranges AND an orthogonal function (boolean-mask renormalisation of the weights): bounded numerical lattice only; strictness of the final point order is enforced by PsiContour.get_distance (C05)")
    check_monotonic_cases(S)
    with numpy_shimmed():
        S.contract("linear", FN_LIN, run_linear, shape="scalar")
        S.contract("monotonic[convex]", FN_MONO, run_mono_convex(S), shape="scalar", feas_timeout_ms=4000)
        S.contract("monotonic[convex,i<0]", FN_MONO, run_mono_extrap(S, "lower"), shape="scalar", feas_timeout_ms=4000)
        S.contract("monotonic[convex,i>N]", FN_MONO, run_mono_extrap(S, "upper"), shape="scalar", feas_timeout_ms=4000)
        for which in ((), ("b_lower",), ("b_upper",), ("b_lower", "b_upper"), ("b_lower", "a_lower"), ("b_upper", "a_upper"), ("b_lower", "a_lower", "b_upper", "a_upper")):
            S.contract("sqrt[%s]" % ",".join(which), FN_SQRT, run_sqrt_ends(which), expected_exceptions=(ValueError,), raises_ok=sqrt_raise_ok, shape="scalar", feas_timeout_ms=4000, assume_safety="N/N_norm>0 and the gradient-sign guards of the function hold on the path")
        AS = "N/N_norm>0 and the gradient-sign guards of the function hold on the path"
        for case, side in (("wall.wall", "lower"), ("wall.wall", "upper"), ("X.wall", "upper"), ("wall.X", "lower"), ("-.wall", "lower"), ("wall.-", "upper")):
            S.contract("sqrt-extrapolation[%s,%s]" % (case, side), FN_SQRT, run_sqrt_extrap(case, side), expected_exceptions=(ValueError,), raises_ok=sqrt_raise_ok, shape="scalar", feas_timeout_ms=4000, assume_safety=AS)
        for case in SQRT_CASES:
            S.contract("sqrt-end-gradients[%s]" % case, FN_SQRT, run_sqrt_gradients(case), expected_exceptions=(ValueError,), raises_ok=sqrt_raise_ok, shape="scalar", feas_timeout_ms=4000, assume_safety=AS)
        add_mirror(S)
        V = object()
        for ranges, orth, vecs in ((("lower", "upper"), False, (None, None)), (("lower", "upper"), False, (V, V)), (("lower", "upper"), False, (None, V)), (("lower",), True, (V, None)), (("upper",), True, (None, V)), ((), True, (None, None))):
            S.contract("combineSfuncs[ranges=%s,%s,vec=%s]" % ("+".join(ranges) or "none", "orthogonal given" if orth else "no orthogonal function", "/".join("-" if v is None else "v" for v in vecs)), E_ + "combineSfuncs", make_combine_run(ranges, orth, vecs), expected_exceptions=(ValueError,), shape="symbolic ny, L, ranges; component spacing functions uninterpreted", feas_timeout_ms=4000)
        from . import C08
        from . import topokit as tk

        S.under_contract("hypnotoad.cases.tokamak:TokamakEquilibrium.describeDoubleNull", "hypnotoad.cases.tokamak:TokamakEquilibrium.describeSingleNull")
        for topo in tk.TOPOLOGIES:
            # which end of a leg is a wall / an X-point (the label getSpacings keys on) agrees with its connections
            S.contract("region kinds vs connections[%s]" % topo, "hypnotoad.cases.tokamak:TokamakEquilibrium.describeDoubleNull", C08.make_pins_run(topo), expected_exceptions=(ValueError,), raises_ok=lambda p: True, shape="sizes symbolic")
        S.under_contract(E_ + "getRegridded")
        for st, lc, uc in ((0, False, True), (2, False, True), (0, True, False), (2, True, True)):
            S.contract("EquilibriumRegion.getRegridded[startInd=%d,lower=%s,upper=%s]" % (st, "joined" if lc else "wall", "joined" if uc else "wall"), E_ + "getRegridded", make_region_regrid_run(st, lc, uc), shape="symbolic ny, guards, distances; helpers are recorder stubs")
        S.under_contract("hypnotoad.core.equilibrium:PsiContour.getRegridded")
        for el, eu in ((0, 0), (2, 0), (0, 2), (2, 2)):
            for wf in (True, False):
                S.contract("getRegridded[extend=%d/%d,%s]" % (el, eu, "sfunc" if wf else "uniform"), "hypnotoad.core.equilibrium:PsiContour.getRegridded", make_regrid_run(el, eu, wf), shape="4 points + guards; fine contour, extension and refinement are stubs", feas_timeout_ms=4000)
        add_combine_ranges(S)
        for method in ("sqrt", "monotonic", "linear"):
            for explicit in (False, True):
                S.contract("getSfuncFixedSpacing[%s%s]" % (method, ",explicit spacings" if explicit else ""), E_ + "getSfuncFixedSpacing", make_fixed_spacing_run(method, explicit), shape="symbolic npoints, distance, N_norm_prefactor, ny_total; helper functions are recorder stubs")
        for sw in (True, False):
            for ew in (True, False):
                for explicit in (False, True):
                    S.contract("getSfuncFixedPerpSpacing[%s.%s%s]" % ("wall" if sw else "X", "wall" if ew else "X", ",explicit spacings" if explicit else ""), E_ + "getSfuncFixedPerpSpacing", make_perp_spacing_run(sw, ew, explicit), shape="symbolic N, N_norm_prefactor, ny_total, spacings, angles; interpSSperp / monotonic helper are recorder stubs")


def add_combine_ranges(S):
    for side in ("lower", "upper"):
        for ix in (-2, 0, 2):
            S.contract("combineSfuncs[range %s, global_xind=%d]" % (side, ix), E_ + "combineSfuncs", make_combine_range_run(side, ix), expected_exceptions=(ValueError,), shape="symbolic ny, L, ranges; component functions uninterpreted", feas_timeout_ms=4000)


def add_mirror(S):
    AS = "N/N_norm>0 and the gradient-sign guards of the function hold on the path"
    zones = {"wall.wall": ("inside", "below", "above"), "X.X": ("inside",), "X.wall": ("inside", "above"), "wall.X": ("inside", "below"), "-.wall": ("inside", "below"), "wall.-": ("inside", "above")}
    for case, zs in zones.items():
        for z in zs:
            S.contract("sqrt-spacing mirror[%s,%s]" % (case, z), FN_SQRT, run_sqrt_mirror(case, z), expected_exceptions=(ValueError,), raises_ok=sqrt_raise_ok, shape="scalar", feas_timeout_ms=4000, assume_safety=AS)
    for z in ("inside", "below", "above"):
        S.contract("monotonic-spacing mirror[convex,%s]" % z, FN_MONO, run_mono_mirror(z), shape="scalar", feas_timeout_ms=4000)


def post(S):
    from . import C10_bounded

    C10_bounded.run(S)
