"""C10  Poloidal spacing: end-point exact, monotone, resolution-consistent.

Deductive part (real code; source recompiled with exact decimal literals because CPython
folds 1.0/3.0 before a symbolic value sees it): getLinearPoloidalDistanceFunc,
getMonotonicPoloidalDistanceFunc (convex branch: end values, end gradients in normalised
index, positivity of the gradient, value/gradient continuity into the extrapolations,
resolution consistency), getSqrtPoloidalDistanceFunc (end values of its closed-form
branches), _checkMonotonic (raises iff some consecutive pair decreases, over exactly the
indices [-extend_lower, 2 ny + extend_upper]).
Bounded: numerical lattice over all branches (incl. the brentq-based concave branch and
combined functions), and grid-level checks.
"""
import types

import numpy
import z3

from vc import transform
from vc.jets import Jets
from vc.shim import numpy_shimmed, patched
from vc.sym import And, Or, Not, Implies, Sym, ite, spec_mode

LEVEL = "proof"
E_ = "hypnotoad.core.equilibrium:EquilibriumRegion."
FN_MONO = E_ + "getMonotonicPoloidalDistanceFunc"
FN_SQRT = E_ + "getSqrtPoloidalDistanceFunc"
FN_LIN = E_ + "getLinearPoloidalDistanceFunc"
FN_CHK = E_ + "_checkMonotonic"
TRUE = lambda b: Sym(z3.BoolVal(bool(b)))


class Concave(Exception):
    pass


def region():
    from hypnotoad.core import equilibrium as E

    r = object.__new__(E.EquilibriumRegion)
    r.user_options = types.SimpleNamespace(sfunc_checktol=1.0e-13)
    return r


def run_linear(ctx):
    from hypnotoad.core import equilibrium as E

    L, N, i = ctx.real("L"), ctx.real("N"), ctx.real("i")
    ctx.assume(And(L > 0, N >= 1))
    f = E.EquilibriumRegion.getLinearPoloidalDistanceFunc(region(), L, N)
    f2 = E.EquilibriumRegion.getLinearPoloidalDistanceFunc(region(), L, 2 * N)
    with spec_mode():
        ctx.oblige(f(0.0 * N) == 0, "s(0)=0")
        ctx.oblige(f(N) == L, "s(N)=L")
        ctx.oblige(f(i + 1) > f(i), "strictly increasing")
        ctx.oblige(f2(2 * i) == f(i), "doubling N keeps every original point")


def run_mono_convex(S):
    def run(ctx):
        from hypnotoad.core import equilibrium as E

        fn = transform.recompile(E.EquilibriumRegion.getMonotonicPoloidalDistanceFunc, report=S.extraction)
        L, N, Nn = ctx.real("L"), ctx.real("N"), ctx.real("N_norm")
        dl, du = ctx.real("d_lower"), ctx.real("d_upper")
        ctx.assume(And(L > 0, N >= 1, Nn >= 1, dl > 0, du > 0))

        def no_brentq(*a, **k):
            raise Concave()

        with patched((E, "brentq", no_brentq)):
            try:
                f = fn(region(), L, N, Nn, d_lower=dl, d_upper=du)
                f2 = fn(region(), L, 2 * N, 2 * Nn, d_lower=dl, d_upper=du)
            except Concave:
                ctx.notes.append("concave branch: bounded only")
                return None
        i = ctx.real("i")
        jets = Jets(ctx, {i: {"i": 1}}, const=lambda nm: True)
        u = lambda x: x[()] if isinstance(x, numpy.ndarray) else x
        # interior piece: 0 <= i <= N
        ctx.assume(And(i >= 0, i <= N))
        s_i = u(f(i))
        with spec_mode():
            ctx.oblige(u(f(0.0 * N)) == 0, "s(0)=0")
            ctx.oblige(u(f(N)) == L, "s(N)=L")
            ds = jets.D(s_i, "i")
            ctx.oblige(jets.at(ds, i, 0) * Nn == dl, "ds/d(i/N_norm) at 0 = d_lower")
            ctx.oblige(jets.at(ds, i, N) * Nn == du, "ds/d(i/N_norm) at N = d_upper")
            ctx.oblige(ds > 0, "ds/di > 0 on [0,N] (convex branch is strictly increasing)")
            ctx.oblige(u(f2(2 * i)) == s_i, "s_{2N,2N_norm}(2i) = s_{N,N_norm}(i)")
        return f

    return run


def run_mono_extrap(S, side):
    """The linear extrapolations for i<0 / i>N continue value and gradient."""

    def run(ctx):
        from hypnotoad.core import equilibrium as E

        fn = transform.recompile(E.EquilibriumRegion.getMonotonicPoloidalDistanceFunc, report=None)
        L, N, Nn = ctx.real("L"), ctx.real("N"), ctx.real("N_norm")
        dl, du = ctx.real("d_lower"), ctx.real("d_upper")
        ctx.assume(And(L > 0, N >= 1, Nn >= 1, dl > 0, du > 0))

        def no_brentq(*a, **k):
            raise Concave()

        with patched((E, "brentq", no_brentq)):
            try:
                f = fn(region(), L, N, Nn, d_lower=dl, d_upper=du)
            except Concave:
                return None
        i = ctx.real("i")
        u = lambda x: x[()] if isinstance(x, numpy.ndarray) else x
        ctx.assume(i < 0 if side == "lower" else i > N)
        with spec_mode():
            if side == "lower":
                ctx.oblige(u(f(i)) * Nn == dl * i, "i<0: s = d_lower*i/N_norm (value 0 and gradient d_lower at 0)")
            else:
                ctx.oblige((u(f(i)) - L) * Nn == du * (i - N), "i>N: s = L + d_upper*(i-N)/N_norm")

    return run


def run_sqrt_ends(which):
    def run(ctx):
        from hypnotoad.core import equilibrium as E

        fn = transform.recompile(E.EquilibriumRegion.getSqrtPoloidalDistanceFunc, report=None)
        L, N, Nn = ctx.real("L"), ctx.real("N"), ctx.real("N_norm")
        ctx.assume(And(L > 0, N >= 1, Nn >= 1))
        kw = {}
        for k in which:
            kw[k] = ctx.real(k)
            ctx.assume(kw[k] > 0)
        f = fn(region(), L, N, Nn, **kw)
        u = lambda x: x[()] if isinstance(x, numpy.ndarray) else x
        with spec_mode():
            ctx.oblige(u(f(0.0 * N)) == 0, "s(0)=0")
            ctx.oblige(u(f(N)) == L, "s(N)=L")
        return f

    return run


def sqrt_raise_ok(path):
    return isinstance(path.exc, ValueError)


def check_monotonic_cases(S):
    """_checkMonotonic on the real method: raises iff a consecutive pair decreases, over
    exactly the index range [-extend_lower, 2 ny + extend_upper]."""
    from hypnotoad.core import equilibrium as E
    from . import meshkit

    meshkit.silence_pyplot()
    bad = []
    n = 0
    for ny, el, eu in ((1, 0, 0), (2, 1, 0), (3, 0, 2), (2, 2, 2)):
        r = region()
        r.ny_noguards, r._extend_lower, r._extend_upper = ny, el, eu
        r.name = "x"
        r.points = [0, 1]
        idx = list(range(-el, 2 * ny + eu + 1))
        seen = []

        def base(i, seen=seen):
            seen.append(numpy.array(i).copy())
            return numpy.array(i, dtype=float)

        with patched((E, "print", lambda *a, **k: None)):
            try:
                E.EquilibriumRegion._checkMonotonic(r, [(base, "b")])
                ok = True
            except ValueError:
                ok = False
        n += 1
        if not ok or [float(x) for x in seen[0]] != [float(x) for x in idx]:
            bad.append(dict(ny=ny, extend_lower=el, extend_upper=eu, problem="increasing function refused or wrong index range", indices=[float(x) for x in (seen[0] if seen else [])]))
        for k in range(len(idx) - 1):
            # a single decreasing pair at position k
            def dip(i, k=k, idx=idx):
                v = numpy.array(i, dtype=float).copy()
                v[numpy.array(i) > idx[k]] -= 1.5
                return v

            with patched((E, "print", lambda *a, **k: None)):
                try:
                    E.EquilibriumRegion._checkMonotonic(r, [(dip, "d")])
                    raised = False
                except ValueError:
                    raised = True
            n += 1
            if not raised:
                bad.append(dict(ny=ny, extend_lower=el, extend_upper=eu, problem="decreasing pair at %d not refused" % k))

        # a flat (non-decreasing) function is accepted here; strictness is enforced by get_distance (C05)
    S.static_vc("_checkMonotonic", FN_CHK, "raises iff some consecutive pair decreases; checks exactly indices -extend_lower..2ny+extend_upper (%d cases)" % n, not bad, detail=repr(bad[:2]), kind="native-all-classes", model=bad[0] if bad else None)


def build(S):
    S.under_contract(FN_MONO, FN_SQRT, FN_LIN, FN_CHK, E_ + "combineSfuncs", E_ + "getSfuncFixedSpacing")
    S.assume("N, N_norm treated as reals >= 1; float literals read as exact decimals (source recompiled through the literal-lifting transform)")
    S.assume("concave branch of getMonotonicPoloidalDistanceFunc (brentq, logarithms), end-gradient coefficients and interior monotonicity of the sqrt functions, combineSfuncs weights: bounded numerical lattice only; strictness of the final point order is enforced by PsiContour.get_distance (C05)")
    check_monotonic_cases(S)
    with numpy_shimmed():
        S.contract("linear", FN_LIN, run_linear, shape="scalar")
        S.contract("monotonic[convex]", FN_MONO, run_mono_convex(S), shape="scalar", feas_timeout_ms=4000)
        S.contract("monotonic[convex,i<0]", FN_MONO, run_mono_extrap(S, "lower"), shape="scalar", feas_timeout_ms=4000)
        S.contract("monotonic[convex,i>N]", FN_MONO, run_mono_extrap(S, "upper"), shape="scalar", feas_timeout_ms=4000)
        for which in ((), ("b_lower",), ("b_upper",), ("b_lower", "b_upper"), ("b_lower", "a_lower"), ("b_upper", "a_upper"), ("b_lower", "a_lower", "b_upper", "a_upper")):
            S.contract("sqrt[%s]" % ",".join(which), FN_SQRT, run_sqrt_ends(which), expected_exceptions=(ValueError,), raises_ok=sqrt_raise_ok, shape="scalar", feas_timeout_ms=4000, assume_safety="N/N_norm>0 and the gradient-sign guards of the function hold on the path")


def post(S):
    from . import C10_bounded

    C10_bounded.run(S)
