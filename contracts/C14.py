"""C14  Deterministic, side-effect free, and reproducible from embedded inputs.

Frame / effect obligations decided over the current source (AST) of the real functions:
 (i)   no store through a parameter (or an alias of one) in TokamakEquilibrium.__init__,
       read_geqdsk, Equilibrium.magneticFunctionsFromGrid, critical.find_critical,
       TokamakEquilibrium.segmentsWithPsivals -- augmented assignment, subscript store,
       in-place method, out= keyword;
 (ii)  no write to module globals / class attributes on the construction and generation path;
 (iii) the nondeterminism sources reachable from the package are exactly uuid (grid_id),
       date (geqdsk header) and version strings;
 (v)   read_geqdsk stores the text read after seek(0) (C17).
Native twin of (i): the real constructor on concrete arrays, every sign/scale option.
Bounded: generate twice and compare; regenerate from the inputs embedded in the grid file
through the command-line entry points and compare all variables.
"""
import ast
import inspect
import json
import os
import subprocess
import sys
import textwrap
import time

import numpy
import z3

from vc.harness import REPO, ROOT

LEVEL = "proof"
MUTATORS = {"sort", "reverse", "append", "extend", "insert", "pop", "remove", "clear", "fill", "resize", "put", "itemset", "setfield", "update", "setdefault", "popitem", "partition", "byteswap"}
TARGETS = [
    "hypnotoad.cases.tokamak:TokamakEquilibrium.__init__",
    "hypnotoad.cases.tokamak:read_geqdsk",
    "hypnotoad.core.equilibrium:Equilibrium.magneticFunctionsFromGrid",
    "hypnotoad.utils.critical:find_critical",
    "hypnotoad.cases.tokamak:TokamakEquilibrium.segmentsWithPsivals",
    "hypnotoad.utils.dct_interpolation:DCT_2D.__init__",
    "hypnotoad.core.mesh:BoutMesh.__init__",
]


class Frame(ast.NodeVisitor):
    """Flow-insensitive, conservative: a name is an alias of a parameter if it is a
    parameter, or is ever assigned directly from an alias / a view of one (slice,
    transpose, asarray).  A fresh object (arithmetic, copy, concatenate, ...) is not."""

    def __init__(self, fdef, not_arrays=()):
        self.params = {a.arg for a in fdef.args.args + fdef.args.kwonlyargs if a.arg not in ("self", "cls") and a.arg not in not_arrays}
        self.alias = set(self.params)
        self.findings = []
        self.fdef = fdef
        changed = True
        while changed:
            changed = False
            for node in ast.walk(fdef):
                if isinstance(node, ast.Assign) and self.is_view(node.value):
                    for t in node.targets:
                        if isinstance(t, ast.Name) and t.id not in self.alias:
                            self.alias.add(t.id)
                            changed = True
        # names that are re-bound to fresh objects before use stay aliases (conservative)

    def is_view(self, v):
        if isinstance(v, ast.Name):
            return v.id in self.alias
        if isinstance(v, ast.Subscript):
            return self.is_view(v.value)
        if isinstance(v, ast.Attribute) and v.attr in ("T", "real", "flat"):
            return self.is_view(v.value)
        if isinstance(v, ast.Call):
            f = v.func
            nm = f.attr if isinstance(f, ast.Attribute) else getattr(f, "id", "")
            if nm in ("asarray", "asanyarray", "ravel", "reshape", "view", "transpose", "squeeze", "atleast_1d") and v.args:
                return self.is_view(v.args[0]) or (isinstance(f, ast.Attribute) and self.is_view(f.value))
        return False

    def root(self, t):
        while isinstance(t, (ast.Subscript, ast.Attribute)):
            t = t.value
        return t.id if isinstance(t, ast.Name) else None

    def run(self):
        for node in ast.walk(self.fdef):
            if isinstance(node, ast.AugAssign):
                if isinstance(node.target, ast.Name) and node.target.id in self.alias:
                    self.findings.append((node.lineno, "augmented assignment `%s` mutates an array passed in by the caller" % ast.unparse(node)))
                elif isinstance(node.target, ast.Subscript) and self.root(node.target) in self.alias:
                    self.findings.append((node.lineno, "augmented subscript store `%s`" % ast.unparse(node)))
            elif isinstance(node, (ast.Assign, ast.AnnAssign)):
                targets = node.targets if isinstance(node, ast.Assign) else [node.target]
                for t in targets:
                    for tt in ast.walk(t):
                        if isinstance(tt, ast.Subscript) and isinstance(tt.ctx, ast.Store) and self.root(tt) in self.alias:
                            self.findings.append((node.lineno, "subscript store `%s` into a caller's container" % ast.unparse(node)[:80]))
            elif isinstance(node, ast.Call):
                f = node.func
                if isinstance(f, ast.Attribute) and f.attr in MUTATORS and self.root(f.value) in self.alias and not isinstance(f.value, ast.Attribute):
                    self.findings.append((node.lineno, "in-place method `%s`" % ast.unparse(node)[:80]))
                for kw in node.keywords:
                    if kw.arg == "out" and self.root(kw.value) in self.alias:
                        self.findings.append((node.lineno, "out= writes into a caller's array: `%s`" % ast.unparse(node)[:80]))
            elif isinstance(node, ast.Global):
                self.findings.append((node.lineno, "`global %s`" % ", ".join(node.names)))
        return self.findings


def frame_obligations(S):
    from vc.harness import resolve

    for q in TARGETS:
        fn = resolve(q)
        if fn is None:
            S.lost_anchors.append(q)
            continue
        fdef = ast.parse(textwrap.dedent(inspect.getsource(fn))).body[0]
        # settings dictionaries, option strings, file handles and scalars are not arrays
        fr = Frame(fdef, not_arrays={"settings", "nonorthogonal_settings", "equilibrium", "filehandle", "option", "make_regions", "psi_axis_gfile", "psi_bdry_gfile", "atol", "maxits", "discard_xpoints"})
        found = fr.run()
        S.static_vc("frame", q, "%s does not modify its array arguments and declares no global" % q.split(":")[1], not found, detail=repr(found[:4]), kind="ast-frame", model=dict(function=q, findings=[list(f) for f in found[:4]]) if found else None)


def globals_obligations(S):
    """No assignment to module-level names or class attributes from inside functions of
    the generation path (instance attributes and locals only)."""
    import hypnotoad

    root = os.path.dirname(hypnotoad.__file__)
    bad = []
    n = 0
    nondet = []
    for sub in ("core", "cases", "utils", "geqdsk"):
        for fn in sorted(os.listdir(os.path.join(root, sub))):
            if not fn.endswith(".py"):
                continue
            src = open(os.path.join(root, sub, fn)).read()
            tree = ast.parse(src)
            classes = {c.name for c in ast.walk(tree) if isinstance(c, ast.ClassDef)}
            modnames = {t.id for st in tree.body if isinstance(st, ast.Assign) for t in st.targets if isinstance(t, ast.Name)} | {st.target.id for st in tree.body if isinstance(st, ast.AnnAssign) and isinstance(st.target, ast.Name)}
            for f in [x for x in ast.walk(tree) if isinstance(x, (ast.FunctionDef, ast.AsyncFunctionDef))]:
                n += 1
                for node in ast.walk(f):
                    if isinstance(node, ast.Global):
                        bad.append("%s/%s:%d global %s" % (sub, fn, node.lineno, node.names))
                    if isinstance(node, (ast.Assign, ast.AugAssign)):
                        ts = node.targets if isinstance(node, ast.Assign) else [node.target]
                        for t in ts:
                            if isinstance(t, ast.Attribute) and isinstance(t.value, ast.Name) and t.value.id in classes:
                                if not (sub == "core" and fn == "equilibrium.py" and t.attr == "getMsg"):
                                    bad.append("%s/%s:%d class attribute store %s" % (sub, fn, node.lineno, ast.unparse(t)))
                    # mutation of a module-level container (a cache that outlives one build): store through
                    # a subscript / attribute of a module-level name, or a mutating method call on it
                    local_names = {a.arg for a in f.args.args + f.args.kwonlyargs} | {t.id for x in ast.walk(f) if isinstance(x, (ast.Assign, ast.AugAssign, ast.For, ast.With, ast.comprehension)) for t in ast.walk(x.targets[0] if isinstance(x, ast.Assign) else (x.target if hasattr(x, "target") else x)) if isinstance(t, ast.Name) and isinstance(t.ctx, ast.Store)}
                    if isinstance(node, (ast.Assign, ast.AugAssign, ast.Delete)):
                        ts = node.targets if isinstance(node, (ast.Assign, ast.Delete)) else [node.target]
                        for t in ts:
                            base = t
                            while isinstance(base, (ast.Subscript, ast.Attribute)):
                                base = base.value
                            if base is not t and isinstance(base, ast.Name) and base.id in modnames and base.id not in local_names:
                                bad.append("%s/%s:%d store into module-level object %s" % (sub, fn, node.lineno, ast.unparse(t)))
                    if isinstance(node, ast.Call) and isinstance(node.func, ast.Attribute) and isinstance(node.func.value, ast.Name) and node.func.value.id in modnames and node.func.value.id not in local_names and node.func.attr in ("append", "extend", "insert", "update", "setdefault", "add", "pop", "popitem", "clear", "remove", "discard", "sort", "reverse"):
                        bad.append("%s/%s:%d mutating call on module-level object %s" % (sub, fn, node.lineno, ast.unparse(node.func)))
                    if isinstance(node, ast.Call):
                        txt = ast.unparse(node.func)
                        if any(k in txt for k in ("uuid", "random", "time.time", "datetime", "date.today", "getpid", "os.urandom", "default_rng")):
                            nondet.append("%s/%s:%d %s" % (sub, fn, node.lineno, txt))
    S.static_vc("frame", "hypnotoad.core.mesh:Mesh.geometry", "no function of core/cases/utils/geqdsk stores to a module global, a class attribute, or into a module-level container (%d functions scanned)" % n, not bad, detail=repr(bad[:5]), kind="ast-frame", model=dict(findings=bad[:5]) if bad else None)
    allowed = ("uuid", "date.today")
    extra = [x for x in nondet if not any(a in x for a in allowed)]
    S.static_vc("frame", "hypnotoad.core.mesh:BoutMesh.writeGridfile", "sources of nondeterminism in the package are exactly uuid (grid_id) and today's date (geqdsk header)", not extra, detail=repr(nondet), kind="ast-frame", model=dict(unexpected=extra) if extra else None)
    S.extra_cov["nondeterminism_sources_found"] = nondet


def class_state_obligations(S):
    """No mutable container bound at CLASS level is mutated in place through an instance: such a
    list / dict / set is one object shared by every instance in the interpreter, so what one build
    appends to it is seen by the next (a second grid generated in the same process would depend
    on the first).  Decided over the AST of the whole package: for every class-level name bound to
    a list / dict / set display, comprehension or constructor call, there is either no in-place
    mutation `<obj>.<name>.<mutator>(...)`, `<obj>.<name>[...] = ...`, `<obj>.<name> += ...`
    anywhere in the package, or every class that declares it (and each subclass that does not
    shadow it) assigns a fresh `self.<name> = ...` in its own __init__ before use."""
    import hypnotoad

    root = os.path.dirname(hypnotoad.__file__)
    MUT = {"append", "extend", "insert", "update", "setdefault", "add", "pop", "popitem", "clear", "remove", "discard", "sort", "reverse", "appendleft"}
    ctor = {"list", "dict", "set", "OrderedDict", "defaultdict", "deque", "Counter"}
    trees = {}
    for dirpath, _, files in os.walk(root):
        for fn in files:
            if fn.endswith(".py") and "test" not in fn:
                path = os.path.join(dirpath, fn)
                trees[os.path.relpath(path, root)] = ast.parse(open(path).read())
    declared = {}  # name -> [(file, class, lineno)]
    init_assigns = {}  # class -> set of self.X assigned in __init__
    n_classes = 0
    for rel, tree in trees.items():
        for c in [x for x in ast.walk(tree) if isinstance(x, ast.ClassDef)]:
            n_classes += 1
            for st in c.body:
                if isinstance(st, (ast.Assign, ast.AnnAssign)) and st.value is not None:
                    v = st.value
                    mutable = isinstance(v, (ast.List, ast.Dict, ast.Set, ast.ListComp, ast.DictComp, ast.SetComp)) or (isinstance(v, ast.Call) and isinstance(v.func, (ast.Name, ast.Attribute)) and ast.unparse(v.func).split(".")[-1] in ctor)
                    if mutable:
                        ts = st.targets if isinstance(st, ast.Assign) else [st.target]
                        for t in ts:
                            if isinstance(t, ast.Name):
                                declared.setdefault(t.id, []).append((rel, c.name, st.lineno))
            for m in c.body:
                if isinstance(m, ast.FunctionDef) and m.name == "__init__":
                    init_assigns[c.name] = {t.attr for x in ast.walk(m) if isinstance(x, ast.Assign) for t in x.targets if isinstance(t, ast.Attribute) and isinstance(t.value, ast.Name) and t.value.id == "self"}
    bad = []
    for rel, tree in trees.items():
        for node in ast.walk(tree):
            hit = None
            if isinstance(node, ast.Call) and isinstance(node.func, ast.Attribute) and node.func.attr in MUT and isinstance(node.func.value, ast.Attribute) and node.func.value.attr in declared:
                hit = node.func.value
            elif isinstance(node, (ast.Assign, ast.AugAssign, ast.Delete)):
                ts = node.targets if isinstance(node, (ast.Assign, ast.Delete)) else [node.target]
                for t in ts:
                    if isinstance(t, ast.Subscript) and isinstance(t.value, ast.Attribute) and t.value.attr in declared:
                        hit = t.value
                    if isinstance(node, ast.AugAssign) and isinstance(t, ast.Attribute) and t.attr in declared:
                        hit = t
            if hit is None:
                continue
            for drel, cname, lineno in declared[hit.attr]:
                if hit.attr not in init_assigns.get(cname, set()):
                    bad.append("%s:%d in-place mutation of %s; `%s` is a mutable container bound at class level (%s, class %s, line %d) and %s.__init__ does not rebind it per instance" % (rel, node.lineno, ast.unparse(hit), hit.attr, drel, cname, lineno, cname))
    S.static_vc("frame", "hypnotoad.core.mesh:BoutMesh.__init__", "no class-level mutable container is mutated in place through an instance without being rebound per instance in __init__ (%d classes, %d class-level containers: %s)" % (n_classes, len(declared), sorted(declared)[:8]), not bad, detail=repr(bad[:4]), kind="ast-frame", model=dict(findings=bad[:4]) if bad else None)


def reset_recorded(S):
    """What writeGridfile embeds as the non-orthogonal inputs is `equilibrium.nonorthogonal_options`
    (embedding block, below): after Equilibrium.resetNonorthogonalOptions(s) -- the hand-over of
    Mesh.redistributePoints -- that object holds the evaluated NEW settings, the same the regions
    were given; so a grid regridded with new settings embeds the settings it was made with."""
    from contracts.C10_bounded import make_region

    bad, n = [], 0
    for new in (dict(nonorthogonal_radial_range_power=3), dict(nonorthogonal_xpoint_poloidal_spacing_length=0.5, nonorthogonal_spacing_method="poloidal_orthogonal_combined"), {}):
        r = make_region(ny=4, kind="wall.X", name="inner_lower_divertor", extra=dict(target_all_poloidal_spacing_length=0.3))
        eq = r.equilibrium
        eq.regions = {"a": r}
        eq.resetNonorthogonalOptions(dict(nonorthogonal_radial_range_power=5, nonorthogonal_xpoint_poloidal_spacing_length=0.9))  # an earlier regrid
        want = dict(eq.nonorthogonal_options_factory.create(dict(new)))
        eq.resetNonorthogonalOptions(dict(new))
        n += 1
        got_eq, got_reg = dict(eq.nonorthogonal_options), dict(r.nonorthogonal_options)
        if got_eq != want or got_reg != want:
            diff = {k: (got_eq.get(k), got_reg.get(k), want[k]) for k in want if got_eq.get(k) != want[k] or got_reg.get(k) != want[k]}
            bad.append(dict(new_settings=new, problem="after the reset (equilibrium's, region's, wanted) differ", differences=dict(list(diff.items())[:4])))
    S.static_vc("options-recorded", "hypnotoad.core.equilibrium:Equilibrium.resetNonorthogonalOptions", "after a reset the equilibrium's own non-orthogonal options (the ones embedded in the grid file) and every region's are the evaluated new settings, nothing of an earlier regrid (%d cases)" % n, not bad, detail=repr(bad[:2]), kind="native", model=bad[0] if bad else None)


def native_frame(S):
    """The real TokamakEquilibrium constructor must leave the caller's arrays untouched, and a
    second build from the same arrays must give the same profiles (every sign/scale option,
    increasing and decreasing psi profiles)."""
    import io
    import warnings

    sys.path.insert(0, os.path.join(ROOT))
    from bounded import gridbank as gb
    from hypnotoad import tokamak

    bad = []
    n = 0
    for geom, sign in (("lsn", 1.0), ("lsn", -1.0)):
        for opt in ({}, dict(reverse_current=True), dict(psi_divide_twopi=True), dict(reverse_Bt=True), dict(extrapolate_profiles=True), dict(reverse_current=True, reverse_Bt=True, psi_divide_twopi=True)):
            c = gb.cfg(geom, dict(opt), psi_sign=sign, fpol="profile", pressure=True)
            r1d, z1d, psi2d, psi1d, opts, wall, kw = gb.tokamak_inputs(c)
            if opt.get("extrapolate_profiles"):
                # the extrapolation reads psi_sol / psi_sol_inner directly: give them, beyond the profile
                beyond = float(psi1d[-1] + 0.2 * (psi1d[-1] - psi1d[0]))
                opts = dict(opts, psi_sol=beyond, psi_sol_inner=beyond)
            arrays = dict(R1D=r1d, Z1D=z1d, psi2D=psi2d, psi1D=psi1d, fpol1D=kw["fpol1D"], pressure=kw["pressure"])
            keep = {k: numpy.array(v, copy=True) for k, v in arrays.items()}
            so = sys.stdout
            sys.stdout = io.StringIO()
            vals = []
            try:
                with warnings.catch_warnings():
                    warnings.simplefilter("ignore")
                    for rep in range(2):
                        eq = tokamak.TokamakEquilibrium(arrays["R1D"], arrays["Z1D"], arrays["psi2D"], arrays["psi1D"], arrays["fpol1D"], pressure=arrays["pressure"], wall=list(wall), make_regions=False, settings=dict(opts))
                        probe = numpy.linspace(psi1d.min(), psi1d.max(), 7) * (-1.0 if opt.get("reverse_current") else 1.0) / (2 * numpy.pi if opt.get("psi_divide_twopi") else 1.0)
                        vals.append((numpy.array(eq.fpol(probe)), numpy.array(eq.pressure(probe)), numpy.array(eq.fpolprime(probe)), float(eq.psi_axis)))
            except Exception as e:
                sys.stdout = so
                bad.append(dict(options=opt, psi_sign=sign, problem="constructor raised %r" % e))
                continue
            finally:
                sys.stdout = so
            n += 1
            changed = [k for k in arrays if not numpy.array_equal(numpy.asarray(arrays[k]), keep[k])]
            if changed:
                bad.append(dict(options=opt, psi_sign=sign, problem="caller's arrays modified", arrays=changed))
            if not all(numpy.allclose(a, b, rtol=0, atol=0, equal_nan=True) for a, b in zip(vals[0][:3], vals[1][:3])) or vals[0][3] != vals[1][3]:
                bad.append(dict(options=opt, psi_sign=sign, problem="second build from the same arrays gives different fpol/pressure/psi_axis"))
            if list(wall) != list(gb.tokamak_inputs(c)[5]):
                bad.append(dict(options=opt, problem="caller's wall list modified"))
    S.static_vc("frame[native]", TARGETS[0], "building an equilibrium leaves the caller's arrays unchanged and a second build from them is identical (%d option sets x psi sign)" % n, not bad, detail=repr(bad[:3]), kind="native", model=bad[0] if bad else None)


def provenance(S):
    t0 = time.time()
    cmd = [sys.executable, os.path.join(ROOT, "bounded", "provenance.py"), REPO]
    logf = os.path.join(ROOT, ".cache", "prov.%d.log" % os.getpid())
    os.makedirs(os.path.dirname(logf), exist_ok=True)
    with open(logf, "w") as lf:
        p = subprocess.Popen(cmd, stdout=lf, stderr=subprocess.STDOUT, start_new_session=True)
        try:
            p.wait(timeout=1500)
        except subprocess.TimeoutExpired:
            import signal

            os.killpg(p.pid, signal.SIGKILL)
    txt = open(logf).read()
    os.remove(logf)
    res = None
    for line in txt.splitlines():
        if line.startswith("RESULT "):
            res = json.loads(line[7:])
    ok = res is not None and not res["problems"]
    S.bounded.append(dict(name="determinism and provenance through the command-line entry points", evaluations=3 if res else 0, distinct_nontrivial=3 if res else 0,
                          rule="geqdsk written from the analytic LSN example -> hypnotoad_geqdsk.main twice (compared variable by variable, bit-exact) -> hypnotoad_recreate_inputs.main -> hypnotoad_geqdsk.main on the recreated inputs (compared); distinct = generations",
                          bound="one configuration (orthogonal LSN, spline, fpol and pressure profiles, limiter wall from the file)", samples=[res] if res else [], failures=(res or {}).get("problems", ["harness produced no result: " + txt[-400:]]), wall_s=round(time.time() - t0, 1)))  # fmt: skip
    if not ok:
        S.static_vc("bounded:provenance", "hypnotoad.core.mesh:BoutMesh.writeGridfile", "two generations identical; grid regenerated from its embedded inputs identical", False, detail=repr((res or {}).get("problems", txt[-600:]))[:1500], kind="bounded-native", model=res or dict(log=txt[-600:]))


def embedding_block(S):
    """The statements of BoutMesh.writeGridfile that embed the inputs (sliced mechanically:
    from `inputs_string = ...` to the write of the geqdsk text), run on option sets whose values
    are distinct tokens: the YAML holds EVERY key of the three evaluated option sets with its
    value, mesh options taking precedence, and the geqdsk text is written unchanged."""
    import types

    import yaml

    from hypnotoad.core import mesh as M

    src = textwrap.dedent(inspect.getsource(M.BoutMesh.writeGridfile))
    fdef = ast.parse(src).body[0]
    body = [n for n in fdef.body if isinstance(n, ast.With)][0].body
    start = next((i for i, st in enumerate(body) if isinstance(st, ast.Assign) and any(isinstance(t, ast.Name) and t.id == "inputs_string" for t in st.targets)), None)
    end = next((i for i, st in enumerate(body) if isinstance(st, ast.If) and "geqdsk_input" in ast.unparse(st.test)), None)
    ok_slice = start is not None and end is not None and end > start
    S.static_vc("embedding", "hypnotoad.core.mesh:BoutMesh.writeGridfile", "the input-embedding statements of writeGridfile are found", ok_slice, kind="ast-frame")
    if not ok_slice:
        return
    f = ast.FunctionDef(name="_embed", args=ast.arguments(posonlyargs=[], args=[ast.arg(arg="self"), ast.arg(arg="f")], kwonlyargs=[], kw_defaults=[], defaults=[]), body=body[start : end + 1], decorator_list=[], type_params=[])
    mod = ast.Module(body=[f], type_ignores=[])
    ast.fix_missing_locations(mod)
    loc = {}
    exec(compile(mod, "<vc:writeGridfile[embedding]>", "exec"), M.__dict__, loc)
    S.extraction.append(dict(function="BoutMesh.writeGridfile[embedding]", sliced="statements %d..%d of the with-block (inputs_string ... geqdsk text), compiled as a function of (self, f); nothing dropped" % (start, end)))

    class Opts(dict):
        def as_table(self):
            return "\n".join("%s = %r" % kv for kv in sorted(self.items()))

    eqo = Opts(shared=1.5, eq_only="e", expr_default=0.25, flag=True, lst=[1.0, 2.5])
    nono = Opts(nonorthogonal_x=0.125, nonorthogonal_none=None)
    mesho = Opts(shared=1.5, mesh_only=7, flag=True)
    text = "  EFIT  line one\n 1.000000000E+00-2.5E-01\nlast line without newline"
    me = types.SimpleNamespace(equilibrium=types.SimpleNamespace(user_options=eqo, nonorthogonal_options=nono, geqdsk_input=text, geqdsk_filename="g012345"), user_options=mesho, version="v", git_hash=None, git_diff=None)
    out, attrs = {}, {}
    fh = types.SimpleNamespace(write=lambda k, v: out.__setitem__(k, v), write_file_attribute=lambda k, v: attrs.__setitem__(k, v))
    bad = []
    try:
        loc["_embed"](me, fh)
        back = yaml.safe_load(out.get("hypnotoad_inputs_yaml", ""))
        want = dict(eqo)
        want.update(nono)
        want.update(mesho)
        if back != want:
            bad.append(dict(problem="YAML does not load back to the union of the three evaluated option sets", got=repr(back), want=repr(want)))
        if out.get("hypnotoad_input_geqdsk_file_contents") != text:
            bad.append(dict(problem="geqdsk text not embedded byte for byte"))
        for k in list(eqo) + list(nono) + list(mesho):
            if k not in out.get("hypnotoad_inputs", ""):
                bad.append(dict(problem="option %s missing from the human-readable table" % k))
        if attrs.get("hypnotoad_geqdsk_filename") != "g012345":
            bad.append(dict(problem="geqdsk file name attribute missing"))
    except Exception as e:
        bad.append(dict(problem="embedding block raised %r" % e))
    S.static_vc("embedding", "hypnotoad.core.mesh:BoutMesh.writeGridfile", "hypnotoad_inputs_yaml loads back (safe_load) to every evaluated option of equilibrium, non-orthogonal and mesh sets; geqdsk text and file name embedded unchanged", not bad, detail=repr(bad[:3]), kind="native", model=bad[0] if bad else None)


def build(S):
    embedding_block(S)
    S.under_contract("hypnotoad.core.mesh:BoutMesh.writeGridfile")
    S.under_contract(*TARGETS)
    S.under_contract("hypnotoad.scripts.hypnotoad_recreate_inputs:main", "hypnotoad.scripts.hypnotoad_geqdsk:main")
    S.assume("the frame analysis is syntactic and conservative about aliasing through views; it does not follow arrays into callees (each listed callee is analysed on its own) nor into scipy/numpy")
    S.assume("bounded: determinism and regeneration are executed for one configuration per tier entry; floating-point reproducibility across machines is out of scope")
    frame_obligations(S)
    globals_obligations(S)
    class_state_obligations(S)
    S.under_contract("hypnotoad.core.equilibrium:Equilibrium.resetNonorthogonalOptions")
    reset_recorded(S)
    # the inputs embedded in the file are the MESH's options: they regenerate the grid only if the mesh
    # was made to agree with the equilibrium on every shared option, omitted ones included
    from . import C12

    S.under_contract(C12.FN_M)
    C12.option_consistency_classes(S)
    native_frame(S)


def post(S):
    provenance(S)
