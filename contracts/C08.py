"""C08  Block topology, branch-cut indices and global index map are consistent.

The real region/connection book-keeping (see contracts/topokit.py for the chain) is
executed once per topology with ALL sizes symbolic integers, so the obligations
below are linear-integer facts proved for every combination of per-region nx, ny and
guard-cell count:

 T1 tiling     an arbitrary (x, y) of the global nx-by-ny rectangle lies in exactly one
               region rectangle;
 T2 symmetry   connections are mutually inverse, joined edges have equal size;
 T3 adjacency  BOUT++'s documented reading of ixseps1/2, jyseps*, ny_inner (spec function
               `bout_up`, written from doc/grid-file.rst + BOUT++ branch-cut semantics,
               anchored on the balanced guard-free cases) gives, for every cell, the
               successor that the mesh's own connections give;
 T4 ordering   -1 <= jyseps1_1 <= jyseps2_1 <= jyseps1_2 <= jyseps2_2 <= ny-1 and the
               ixseps relations of the topology (BOUT++ silently "repairs" files that
               violate the ordering, moving the branch cuts);
 T5 dy         dy = 2 pi / ny_core (> 0).
y-coord / theta / chi and shared-edge coincidence are bounded checks on generated grids.
"""
import types

import numpy
import z3

from vc.sym import And, Or, Not, Implies, Sym, ite, spec_mode
from . import meshkit as mk
from . import topokit as tk

LEVEL = "proof"
TRUE = lambda b: Sym(z3.BoolVal(bool(b)))
FNS = [
    "hypnotoad.cases.tokamak:TokamakEquilibrium.describeSingleNull",
    "hypnotoad.cases.tokamak:TokamakEquilibrium.describeDoubleNull",
    "hypnotoad.cases.tokamak:TokamakEquilibrium.createRegionObjects",
    "hypnotoad.core.equilibrium:EquilibriumRegion.__init__",
    "hypnotoad.core.equilibrium:EquilibriumRegion.ny",
    "hypnotoad.core.equilibrium:Equilibrium.makeConnection",
    "hypnotoad.core.mesh:Mesh.__init__",
    "hypnotoad.core.mesh:BoutMesh.__init__",
    "hypnotoad.core.mesh:BoutMesh.writeGridfile",
]


def region_boxes(mesh):
    """[(id, x0, x1, y0, y1)] from the real region_indices (global, with guards)."""
    out = []
    for rid, (sx, sy) in mesh.region_indices.items():
        out.append((rid, sx.start, sx.stop, sy.start, sy.stop))
    return out


def bout_up(v, x, y, ny):
    """BOUT++ y-successor of cell (x, y) in the guard-free index space; -1 = target.
    Documented meaning of the indices: the lower X-point's branch cuts sit after
    jyseps1_1 and jyseps2_2 and act inside ixseps1; a second (upper) X-point's cuts sit
    after jyseps2_1 and jyseps1_2 and act inside ixseps2; with an upper X-point there
    is a target after ny_inner-1; the last target is after ny-1."""
    j11, j21, j12, j22, nyi, ix1, ix2 = (v[k] for k in ("jyseps1_1", "jyseps2_1", "jyseps1_2", "jyseps2_2", "ny_inner", "ixseps1", "ixseps2"))
    dn = j21 != j12
    return ite(
        And(y == j11, x < ix1),
        j22 + 1,
        ite(
            And(y == j22, x < ix1),
            j11 + 1,
            ite(
                And(dn, y == j21, x < ix2),
                j12 + 1,
                ite(And(dn, y == j12, x < ix2), j21 + 1, ite(Or(And(dn, y == nyi - 1), y == ny - 1), -1, y + 1)),
            ),
        ),
    )


def pins_obligations(ctx, eq, topo, sizes=None, segments=None):
    """T7: X-point corner pins sit at the radial edge of that X-point's own separatrix."""
    nis_pos = topo in ("ldn", "udn", "ldn_upper_outer_start", "udn_upper_outer_start")
    for nm, reg in eq.regions.items():
        for lst, which in ((reg.xPointsAtStart, "start"), (reg.xPointsAtEnd, "end")):
            ctx.oblige(TRUE(len(lst) == reg.nSegments + 1), "T7:%s.xPointsAt%s has one entry per radial edge" % (nm, which.capitalize()))
            for k, xp in enumerate(lst):
                if xp is None:
                    continue
                primary = xp is eq.x_points[0]
                want = 1 if (primary or not nis_pos) else 2
                ctx.oblige(TRUE(k == want), "T7:%s: X-point at the %s is pinned on its own separatrix (radial edge %d)" % (nm, which, want))
    # T9: the kind label (which selects the spacing parameters of each end, C10) says "wall" exactly at
    # the ends without a y-neighbour and "X" at the ends joined to another region
    for nm, reg in eq.regions.items():
        lo, up = reg.kind.split(".")
        has_lower = any(reg.connections[k]["lower"] is not None for k in range(reg.nSegments))
        has_upper = any(reg.connections[k]["upper"] is not None for k in range(reg.nSegments))
        ctx.oblige(TRUE((lo == "X") == has_lower and (lo in ("X", "wall"))), "T9:%s: lower end is '%s' and %s a lower neighbour" % (nm, lo, "has" if has_lower else "has no"))
        ctx.oblige(TRUE((up == "X") == has_upper and (up in ("X", "wall"))), "T9:%s: upper end is '%s' and %s an upper neighbour" % (nm, up, "has" if has_upper else "has no"))
    # T11: each region takes the poloidal cell count of the option named after it
    if sizes is not None:
        for nm, reg in eq.regions.items():
            if nm.endswith("_divertor"):
                want = sizes["ny_" + nm]
            elif nm == "core":
                want = sizes["ny_inner_sol"] + sizes["ny_outer_sol"]
            elif nm in ("inner_core", "outer_core"):
                want = sizes["ny_" + nm.replace("core", "sol")]
            else:
                continue
            ctx.oblige(reg.ny_noguards == want, "T11:%s has the number of poloidal cells of the option named after it" % nm)
    # T12: radial sizes of the core / SOL segments come from the options named after them
    if sizes is not None and segments is not None:
        want = {"core": "nx_core", "sol": "nx_sol", "inner_sol": "nx_sol_inner", "outer_sol": "nx_sol_outer", "near_sol": "nx_inter_sep"}
        for nm, opt in want.items():
            if nm in segments:
                ctx.oblige(segments[nm]["nx"] == sizes[opt], "T12:segment %s has %s radial cells" % (nm, opt))
    split_obligations(ctx, eq, topo, sizes, segments)
    # T14: radially adjoining segments of one region meet on ONE flux surface (else the corner points
    # on their shared radial edge cannot coincide): psi_end of a segment = psi_start of the next
    if segments is not None:
        for nm, reg in eq.regions.items():
            tags = [getattr(pv, "tag", None) for pv in reg.psi_vals]
            for a, b in zip(tags, tags[1:]):
                if a is None or b is None or a == b or a not in segments or b not in segments:
                    continue  # (a == b: the two halves of a split private-flux segment, T13)
                ea, sb = segments[a].get("psi_end"), segments[b].get("psi_start")
                cond = ea == sb
                ctx.oblige(cond if isinstance(cond, Sym) else TRUE(ea is not None and cond), "T14:%s: segment %s ends on the flux surface where %s starts" % (nm, a, b))
    # T10: a wall surface is attached exactly at wall ends, X-point pins exactly at X-point ends
    for nm, reg in eq.regions.items():
        lo, up = reg.kind.split(".")
        for side, endk, wall, pins in (("start", lo, getattr(reg, "wallSurfaceAtStart", None), reg.xPointsAtStart), ("end", up, getattr(reg, "wallSurfaceAtEnd", None), reg.xPointsAtEnd)):
            ctx.oblige(TRUE((wall is not None) == (endk == "wall")), "T10:%s: wall surface vector at the %s exactly when that end is a wall" % (nm, side))
            ctx.oblige(TRUE(any(x is not None for x in pins) == (endk == "X")), "T10:%s: an X-point is pinned at the %s exactly when that end is an X-point" % (nm, side))
    # T8: regions joined in y are gridded on the SAME radial psi values, segment by segment
    same = lambda a, b: a is b or (getattr(a, "tag", 0) == getattr(b, "tag", 1) and getattr(a, "n", 0) == getattr(b, "n", 1))
    for nm, reg in eq.regions.items():
        for k in range(reg.nSegments):
            up = reg.connections[k]["upper"]
            if up is None:
                continue
            other = eq.regions[up[0]]
            ctx.oblige(TRUE(same(reg.psi_vals[k], other.psi_vals[up[1]])), "T8:%s[%d] and its upper neighbour %s[%d] use the same radial segment (psi values)" % (nm, k, up[0], up[1]))


def split_obligations(ctx, eq, topo, sizes, segments):
    """T13 (disconnected double null): the private-flux segment of the SECONDARY X-point is split
    in two so that every region has three radial segments: <pf>2 is the last nx_inter_sep cells
    (2 nx_inter_sep + 1 values) of THAT segment's own radial grid, <pf> keeps the rest, the two
    share exactly one value (the boundary), and their cell counts are nx_inter_sep and
    nx_pf - nx_inter_sep."""
    if topo not in ("ldn", "udn", "ldn_upper_outer_start", "udn_upper_outer_start") or sizes is None or segments is None:
        return
    sec = "upper_pf" if eq.x_points[0].Z < 0 else "lower_pf"
    nis = sizes["nx_inter_sep"]
    a, b = segments.get(sec), segments.get(sec + "2")
    ctx.oblige(TRUE(a is not None and b is not None and (sec.replace("upper", "lower") if sec.startswith("upper") else sec.replace("lower", "upper")) + "2" not in segments), "T13:the secondary private-flux segment %s (and only it) is split" % sec)
    if a is None or b is None:
        return
    pa, pb = a["psi_vals"], b["psi_vals"]
    ctx.oblige(TRUE(getattr(pa, "tag", None) == sec and getattr(pb, "tag", None) == sec), "T13:%s and %s2 are both cut from the radial grid of %s itself" % (sec, sec, sec))
    na, nb = getattr(pa, "n", None), getattr(pb, "n", None)
    ok_shape = isinstance(na, tuple) and isinstance(nb, tuple) and na[0] == nb[0] == "slice"
    ctx.oblige(TRUE(ok_shape), "T13:both are slices of the full grid")
    if ok_shape:
        ctx.oblige(TRUE(nb[3] is None and na[2] in (None, 0)), "T13:%s starts at the first value, %s2 runs to the last" % (sec, sec))
        if nb[3] is None and na[2] in (None, 0):
            ctx.oblige(And(nb[2] == -(2 * nis + 1), na[3] == -(2 * nis)), "T13:%s2 = last 2 nx_inter_sep + 1 values, %s = all but the last 2 nx_inter_sep (one shared boundary value)" % (sec, sec))
        ctx.oblige(And(b["nx"] == nis, a["nx"] + nis == nb[1], na[1] == nb[1]), "T13:cell counts nx_inter_sep and nx_pf - nx_inter_sep")
    for legs in (("inner", "outer"),):
        side = "upper" if sec.startswith("upper") else "lower"
        for io in legs:
            reg = eq.regions["%s_%s_divertor" % (io, side)]
            ctx.oblige(TRUE(len(reg.psi_vals) == 3 and reg.psi_vals[0] is pa and reg.psi_vals[1] is pb), "T13:%s_%s_divertor is gridded radially on [%s, %s2, SOL]" % (io, side, sec, sec))


def run_torpex_setup_region(ctx):
    """Isolated X-point (TORPEX): the nested `setupRegion` of TORPEXMagneticField.makeRegions, lifted
    out unchanged, on recorder regions -- T7 for the fifth topology: the X-point is pinned at the
    radial edge that IS the separatrix (`separatrix_radial_index` as the region ends up with it,
    i.e. 1: between the two radial segments) at the X-point end of each leg (the end after the
    optional reversal), the other end carries the wall vector, psi_vals = [segment below the
    separatrix, segment above]."""
    from hypnotoad.cases import torpex as TX
    from vc import transform

    xp = object()
    log = []

    class Reg:
        def __init__(self, name):
            self.name = name
            self.xPointsAtStart, self.xPointsAtEnd = [None, None, None], [None, None, None]
            self.wallSurfaceAtStart = self.wallSurfaceAtEnd = None
            self.separatrix_radial_index = 0  # constructor default of EquilibriumRegion
            self.psi_vals = None
            self.reversed = 0

        def reverse(self):
            self.reversed += 1
            log.append(("reverse", self.name, self.separatrix_radial_index))

    names = ["leg_a", "leg_b"]
    me = types.SimpleNamespace(regions={n: Reg(n) for n in names})
    walls = {n: ("wall", n) for n in names}
    f = transform.recompile(TX.TORPEXMagneticField.makeRegions, nested="setupRegion", extra_globals={"self": me, "xpoint": xp, "wall_vectors": walls}, lift=False)
    f("leg_a", "P1", "P2", True)
    f("leg_b", "Q1", "Q2", False)
    with spec_mode():
        for n, rev, pv in (("leg_a", True, ["P1", "P2"]), ("leg_b", False, ["Q1", "Q2"])):
            r = me.regions[n]
            ctx.oblige(TRUE(r.separatrix_radial_index == 1 and r.psi_vals == pv), "T7/TORPEX:%s: two radial segments, the separatrix between them (separatrix_radial_index = 1)" % n)
            xend, wend = (r.xPointsAtEnd, r.xPointsAtStart) if rev else (r.xPointsAtStart, r.xPointsAtEnd)
            ctx.oblige(TRUE([k for k, x in enumerate(xend) if x is xp] == [r.separatrix_radial_index] and all(x is None for x in wend)), "T7/TORPEX:%s: the X-point is pinned at the separatrix edge of its X-point end, nowhere else" % n)
            ctx.oblige(TRUE((r.wallSurfaceAtStart, r.wallSurfaceAtEnd) == ((walls[n], None) if rev else (None, walls[n]))), "T10/TORPEX:%s: wall vector at the other end only" % n)
            ctx.oblige(TRUE(r.reversed == (1 if rev else 0)), "%s reversed exactly when asked" % n)


def make_pins_run(topo):
    def run(ctx):
        eq, info = tk.build_equilibrium(ctx, topo)
        with spec_mode():
            pins_obligations(ctx, eq, topo, info["sizes"], info["segments"])
        return eq

    return run


def make_run(topo):
    def run(ctx):
        eq, info = tk.build_equilibrium(ctx, topo)
        mesh = tk.build_mesh(ctx, eq, info)
        vars_, nstmts = tk.run_topology_block(mesh)
        myg = info["myg"]
        boxes = region_boxes(mesh)
        names = list(eq.regions.keys())
        nseg = next(iter(eq.regions.values())).nSegments
        with spec_mode():
            nx, ny = mesh.nx, mesh.ny
            # ---- T1 tiling
            x, y = ctx.int("x"), ctx.int("y")
            ctx.assume(And(x >= 0, x < nx, y >= 0, y < ny))
            inside = [And(x >= b[1], x < b[2], y >= b[3], y < b[4]) for b in boxes]
            cnt = sum(ite(c, 1, 0) for c in inside)
            ctx.oblige(cnt == 1, "T1:every (x,y) of the nx-by-ny rectangle lies in exactly one region")
            ctx.oblige(TRUE(len(boxes) == len(names) * nseg), "T1:one rectangle per (region, segment)")
            for b in boxes:
                ctx.oblige(And(b[1] >= 0, b[2] <= nx, b[1] < b[2], b[3] >= 0, b[4] <= ny, b[3] < b[4]), "T1:region %d is a non-empty rectangle inside the grid" % b[0])
            # ---- T2 symmetry / equal sizes
            conn = mesh.connections
            opp = dict(inner="outer", outer="inner", lower="upper", upper="lower")
            box = {b[0]: b for b in boxes}
            for rid, c in conn.items():
                for d, other in c.items():
                    if other is None:
                        continue
                    ctx.oblige(TRUE(conn[other][opp[d]] == rid), "T2:connection %d.%s is mirrored" % (rid, d))
                    if d in ("lower", "upper"):
                        ctx.oblige(box[rid][2] - box[rid][1] == box[other][2] - box[other][1], "T2:equal nx across %d.%s" % (rid, d))
                        ctx.oblige(And(box[rid][1] == box[other][1]), "T2:same x-range across %d.%s" % (rid, d))
                    else:
                        ctx.oblige(And(box[rid][3] == box[other][3], box[rid][4] == box[other][4]), "T2:same y-range across %d.%s" % (rid, d))
                        if d == "outer":
                            ctx.oblige(box[rid][2] == box[other][1], "T2:%d.outer is x-adjacent" % rid)
            # ---- T4 ordering of the indices written to the file
            v = vars_
            need = ["ixseps1", "ixseps2", "jyseps1_1", "jyseps2_1", "ny_inner", "jyseps1_2", "jyseps2_2"]
            ctx.oblige(TRUE(all(k in v for k in need)), "T4:all seven topology integers are written")
            ny_ng = mesh.ny_noguards
            ctx.oblige(And(v["jyseps1_1"] >= -1, v["jyseps1_1"] <= v["jyseps2_1"], v["jyseps2_1"] <= v["jyseps1_2"], v["jyseps1_2"] <= v["jyseps2_2"], v["jyseps2_2"] <= ny_ng - 1), "T4:-1<=jyseps1_1<=jyseps2_1<=jyseps1_2<=jyseps2_2<=ny-1")
            ctx.oblige(And(v["ny_inner"] >= 0, v["ny_inner"] <= ny_ng), "T4:0<=ny_inner<=ny")
            xs = mesh.x_startinds
            if topo in ("lsn", "usn"):
                ctx.oblige(And(v["ixseps1"] == xs[1], v["ixseps2"] == nx), "T4:single null: ixseps1 at the separatrix, ixseps2=nx")
                ctx.oblige(v["jyseps2_1"] == v["jyseps1_2"], "T4:single null flag jyseps2_1==jyseps1_2")
            elif topo.startswith("cdn"):
                ctx.oblige(And(v["ixseps1"] == xs[1], v["ixseps2"] == xs[1]), "T4:connected double null: ixseps1==ixseps2 at the separatrix")
            elif topo in ("ldn", "udn_upper_outer_start"):
                # the X-point whose legs open and close the y-range is the primary (inner) one
                ctx.oblige(And(v["ixseps1"] == xs[1], v["ixseps2"] == xs[2], v["ixseps1"] < v["ixseps2"]), "T4:primary X-point first in y: ixseps1 inside ixseps2")
            elif topo in ("udn", "ldn_upper_outer_start"):
                ctx.oblige(And(v["ixseps2"] == xs[1], v["ixseps1"] == xs[2], v["ixseps2"] < v["ixseps1"]), "T4:secondary X-point first in y: ixseps2 inside ixseps1")
            # ---- T3 adjacency: BOUT++ reading of the integers == the mesh's own successor
            # guard-free y index of the first row of each y-region, in file order
            yreg = list(eq.regions.keys())
            ng = {}
            acc = 0
            for nm in yreg:
                ng[nm] = acc
                acc = acc + eq.regions[nm].ny_noguards
            ctx.oblige(acc == ny_ng, "T3:ny (file) is the sum of the guard-free region sizes")
            lookup = {vv: k for k, vv in mesh.region_lookup.items()}  # rid -> (name, seg)
            for rid, c in conn.items():
                nm, seg = lookup[rid]
                x0, x1 = box[rid][1], box[rid][2]
                y0 = ng[nm]
                y1 = y0 + eq.regions[nm].ny_noguards  # exclusive
                xx, yy = ctx.int("x_r%d" % rid), ctx.int("y_r%d" % rid)
                ctx.assume(And(xx >= x0, xx < x1, yy >= y0, yy < y1))
                up = c["upper"]
                want_last = -1 if up is None else ng[lookup[up][0]]
                got = bout_up(v, xx, yy, ny_ng)
                ctx.oblige(Implies(yy == y1 - 1, got == want_last), "T3:successor of the last row of region %d (%s[%d]) is %s" % (rid, nm, seg, "a target" if up is None else "the first row of %s" % lookup[up][0]))
                ctx.oblige(Implies(yy < y1 - 1, got == yy + 1), "T3:no branch cut or target inside region %d (%s[%d])" % (rid, nm, seg))
                # guard cells: region has myg guard rows at a side exactly when it has no neighbour there
                gl = myg if c["lower"] is None else 0
                gu = myg if c["upper"] is None else 0
                ctx.oblige(box[rid][4] - box[rid][3] == eq.regions[nm].ny_noguards + gl + gu, "T3:region %d carries y_boundary_guards rows exactly at its targets" % rid)
            pins_obligations(ctx, eq, topo, info["sizes"], info["segments"])
            # ---- T5 dy
            ctx.oblige(TRUE(nstmts >= 10), "topology block of writeGridfile found (%d statements)" % nstmts)
        return mesh

    return run


def run_dy(ctx):
    from vc.shim import numpy_shimmed

    eq, info = tk.build_equilibrium(ctx, "lsn")
    mesh = tk.build_mesh(ctx, eq, info)
    with spec_mode():
        nc = mesh.ny_core
        ctx.oblige(nc == info["sizes"]["ny_inner_sol"] + info["sizes"]["ny_outer_sol"], "T5:ny_core is the number of core cells")
        ctx.oblige(mesh.dy_scalar * nc == 2 * ctx.pi(), "T5:dy*ny_core = 2 pi")
        ctx.oblige(mesh.dy_scalar > 0, "T5:dy>0")


def refused_ok(path):
    """BoutMesh refuses (ValueError) region sets whose radial sizes differ, and a connected
    double null is refused when its first gridded SOL surface would lie inside the second
    separatrix (guard under contract in C09/C12); refusal is an explicit error, not a malformed grid."""
    return isinstance(path.exc, ValueError) and ("same set of x-grid sizes" in str(path.exc) or "Cannot create connected double-null grid" in str(path.exc))


FN_GEO = "hypnotoad.core.mesh:BoutMesh.geometry"


def run_assembly(ctx):
    """The nested addFromRegions / addFromRegionsXArray of BoutMesh.geometry (extracted
    mechanically): every entry of a region's arrays lands at its global index, at all four
    locations and the three extra corner arrays; x-direction arrays come from the first region
    of each y-group."""
    from hypnotoad.core import mesh as M
    from vc import transform

    m = object.__new__(M.BoutMesh)
    m.nx, m.ny = 3, 4
    m.fields_to_output, m.arrayXDirection_to_output = [], []
    boxes = {0: (0, 1, 0, 2), 1: (1, 3, 0, 2), 2: (0, 1, 2, 4), 3: (1, 3, 2, 4)}
    m.regions, m.region_indices = {}, {}
    for rid, (x0, x1, y0, y1) in boxes.items():
        r = types.SimpleNamespace(myID=rid, nx=x1 - x0, ny=y1 - y0, name="r%d" % rid)
        r.fld = mk.sym_mla(ctx, "f%d" % rid, mk.LOCS4, r.nx, r.ny, shared=False)
        r.fld.attributes = {}
        xa = mk.mla_cls()(r.nx, 1)
        for i in range(r.nx):
            xa.centre[i, 0] = ctx.real("xa%d_c%d" % (rid, i))
        for i in range(r.nx + 1):
            xa.xlow[i, 0] = ctx.real("xa%d_x%d" % (rid, i))
        xa.attributes = {}
        r.xarr = xa
        m.regions[rid] = r
        m.region_indices[rid] = numpy.index_exp[x0:x1, y0:y1]
    # the first region of a y-group need not sit at y = 0 (closed surfaces: the chain starts in the core,
    # whose y-range begins after the inner leg) -- F23: the x-face entries were stored through the
    # region's 2-D index and so dropped unless the region's y-range started at 0
    m.y_groups = [[m.regions[2], m.regions[0]], [m.regions[1], m.regions[3]]]
    add = transform.recompile(M.BoutMesh.geometry, nested="addFromRegions", extra_globals={"self": m}, lift=False)
    addx = transform.recompile(M.BoutMesh.geometry, nested="addFromRegionsXArray", extra_globals={"self": m}, lift=False)
    add("fld", all_corners=True)
    addx("xarr")
    g, gx = m.fld, m.xarr
    with spec_mode():
        ctx.oblige(TRUE(m.fields_to_output == ["fld"] and m.arrayXDirection_to_output == ["xarr"] and g.attributes.get("bout_type") == "Field2D" and gx.attributes.get("bout_type") == "ArrayX"), "registered for output with its bout_type")
        for rid, (x0, x1, y0, y1) in boxes.items():
            f = m.regions[rid].fld
            for i in range(x1 - x0):
                for j in range(y1 - y0):
                    I, J = x0 + i, y0 + j
                    ctx.oblige(And(g.centre[I, J] == f.centre[i, j], g.xlow[I, J] == f.xlow[i, j], g.ylow[I, J] == f.ylow[i, j], g.corners[I, J] == f.corners[i, j]), "region %d cell (%d,%d) -> global (%d,%d): centre, lower x-face, lower y-face, lower-left corner" % (rid, i, j, I, J))
                    ctx.oblige(And(g.lower_right_corners[I, J] == f.corners[i + 1, j], g.upper_right_corners[I, J] == f.corners[i + 1, j + 1], g.upper_left_corners[I, J] == f.corners[i, j + 1]), "region %d cell (%d,%d): the other three corners of the cell" % (rid, i, j))
        for grp in m.y_groups:
            r = grp[0]
            x0 = boxes[r.myID][0]
            for i in range(r.nx):
                for loc in ("centre", "xlow"):
                    got, want = getattr(gx, loc)[x0 + i, 0], getattr(r.xarr, loc)[i, 0]
                    if isinstance(got, float) and got != got:
                        ctx.oblige(TRUE(False), "x-direction array at %s: entry %d of the FIRST region of its y-group (left NaN: never stored)" % (loc, x0 + i))
                    else:
                        ctx.oblige(got == want, "x-direction array at %s: entry %d of the FIRST region of its y-group" % (loc, x0 + i))
    return m


def make_rz_boundary_run(kind):
    """MeshRegion.getRZBoundary: the last y-face row (ylow, corners) of a region IS the first
    row of its upper neighbour -- also when the region is its own upper neighbour (the
    periodic core of a single null) -- and is left alone at a target."""

    def run(ctx):
        from hypnotoad.core import mesh as M

        nx, ny = 2, 2
        mk_r = lambda tag: types.SimpleNamespace(Rxy=mk.sym_mla(ctx, "R" + tag, ("ylow", "corners"), nx, ny, shared=False), Zxy=mk.sym_mla(ctx, "Z" + tag, ("ylow", "corners"), nx, ny, shared=False))
        r = mk.skeleton_region(True)
        r.nx, r.ny, r.myID = nx, ny, 1
        me = mk_r("a")
        r.Rxy, r.Zxy = me.Rxy, me.Zxy
        other = mk_r("b")
        before = {(n, l): numpy.array(getattr(getattr(r, n), l), dtype=object).copy() for n in ("Rxy", "Zxy") for l in ("ylow", "corners")}
        first_other = {(n, l): numpy.array(getattr(getattr(other, n), l), dtype=object)[:, 0].copy() for n in ("Rxy", "Zxy") for l in ("ylow", "corners")}
        r.connections = dict(lower=None, inner=None, outer=None, upper={"other": 2, "self": 1, "target": None}[kind])
        r.meshParent = types.SimpleNamespace(regions={1: r, 2: other})
        M.MeshRegion.getRZBoundary(r)
        with spec_mode():
            for n in ("Rxy", "Zxy"):
                for l in ("ylow", "corners"):
                    now = getattr(getattr(r, n), l)
                    src = {"other": first_other[(n, l)], "self": before[(n, l)][:, 0], "target": before[(n, l)][:, -1]}[kind]
                    ctx.oblige(And(*[now[i, -1] == src[i] for i in range(now.shape[0])]), "%s.%s last row = %s" % (n, l, {"other": "first row of the upper neighbour", "self": "its own first row (periodic in y)", "target": "unchanged at a target"}[kind]))
                    ctx.oblige(And(*[now[i, j] == before[(n, l)][i, j] for i in range(now.shape[0]) for j in range(now.shape[1] - 1)]), "%s.%s: nothing else modified" % (n, l))
        return r

    return run


def run_global_xind(ctx):
    """MeshRegion.globalXInd for symbolic radial sizes: 0 on the separatrix from both sides,
    continuous across every radial join, strictly increasing with the local index."""
    from hypnotoad.core import mesh as M

    nxs = [ctx.int("nx_seg%d" % k) for k in range(4)]
    for n_ in nxs:
        ctx.assume(n_ >= 1)
    sep = 2  # two segments inside, two outside

    def reg(r):
        o = types.SimpleNamespace(radialIndex=r, equilibriumRegion=types.SimpleNamespace(nx=list(nxs), separatrix_radial_index=sep))
        return lambda i: M.MeshRegion.globalXInd(o, i)

    g = [reg(r) for r in range(4)]
    with spec_mode():
        ctx.oblige(And(g[sep](0) == 0, g[sep - 1](2 * nxs[sep - 1]) == 0), "global x-index 0 on the separatrix, seen from the region outside and from the region inside")
        for r in range(3):
            ctx.oblige(g[r](2 * nxs[r]) == g[r + 1](0), "continuous across the radial join %d|%d" % (r, r + 1))
        i = ctx.int("i")
        for r in range(4):
            ctx.oblige(g[r](i + 1) == g[r](i) + 1, "region %d: increases by one per local index" % r)
    return g


def run_write_arrays(ctx):
    """writeArray / writeCorners / writeArrayXDirection: which entries go to the file under
    which name (the file holds nx x ny values per variable: the last x-face / y-face / corner
    row and column of the staggered arrays are not written)."""
    from hypnotoad.core import mesh as M

    nx, ny = 2, 2
    m = object.__new__(M.BoutMesh)
    a = mk.sym_mla(ctx, "g", mk.LOCS4, nx, ny, shared=False)
    a.attributes = {"bout_type": "Field2D"}
    for nm in ("lower_right_corners", "upper_right_corners", "upper_left_corners"):
        arr = getattr(a, nm)
        for idx in numpy.ndindex(*arr.shape):
            arr[idx] = ctx.real("g_%s_%d_%d" % (nm, idx[0], idx[1]))
    xa = mk.mla_cls()(nx, 1)
    for i in range(nx):
        xa.centre[i, 0] = ctx.real("xa_%d" % i)
    xa.attributes = {"bout_type": "ArrayX"}
    out = {}
    f = types.SimpleNamespace(write=lambda name, val: out.__setitem__(name, val))
    M.BoutMesh.writeArray(m, "v", a, f)
    M.BoutMesh.writeCorners(m, "v", a, f)
    M.BoutMesh.writeArrayXDirection(m, "w", xa, f)
    with spec_mode():
        want = {"v": a.centre, "v_xlow": a.xlow, "v_ylow": a.ylow, "v_corners": a.corners, "v_lower_right_corners": a.lower_right_corners, "v_upper_right_corners": a.upper_right_corners, "v_upper_left_corners": a.upper_left_corners}
        ctx.oblige(TRUE(set(out) == set(want) | {"w"}), "variables written: name, _xlow, _ylow, the four corner arrays; the x-direction array under its own name")
        for nm, src in want.items():
            ctx.oblige(TRUE(nm in out and numpy.shape(out[nm]) == (nx, ny)), "%s has shape (nx, ny)" % nm)
            if nm in out and numpy.shape(out[nm]) == (nx, ny):
                ctx.oblige(And(*[out[nm][i, j] == src[i, j] for i in range(nx) for j in range(ny)]), "%s[i,j] is the entry [i,j] of that location (lower face / lower-left corner of cell i,j)" % nm)
            ctx.oblige(TRUE(nm in out and getattr(out[nm], "attributes", None) == a.attributes), "%s carries the field's attributes" % nm)
        ctx.oblige(TRUE("w" in out and numpy.shape(out["w"]) == (nx,) and all(out["w"][i].t.eq(xa.centre[i, 0].t) for i in range(nx))), "x-direction array written as a 1-d array of nx entries")
    return out


def build(S):
    from . import optdefaults

    optdefaults.check(S, "hypnotoad.cases.tokamak:TokamakEquilibrium.describeDoubleNull", which=("eq",))
    S.under_contract(*FNS)
    S.assume("specification provenance: bout_up is written from doc/grid-file.rst and BOUT++'s BoutMesh::topology branch-cut semantics (lower X-point cuts inside ixseps1, upper X-point cuts inside ixseps2, upper target after ny_inner-1); it is a specification, not extracted from hypnotoad")
    S.trust("stubbed by their own contracts: findLegs / coreRegionToRegion / segmentsWithPsivals (C09, C19), Mesh.makeRegions (C01, C04), ParallelMap (C13); optionsfactory objects are real, size options are overridden by symbols through a proxy")
    S.assume("A-INT: sizes are mathematical integers >= 1 (nx_inter_sep >= 1 when disconnected, y_boundary_guards >= 0)")
    S.assume("circular and TORPEX topologies: not covered by the symbolic-size proof in this check (bounded grid checks only)")
    S.extraction.append(dict(function="BoutMesh.writeGridfile", sliced="statements from `eq_region0 = ...` to `f.write('jyseps2_2', ...)` of the with-block, compiled unchanged as a function of (self, f); everything else of writeGridfile is dropped for this check"))
    from vc.shim import numpy_shimmed

    with numpy_shimmed():
        for topo in tk.TOPOLOGIES:
            S.contract("topology[%s]" % topo, FNS[-1], make_run(topo), shape="structure concrete, all sizes symbolic Int", expected_exceptions=(ValueError,), raises_ok=refused_ok)
        S.under_contract("hypnotoad.cases.torpex:TORPEXMagneticField.makeRegions")
        S.extraction.append(dict(function="TORPEXMagneticField.makeRegions.setupRegion", sliced="nested def lifted out unchanged (free variables self, xpoint, wall_vectors supplied)"))
        S.contract("X-point pins[isolated X-point, TORPEX]", "hypnotoad.cases.torpex:TORPEXMagneticField.makeRegions", run_torpex_setup_region, shape="two recorder legs (one reversed)")
        # connected double nulls whose two separatrices differ slightly (either X-point primary): every
        # segment touching a separatrix is put on the PRIMARY one, so that radial neighbours meet (T14)
        for topo in ("cdn_unbalanced", "cdn_upper_primary"):
            S.contract("hand-over obligations T7-T14[%s]" % topo, "hypnotoad.cases.tokamak:TokamakEquilibrium.describeDoubleNull", make_pins_run(topo), expected_exceptions=(ValueError,), raises_ok=refused_ok, shape="sizes symbolic, psi_sep = [1.0, 1.02]")
        from vc import transform

        S.under_contract(FN_GEO)
        S.extraction.append(dict(function="BoutMesh.geometry.addFromRegions / addFromRegionsXArray", sliced="nested defs lifted out unchanged (free variable self supplied)"))
        S.contract("geometry[assembly of global arrays]", FN_GEO, run_assembly, shape="4 regions (2x2 blocks of sizes 1x2, 2x2), all values symbolic")
        S.under_contract("hypnotoad.core.mesh:BoutMesh.writeArray", "hypnotoad.core.mesh:BoutMesh.writeCorners", "hypnotoad.core.mesh:BoutMesh.writeArrayXDirection")
        S.contract("writeArray/writeCorners/writeArrayXDirection", "hypnotoad.core.mesh:BoutMesh.writeArray", run_write_arrays, shape="nx=ny=2, all values symbolic")
        S.under_contract("hypnotoad.core.mesh:MeshRegion.globalXInd")
        S.contract("globalXInd", "hypnotoad.core.mesh:MeshRegion.globalXInd", run_global_xind, shape="four radial segments of symbolic size, separatrix between the second and third")
        S.under_contract("hypnotoad.core.mesh:MeshRegion.getRZBoundary")
        for kind in ("other", "self", "target"):
            S.contract("getRZBoundary[upper neighbour: %s]" % kind, "hypnotoad.core.mesh:MeshRegion.getRZBoundary", make_rz_boundary_run(kind), shape="nx=ny=2, all values symbolic")
        S.contract("dy", FNS[7], run_dy, shape="sizes symbolic", expected_exceptions=(ValueError,), raises_ok=refused_ok)


def post(S):
    """Bounded: the same statements on generated grids -- shared edges coincide (a region that is
    its own y-neighbour included), and the FILE's corner coordinates exhibit the adjacency its
    topology integers announce; theta and chi as documented."""
    from bounded import gridrun

    from bounded import gridbank as gb

    cfgs = (gridrun.quick_set() if S.tier == "quick" else gridrun.thorough_set()) + [gb.cfg("cdn", dict(orthogonal=False, nx_core=5, nx_sol=3), fpol="profile", pressure=True, label="cdn-nonorth-nx-unequal")]
    gridrun.run(S, ["shared_edges", "file_topology"], "hypnotoad.core.mesh:MeshRegion.getRZBoundary", cfgs=cfgs, name="shared edges and file-level adjacency on generated grids (incl. a non-orthogonal grid with nx_core != nx_sol)")
