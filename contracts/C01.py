"""C01  Every grid point lies on its flux surface.

Deductive part (contract chain, real code): PsiContour.refinePointNewton (residual bound
on every normal return, all iteration counts), PsiContour.refinePoint (method dispatch
and fall-through), MeshRegion.fillRZ (the four location maps and the X-point corner
pinning), MeshRegion.geometry1's psixy = psi(Rxy, Zxy) (proved in C03, referenced).
The numerical statement itself -- the refined points of the generated grid are within
tolerance of their flux surface -- depends on solve_ivp / brentq / the FineContour
fixed point and is a bounded check on generated grids.
"""
import types
from contracts.meshkit import Opts as _Opts  # noqa: E402

import numpy
import z3

from vc.shim import numpy_shimmed, patched
from vc.sym import And, Or, Not, Implies, Sym, ite, spec_mode
from . import meshkit as mk
from .C03 import UF

LEVEL = "proof"
FN_NEWTON = "hypnotoad.core.equilibrium:PsiContour.refinePointNewton"
FN_REFINE = "hypnotoad.core.equilibrium:PsiContour.refinePoint"
FN_FILL = "hypnotoad.core.mesh:MeshRegion.fillRZ"
TRUE = lambda b: Sym(z3.BoolVal(bool(b)))


def ab(x):
    return ite(x >= 0, x, -x)


def run_newton(ctx):
    from hypnotoad.core import equilibrium as E

    psi = UF(ctx, "psi", 2, congruence=False)
    c = object.__new__(E.PsiContour)
    c.psival = ctx.real("psival")
    p = E.Point2D(ctx.real("pR"), ctx.real("pZ"))
    t = E.Point2D(ctx.real("tR"), ctx.real("tZ"))
    atol = ctx.real("atol")
    ctx.assume(atol > 0)
    ctx.light_axioms = True
    res = E.PsiContour.refinePointNewton(c, p, t, psi=lambda R, Z: psi.one(R, Z), width=None, atol=atol)
    with spec_mode():
        resid = psi.one(res.R, res.Z) - c.psival
        if res is p:
            ctx.oblige(ab(resid) < atol * ab(c.psival), "unchanged point: |psi(p)-psival| < atol*|psival|")
        else:
            ctx.oblige(ab(resid) < atol, "refined point: |psi(result)-psival| < atol")
    return res


def newton_raise_ok(path):
    from hypnotoad.core import equilibrium as E

    return isinstance(path.exc, E.SolutionError)


def run_refine_dispatch(ctx):
    """Dispatch: methods tried in order, SolutionError falls through, the result of the
    first method that returns is returned unchanged; all fail -> SolutionError; psival None -> p."""
    from hypnotoad.core import equilibrium as E

    c = object.__new__(E.PsiContour)
    c.psival = 1.0
    c.Rrange, c.Zrange = (1.0, 2.0), (-1.0, 1.0)
    P = E.Point2D(1.5, 0.0)
    c.user_options = _Opts(refine_width=0.01, refine_atol=1e-8, refine_methods=["integrate+newton", "line"])
    log = []
    marks = {k: object() for k in ("newton", "line", "integrate")}

    def mk_(name, fail):
        def f(p, tangent, *, psi, width, atol):
            log.append((name, p, width, atol))
            if fail:
                raise E.SolutionError(name)
            return marks[name]

        return f

    results = {}
    for fails in ((), ("newton",), ("newton", "line"), ("integrate",), ("integrate", "line")):
        log.clear()
        c.refinePointNewton = mk_("newton", "newton" in fails)
        c.refinePointLinesearch = mk_("line", "line" in fails)
        c.refinePointIntegrate = mk_("integrate", "integrate" in fails)
        try:
            results[fails] = ("ok", c.refinePoint(P, "T", psi=None), list(log))
        except E.SolutionError:
            results[fails] = ("raise", None, list(log))
    ctx.oblige(TRUE(results[()][1] is marks["newton"] and [l[0] for l in results[()][2]] == ["integrate", "newton"] and results[()][2][1][1] is marks["integrate"]), "integrate+newton: Newton starts from the integrated point; its result is returned")
    ctx.oblige(TRUE(results[("newton",)][1] is marks["line"]), "a failing method falls through to the next one")
    ctx.oblige(TRUE(results[("newton", "line")][0] == "raise"), "all methods failing raises SolutionError (never an unrefined point silently)")
    ctx.oblige(TRUE(results[("integrate",)][1] is marks["line"] and [l[0] for l in results[("integrate",)][2]] == ["integrate", "line"]), "integrate failing skips its Newton step")
    ctx.oblige(TRUE(all(l[2] == 0.01 and l[3] == 1e-8 for l in results[()][2])), "width/atol default to the refine_* options")
    # a point OUTSIDE the (R, Z) box of the equilibrium data (boundary guard cells beyond a target at
    # the edge of the psi grid) is refined like any other: it is a grid point, the file stores it
    # with its surface's psi
    log.clear()
    c.refinePointNewton, c.refinePointLinesearch, c.refinePointIntegrate = mk_("newton", False), mk_("line", False), mk_("integrate", False)
    for P_out in (E.Point2D(2.5, 0.0), E.Point2D(1.5, -1.25), E.Point2D(0.5, 3.0)):
        try:
            got = c.refinePoint(P_out, "T", psi=None)
        except Exception as e:  # noqa
            got = e
        ctx.oblige(TRUE(got is marks["newton"]), "a point outside the equilibrium's (R,Z) box is refined too (not returned as it came): (%s, %s)" % (P_out.R, P_out.Z))
    # the surface psi = 0 (flux measured from the separatrix, or a psi grid value that happens to be
    # 0) is a flux surface like any other: only "no psival at all" switches refinement off
    import numpy as _np

    for pv in (0.0, -0.0, 0, _np.float64(0.0), _np.zeros(1)[0], -1.0, 1e-300, -1e-300):
        c.psival = pv
        try:
            got = c.refinePoint(P, "T", psi=None)
        except Exception as e:  # noqa
            got = e
        ctx.oblige(TRUE(got is marks["newton"]), "a contour whose psi value is %r (%s) is refined (only psival None is not)" % (pv, type(pv).__name__))
    c.psival = None
    ctx.oblige(TRUE(c.refinePoint(P, "T", psi=None) is P), "no psival: point returned unchanged")


def run_fillRZ(xp_at):
    """nx=2, ny=2; contours are lists of symbolic points."""

    def run(ctx):
        from hypnotoad.core import equilibrium as E
        from hypnotoad.core.mesh import MeshRegion

        nx, ny = 2, 2
        r = mk.skeleton_region(True)
        r.nx, r.ny = nx, ny
        P = [[E.Point2D(ctx.real("R_%d_%d" % (a, b)), ctx.real("Z_%d_%d" % (a, b))) for b in range(2 * ny + 1)] for a in range(2 * nx + 1)]
        r.contours = P
        X = E.Point2D(ctx.real("XR"), ctx.real("XZ"))
        xs, xe = [None] * (nx + 1 - 1), [None] * (nx + 1 - 1)
        # the region is one radial segment: xPoints lists are indexed radialIndex, radialIndex+1
        start, end = [None, None], [None, None]
        if xp_at == "start-inner":
            start[0] = X
        elif xp_at == "start-outer":
            start[1] = X
        elif xp_at == "end-inner":
            end[0] = X
        elif xp_at == "end-outer":
            end[1] = X
        r.equilibriumRegion = types.SimpleNamespace(xPointsAtStart=start, xPointsAtEnd=end, name="x")
        r.radialIndex = 0
        MeshRegion.fillRZ(r)
        pinned = {"start-inner": (0, 0), "start-outer": (nx, 0), "end-inner": (0, ny), "end-outer": (nx, ny)}.get(xp_at)
        with spec_mode():
            for i in range(nx):
                for j in range(ny):
                    ctx.oblige(And(r.Rxy.centre[i, j] == P[2 * i + 1][2 * j + 1].R, r.Zxy.centre[i, j] == P[2 * i + 1][2 * j + 1].Z), "centre[%d,%d]=contours[2i+1][2j+1]" % (i, j))
                for j in range(ny + 1):
                    ctx.oblige(And(r.Rxy.ylow[i, j] == P[2 * i + 1][2 * j].R, r.Zxy.ylow[i, j] == P[2 * i + 1][2 * j].Z), "ylow[%d,%d]=contours[2i+1][2j]" % (i, j))
            for i in range(nx + 1):
                for j in range(ny):
                    ctx.oblige(And(r.Rxy.xlow[i, j] == P[2 * i][2 * j + 1].R, r.Zxy.xlow[i, j] == P[2 * i][2 * j + 1].Z), "xlow[%d,%d]=contours[2i][2j+1]" % (i, j))
                for j in range(ny + 1):
                    if pinned == (i, j):
                        ctx.oblige(And(r.Rxy.corners[i, j] == X.R, r.Zxy.corners[i, j] == X.Z), "corner[%d,%d] pinned to the X-point" % (i, j))
                    else:
                        ctx.oblige(And(r.Rxy.corners[i, j] == P[2 * i][2 * j].R, r.Zxy.corners[i, j] == P[2 * i][2 * j].Z), "corners[%d,%d]=contours[2i][2j] (not pinned)" % (i, j))
        return r

    return run


def build(S):
    S.under_contract(FN_NEWTON, FN_REFINE, FN_FILL, "hypnotoad.core.mesh:MeshRegion.geometry1")
    S.assume("A-PURE: psi is a deterministic function (uninterpreted)")
    S.assume("NOT proved (bounded only): the class invariant 'every point of a contour is within tolerance of its psival' is preserved by regridding/extension; refinePointIntegrate and refinePointLinesearch (solve_ivp, brentq) carry no residual contract; FineContour convergence")
    S.assume("A-SHAPE: fillRZ proved at nx=2, ny=2 for each X-point corner position")
    with numpy_shimmed():
        S.contract("refinePointNewton", FN_NEWTON, run_newton, expected_exceptions=(Exception,), raises_ok=newton_raise_ok, shape="scalar, up to 12 iterations", max_paths=400, assume_safety="the finite-difference slope d psi/ds of the Newton step is non-zero")
        S.contract("refinePoint[dispatch]", FN_REFINE, run_refine_dispatch, shape="-")
        for xp in ("none", "start-inner", "start-outer", "end-inner", "end-outer"):
            S.contract("fillRZ[xpoint=%s]" % xp, FN_FILL, run_fillRZ(xp), shape="nx=2, ny=2")
        from . import C01_init, C08
        from . import topokit as tk

        C01_init.add(S)
        # the last y-face row of a region is overwritten with its upper neighbour's first row: the points
        # stay points of the same flux surface only if R and Z are taken from the SAME row of the SAME array
        S.under_contract("hypnotoad.core.mesh:MeshRegion.getRZBoundary")
        for kind in ("other", "self", "target"):
            S.contract("getRZBoundary[upper neighbour: %s]" % kind, "hypnotoad.core.mesh:MeshRegion.getRZBoundary", C08.make_rz_boundary_run(kind), shape="nx=ny=2, all values symbolic")
        # the only points allowed off their flux surface are the corners pinned to an X-point:
        # the pin lists name the right radial edge (the X-point's own separatrix) in every topology
        S.under_contract("hypnotoad.cases.tokamak:TokamakEquilibrium.describeDoubleNull", "hypnotoad.cases.tokamak:TokamakEquilibrium.describeSingleNull")
        S.under_contract("hypnotoad.cases.torpex:TORPEXMagneticField.makeRegions")
        S.contract("X-point pins[isolated X-point, TORPEX]", "hypnotoad.cases.torpex:TORPEXMagneticField.makeRegions", C08.run_torpex_setup_region, shape="two recorder legs (one reversed)")
        for topo in tk.TOPOLOGIES:
            S.contract("X-point pins[%s]" % topo, "hypnotoad.cases.tokamak:TokamakEquilibrium.describeDoubleNull", C08.make_pins_run(topo), expected_exceptions=(ValueError,), raises_ok=lambda p: True, shape="sizes symbolic")


def post(S):
    from bounded import gridrun

    from bounded import gridbank as gb

    cfgs = (gridrun.quick_set() if S.tier == "quick" else gridrun.thorough_set()) + [pair[1] for pair in gridrun.worker_copy_pairs(S.tier)[:2]]
    # a mesh regridded after construction (redistributePoints): its points must be back on their flux surfaces too
    cfgs.append(gb.cfg("cdn", dict(orthogonal=False), fpol="profile", pressure=True, regrid=dict(nonorthogonal_xpoint_poloidal_spacing_length=0.04, nonorthogonal_target_all_poloidal_spacing_length=0.5), label="cdn-nonorth-regridded"))
    gridrun.run(S, ["psi_on_flux_surface", "psi_vs_analytic"], "hypnotoad.core.mesh:MeshRegion.fillRZ", cfgs=cfgs, name="psi residual at every grid point of generated grids (incl. non-orthogonal grids generated with the data flow of worker processes)")
