"""Bounded stand-in for C09: numerical lattice over every branch of the real
getSmoothMonotonicGridFunc (including the Si/Ci branch and the brentq-based ones)."""
import itertools
import time

import numpy


def run(S):
    from hypnotoad.core.equilibrium import Equilibrium

    t0 = time.time()
    eq = object.__new__(Equilibrium)
    ns = [1, 2, 3, 8, 17] if S.tier == "quick" else [1, 2, 3, 4, 8, 17, 40, 101]
    ratios = [0.1, 0.5, 0.9, 0.999999, 1.0, 1.000001, 1.1, 2.0, 5.0]
    ends = [(0.9, 1.0), (1.0, 0.9), (-1.2, -0.7), (0.3, -0.4)]
    bad = []
    refused = []
    n_eval = 0
    classes = set()
    for n, (lo, up), rl, ru, which in itertools.product(ns, ends, ratios, ratios, ("lower", "upper", "both")):
        if which != "both" and ru != ratios[0]:
            continue
        mean = (up - lo) / n
        kw = {}
        if which in ("lower", "both"):
            kw["grad_lower"] = rl * mean
        if which in ("upper", "both"):
            kw["grad_upper"] = (ru if which == "both" else rl) * mean
        try:
            f = eq.getSmoothMonotonicGridFunc(n, lo, up, **kw)
        except ValueError as e:
            refused.append(dict(n=n, lower=lo, upper=up, kw=kw, error=str(e)[:80]))  # explicit refusal, not a wrong grid
            continue
        except Exception as e:
            bad.append(dict(n=n, lo=lo, up=up, kw=kw, problem="exception %r" % e))
            continue
        n_eval += 1
        scale = abs(up - lo)
        prob = []
        if abs(f(0.0) - lo) > 1e-8 * scale:
            prob.append("f(0)-lower=%g" % (f(0.0) - lo))
        if abs(f(float(n)) - up) > 1e-8 * scale:
            prob.append("f(n)-upper=%g" % (f(float(n)) - up))
        xs = numpy.linspace(0.0, n, 8 * n + 1)
        v = numpy.array([f(x) for x in xs])
        d = numpy.diff(v) * numpy.sign(up - lo)
        if not numpy.all(d > 0):
            prob.append("not strictly monotone (min step %g)" % d.min())
        h = 1e-5
        if "grad_lower" in kw:
            g = (f(h) - f(0.0)) / h
            if abs(g - kw["grad_lower"]) > 1e-3 * abs(mean) + 1e-3 * abs(kw["grad_lower"]):
                prob.append("f'(0)=%g, wanted %g" % (g, kw["grad_lower"]))
        if "grad_upper" in kw:
            g = (f(float(n)) - f(n - h)) / h
            if abs(g - kw["grad_upper"]) > 1e-3 * abs(mean) + 1e-3 * abs(kw["grad_upper"]):
                prob.append("f'(n)=%g, wanted %g" % (g, kw["grad_upper"]))
        # doubling: every original face is a face of the finer grid
        kw2 = {k: v_ / 2.0 for k, v_ in kw.items()}
        try:
            f2 = eq.getSmoothMonotonicGridFunc(2 * n, lo, up, **kw2)
            err = max(abs(f2(2.0 * i) - f(float(i))) for i in range(n + 1))
            if err > 1e-7 * scale:
                prob.append("doubling: max |f2(2i)-f1(i)|=%g" % err)
        except ValueError as e:
            # an explicit refusal of the finer grid (allowed: C12), as for the base resolution above
            refused.append(dict(n=2 * n, lower=lo, upper=up, kw=kw2, error="at doubled resolution: " + str(e)[:80]))
        except Exception as e:
            prob.append("doubling raised %r" % e)
        classes.add((which, rl < 1.0 + 1e-8, ru < 1.0 + 1e-8 if which == "both" else None, lo < up, n))
        if prob:
            bad.append(dict(n=n, lower=lo, upper=up, kw=kw, problems=prob))
    # continuity in the parameters across the branch switch
    for n, (lo, up) in itertools.product(ns[:3], ends):
        mean = (up - lo) / n
        for which in ("lower", "upper", "both"):
            vals = []
            for r in (1.0 + 1e-8 - 1e-10, 1.0 + 1e-8 + 1e-10):
                kw = {}
                if which in ("lower", "both"):
                    kw["grad_lower"] = r * mean
                if which in ("upper", "both"):
                    kw["grad_upper"] = r * mean
                try:
                    f = eq.getSmoothMonotonicGridFunc(n, lo, up, **kw)
                except Exception as e:
                    refused.append(dict(n=n, lower=lo, upper=up, kw=kw, error=str(e)[:80]))
                    continue
                vals.append(numpy.array([f(x) for x in numpy.linspace(0, n, 4 * n + 1)]))
            n_eval += 1
            if len(vals) < 2:
                continue
            jump = float(numpy.abs(vals[0] - vals[1]).max())
            if jump > 1e-6 * abs(up - lo):
                bad.append(dict(n=n, lower=lo, upper=up, which=which, problems=["jump %g across the branch switch" % jump]))
    S.bounded.append(dict(name="getSmoothMonotonicGridFunc lattice (all branches incl. Si/Ci and brentq)", evaluations=n_eval, distinct_nontrivial=len(classes),
                          rule="n x boundary orderings x end-gradient ratios (0.1..5 of the mean spacing) x {lower, upper, both}; checks end values (1e-8), strict monotonicity on an 8n-point lattice, end gradients (finite differences), doubling f_2n(2i)=f_n(i) (1e-7), continuity across the branch switch; distinct = (which, branch, ordering, n)",
                          bound="n<=%d" % max(ns), samples=[dict(n=3, lower=0.9, upper=1.0, grad_lower=0.5 * 0.1 / 3)], failures=bad[:5], refused=len(refused), refused_samples=refused[:2], wall_s=round(time.time() - t0, 1)))  # fmt: skip
    # finding F14 is identified by its input class: both end gradients given and the mean of
    # the two within (1e-8, 1e-4] above the mean spacing (the ill-conditioned Si/Ci regime)
    def near_switch(b):
        if b.get("which") == "both" and all("across the branch switch" in x for x in b.get("problems", ["x"])):
            return True  # evaluated at ratio 1+1e-8+1e-10: inside the class
        kw = b.get("kw") or {}
        if "grad_lower" not in kw or "grad_upper" not in kw or "n" not in b:
            return False
        mean = (b["upper"] - b["lower"]) / b["n"] if "upper" in b else None
        if not mean:
            return False
        r = 0.5 * (kw["grad_lower"] + kw["grad_upper"]) / mean
        return 1.0 + 1.0e-8 < r <= 1.0 + 1.0e-4

    known = [b for b in bad if near_switch(b)]
    bad = [b for b in bad if not near_switch(b)]
    S.bounded[-1]["failures"] = bad[:5]
    S.bounded[-1]["failures_in_known_class_F14"] = len(known)
    if known:
        S.static_vc("bounded:gridfunc-lattice[F14 class: both gradients, mean ratio in (1+1e-8, 1+1e-4]]", "hypnotoad.core.equilibrium:Equilibrium.getSmoothMonotonicGridFunc", "end values / end gradients accurate near the branch switch", False, detail=repr(known[:2]), kind="bounded-native", model=known[0])
    if bad:
        S.static_vc("bounded:gridfunc-lattice", "hypnotoad.core.equilibrium:Equilibrium.getSmoothMonotonicGridFunc", "end values / monotone / end gradients / doubling / continuity on the parameter lattice", False, detail=repr(bad[:3]), kind="bounded-native", model=bad[0])
