"""C03 for the analytic circular family: the field functions CircularEquilibrium exposes are
the derivatives of ITS OWN psi(R,Z), and q(r) is the documented polynomial.

Modular chain (each link a contract on the real methods, symbolic in every parameter):
  q            q(r) = a0 + a1 r^2 + a2 r^4 (option documentation), dqdr = D_r q
  psi_r        D_r psi_r = B0 r / (sqrt(1-r^2/R0^2) q(r))  (Jolliet et al., the definition the
               class quotes) and psi_r(0) = 0, for one and for two coefficients
  dpsidr_r     = that same expression (as code), d2psidr2_r = D_r dpsidr_r
  fields       with psi_r, dpsidr_r, d2psidr2_r replaced by a jet stub P, P', P'' (their
               contracts above): psi(R,Z) = P(r(R,Z)); Bp_R R = D_Z psi; Bp_Z R = -D_R psi;
               f_R, f_Z = grad psi/|grad psi|^2; the three second derivatives = D D psi
"""
import types
from contracts.meshkit import Opts as _Opts  # noqa: E402

import z3

from vc.jets import Jets
from vc.sym import And, Or, Sym, spec_mode

C_ = "hypnotoad.cases.circular:CircularEquilibrium."
TRUE = lambda b: Sym(z3.BoolVal(bool(b)))


def skeleton(ctx, ncoef):
    from hypnotoad.cases.circular import CircularEquilibrium

    eq = object.__new__(CircularEquilibrium)
    a = [ctx.real("a%d" % k) for k in range(ncoef)]
    R0, B0 = ctx.real("R0"), ctx.real("B0")
    ctx.assume(And(R0 > 0, B0 != 0, *[x > 0 for x in a]))
    eq.user_options = _Opts(q_coefficients=a, R0=R0, B0=B0)
    return eq, a, R0, B0


def q_spec(a, r):
    out = 0
    for k, c in enumerate(a):
        out = out + c * r ** (2 * k)
    return out


def make_q_run(ncoef):
    def run(ctx):
        eq, a, R0, B0 = skeleton(ctx, ncoef)
        r = ctx.real("r")
        ctx.assume(r > 0)
        q = eq.q(r)
        dq = eq.dqdr(r)
        with spec_mode():
            ctx.oblige(q == q_spec(a, r), "q(r) = a0 + a1 r^2 + a2 r^4 + ... (even powers only, as documented)")
            dspec = 0
            for k, c in enumerate(a):
                if k:
                    dspec = dspec + c * (2 * k) * r ** (2 * k - 1)
            ctx.oblige(dq == dspec, "dqdr is the derivative of that polynomial")
            if ncoef > 1:
                ctx.oblige(q == a[0] + a[1] * r, "twin: odd powers", kind="must-fail")

    return run


def make_psi_r_run(ncoef):
    def run(ctx):
        eq, a, R0, B0 = skeleton(ctx, ncoef)
        r = ctx.real("r")
        ctx.assume(And(r > 0, r < R0))
        psi = eq.psi_r(r)
        dpsi = eq.dpsidr_r(r)
        d2psi = eq.d2psidr2_r(r)
        jets = Jets(ctx, {r: {"r": 1}}, const=lambda nm: True)
        with spec_mode():
            want = B0 * r / ((1 - r * r / (R0 * R0)).sqrt() * q_spec(a, r))
            ctx.oblige(dpsi == want, "dpsidr_r = B0 r/(sqrt(1-r^2/R0^2) q(r))")
            ctx.oblige(jets.D(psi, "r") == want, "psi_r is an antiderivative of B0 r/(sqrt(1-r^2/R0^2) q(r)) [%d coefficient(s)]" % ncoef)
            ctx.oblige(d2psi == jets.D(dpsi, "r"), "d2psidr2_r = D_r dpsidr_r")
            ctx.oblige(jets.D(psi, "r") == -want, "twin: sign", kind="must-fail")
        return psi

    return run


def make_psi_axis_run(ncoef):
    def run(ctx):
        eq, a, R0, B0 = skeleton(ctx, ncoef)
        psi0 = eq.psi_r(0.0 * R0)
        with spec_mode():
            ctx.oblige(psi0 == 0, "psi_r(0) = 0 (psi_axis) [%d coefficient(s)]" % ncoef)

    return run


def run_fields(ctx):
    from hypnotoad.cases.circular import CircularEquilibrium

    eq = object.__new__(CircularEquilibrium)
    R0 = ctx.real("R0")
    R, Z = ctx.real("R"), ctx.real("Z")
    ctx.assume(And(R0 > 0, R > 0, Or(R != R0, Z != 0)))
    eq.user_options = _Opts(R0=R0, B0=ctx.real("B0"), q_coefficients=[ctx.real("a0")])
    P, P1, P2, P3 = (ctx.real(n) for n in ("P", "P1", "P2", "P3"))
    ctx.assume(P1 != 0)
    r = eq.r(R, Z)
    seen = []

    def stub(val):
        def f(x):
            seen.append(x)
            return val

        return f

    eq.psi_r, eq.dpsidr_r, eq.d2psidr2_r = stub(P), stub(P1), stub(P2)
    j0 = Jets(ctx, {R: {"R": 1}, Z: {"Z": 1}}, const=lambda nm: True)
    rR, rZ = j0.D(r, "R"), j0.D(r, "Z")
    table = {R: {"R": 1}, Z: {"Z": 1}}
    for f, df in ((P, P1), (P1, P2), (P2, P3)):
        table[f] = {"R": df * rR, "Z": df * rZ}
    jets = Jets(ctx, table, const=lambda nm: True)
    D = jets.D
    got = {n: getattr(CircularEquilibrium, n)(eq, R, Z) for n in ("psi", "f_R", "f_Z", "Bp_R", "Bp_Z", "d2psidR2", "d2psidZ2", "d2psidRdZ", "drdR", "drdZ")}
    with spec_mode():
        ctx.oblige(TRUE(all(x.t.eq(r.t) for x in seen) and len(seen) >= 8), "psi_r, dpsidr_r, d2psidr2_r are evaluated at r(R,Z) = sqrt((R-R0)^2+Z^2)")
        ctx.oblige(r * r == (R - R0) ** 2 + Z * Z, "r(R,Z)")
        psi = got["psi"]
        ctx.oblige(psi == P, "psi(R,Z) = psi_r(r(R,Z))")
        ctx.oblige(And(got["drdR"] == rR, got["drdZ"] == rZ), "drdR, drdZ are the derivatives of r(R,Z)")
        pR, pZ = D(psi, "R"), D(psi, "Z")
        ctx.oblige(got["Bp_R"] * R == pZ, "Bp_R = (dpsi/dZ)/R of the class's own psi")
        ctx.oblige(got["Bp_Z"] * R == -pR, "Bp_Z = -(dpsi/dR)/R of the class's own psi")
        g2 = pR * pR + pZ * pZ
        ctx.oblige(And(got["f_R"] * g2 == pR, got["f_Z"] * g2 == pZ), "f_R, f_Z = grad psi/|grad psi|^2")
        ctx.oblige(got["d2psidR2"] == D(pR, "R"), "d2psidR2 = D_R D_R psi")
        ctx.oblige(got["d2psidZ2"] == D(pZ, "Z"), "d2psidZ2 = D_Z D_Z psi")
        ctx.oblige(got["d2psidRdZ"] == D(pR, "Z"), "d2psidRdZ = D_Z D_R psi")
        ctx.oblige(got["Bp_R"] * R == -pZ, "twin: Bp_R sign", kind="must-fail")


def add(S):
    S.under_contract(*[C_ + n for n in ("q", "dqdr", "psi_r", "dpsidr_r", "d2psidr2_r", "psi", "f_R", "f_Z", "Bp_R", "Bp_Z", "d2psidR2", "d2psidZ2", "d2psidRdZ")])
    S.assume("CircularEquilibrium: 0 < r < R0, q coefficients > 0 (option check), B0 != 0; fields contract uses psi_r / dpsidr_r / d2psidr2_r through their own contracts (jet stub)")
    for n in (1, 2, 3):
        S.contract("circular.q[%d coef]" % n, C_ + "q", make_q_run(n), shape="scalar r, symbolic coefficients")
    for n in (1, 2):
        S.contract("circular.psi_r[%d coef]" % n, C_ + "psi_r", make_psi_r_run(n), shape="scalar r, symbolic coefficients", feas_timeout_ms=4000)
        S.contract("circular.psi_r(0)[%d coef]" % n, C_ + "psi_r", make_psi_axis_run(n), shape="symbolic coefficients", feas_timeout_ms=4000)
    S.contract("circular.fields", C_ + "Bp_R", run_fields, shape="one point (R,Z) off the axis")
