"""C16  Equivariance under reflection and field reversal of the equilibrium.

Deductive part (real code):
 * structural mirror -- the upper-single-null description produced by describeSingleNull is
   the lower-single-null one under lower<->upper with the y order reversed: region order,
   sizes, connections, radial segments (including the separatrix spacing dpsidi_sep, with
   psi_pf_lower/upper exchanged), for symbolic sizes; LDN <-> UDN ixseps swap (C08);
 * point-wise equivariance of calcMetric under (Bp, bpsign) -> -(Bp, bpsign) [psi -> -psi]
   and Bt -> -Bt [fpol -> -fpol]: magnitudes unchanged, the documented sign changes only;
 * preprocessing by reverse_current / reverse_Bt / psi_divide_twopi == passing the
   transformed arrays (C03 profile-block contract, referenced).
Bounded: pairs of complete grids (LSN vs mirrored USN with exchanged per-leg options;
+psi vs -psi; lower vs mirrored upper disconnected double null) compared cell to cell.
"""
import types

import numpy
import z3

from vc.shim import numpy_shimmed, patched
from vc.sym import And, Or, Not, Sym, ite, spec_mode
from . import meshkit as mk
from . import topokit as tk
from . import C02

LEVEL = "proof"
FN_SN = "hypnotoad.cases.tokamak:TokamakEquilibrium.describeSingleNull"
TRUE = lambda b: Sym(z3.BoolVal(bool(b)))
SWAP = {"inner_lower_divertor": "inner_upper_divertor", "outer_lower_divertor": "outer_upper_divertor", "inner_upper_divertor": "inner_lower_divertor", "outer_upper_divertor": "outer_lower_divertor", "core": "core", "lower_pf": "upper_pf", "upper_pf": "lower_pf", "sol": "sol"}


def run_mirror_sn(ctx):
    a, b = 0.9, 0.82  # different private-flux limits, exchanged in the mirror image
    lsn, il = tk.build_equilibrium(ctx, "lsn", psi_pf=(a, b))
    usn, iu = tk.build_equilibrium(ctx, "usn", psi_pf=(b, a))
    # per-leg sizes are exchanged lower<->upper
    for k in ("ny_inner_lower_divertor", "ny_outer_lower_divertor"):
        ctx.assume(il["sizes"][k] == iu["sizes"][k.replace("lower", "upper")])
    with spec_mode():
        ln, un = list(lsn.regions.keys()), list(usn.regions.keys())
        ctx.oblige(TRUE([SWAP[n] for n in ln] == un[::-1]), "USN region order is the mirrored LSN order reversed in y")
        for n in ln:
            rl, ru = lsn.regions[n], usn.regions[SWAP[n]]
            ctx.oblige(rl.ny_noguards == ru.ny_noguards, "region %s: same ny as its mirror image" % n)
            ctx.oblige(And(*[x == y for x, y in zip(rl.nx, ru.nx)]), "region %s: same radial sizes" % n)
            kl, ku = rl.kind.split("."), ru.kind.split(".")
            ctx.oblige(TRUE(kl == ku[::-1]), "region %s: kind reversed (wall.X <-> X.wall)" % n)
            for seg in range(rl.nSegments):
                cl, cu = rl.connections[seg], ru.connections[seg]
                for d, dm in (("lower", "upper"), ("upper", "lower")):
                    want = None if cl[d] is None else (SWAP[cl[d][0]], cl[d][1])
                    ctx.oblige(TRUE(cu[dm] == want), "region %s[%d]: %s connection is the mirrored %s connection" % (n, seg, d, dm))
            ctx.oblige(TRUE([x is not None for x in rl.xPointsAtStart] == [x is not None for x in ru.xPointsAtEnd] and [x is not None for x in rl.xPointsAtEnd] == [x is not None for x in ru.xPointsAtStart]), "region %s: X-point corner pins mirrored" % n)
        sl, su = il["segments"], iu["segments"]
        for nm in sl:
            s1, s2 = sl[nm], su[SWAP[nm]]
            for k in ("psi_start", "psi_end", "grad_start", "grad_end"):
                ctx.oblige(TRUE((k in s1) == (k in s2) and (k not in s1 or abs(s1[k] - s2[k]) < 1e-15)), "segment %s: %s equals that of its mirror image (separatrix spacing uses the mirrored private-flux limit)" % (nm, k))
            ctx.oblige(s1["nx"] == s2["nx"], "segment %s: nx" % nm)


def make_sign_run(orth):
    """calcMetric on a point and on its image under psi -> -psi (Bp, bpsign negate) and under
    fpol -> -fpol (Bt negates)."""
    from hypnotoad.core.mesh import MeshRegion

    MLA = mk.mla_cls()
    locs = ("centre",)

    def one(ctx, tag, sgn_p, sgn_t, base):
        r = mk.skeleton_region(orth)
        mkm = lambda v: mk.float_mla({}) if False else _mla(v)
        R, Bp, hy, Bt, s = base["R"], base["Bp"] * sgn_p, base["hy"], base["Bt"] * sgn_t, base["s"] * sgn_p
        r.Rxy, r.Bpxy, r.hy, r.Btxy = _mla(R), _mla(Bp), _mla(hy), _mla(Bt)
        r.bpsign = s
        if not orth:
            # beta is a property of the grid geometry: unchanged (C02 / native check)
            r.cosBeta, r.sinBeta = _mla(base["cb"]), _mla(base["sb"])
            r.tanBeta = r.sinBeta / r.cosBeta
        r.dphidy = r.hy * r.Btxy / (r.Bpxy * r.Rxy)
        r.DDX = lambda name: MLA(1, 1)
        r.calc_curvature = lambda: None
        MeshRegion.calcMetric(r)
        return r

    def _mla(v):
        m = MLA(1, 1)
        m.centre[...] = v
        m.ylow[...] = v
        return m

    def run(ctx):
        base = dict(R=ctx.real("R"), Bp=ctx.real("Bp"), hy=ctx.real("hy"), Bt=ctx.real("Bt"), s=ctx.real("bpsign"), cb=ctx.real("cb"), sb=ctx.real("sb"))
        ctx.assume(And(base["R"] > 0, base["hy"] > 0, base["s"] * base["Bp"] > 0, Or(base["s"] == 1, base["s"] == -1)))
        if not orth:
            ctx.assume(And(base["cb"] != 0, base["cb"] ** 2 + base["sb"] ** 2 == 1))
        r0 = one(ctx, "0", 1, 1, base)
        rp = one(ctx, "p", -1, 1, base)
        rt = one(ctx, "t", 1, -1, base)
        G = lambda r, n: getattr(r, n).centre[0, 0]
        with spec_mode():
            for n in ("g11", "g22", "g33", "g_11", "g_22", "g_33"):
                ctx.oblige(And(G(rp, n) == G(r0, n), G(rt, n) == G(r0, n)), "%s unchanged by psi->-psi and by fpol->-fpol" % n)
            ctx.oblige(And(G(rp, "J") == -G(r0, "J"), G(rt, "J") == G(r0, "J")), "J changes sign with psi only")
            for n in ("g23", "g_23"):
                ctx.oblige(G(rt, n) == -G(r0, n), "%s changes sign with fpol" % n)
                ctx.oblige(G(rp, n) == G(r0, n), "%s unchanged by psi->-psi (zShift integrates Bt/(R|Bp|))" % n)
            for n in ("g12", "g_12"):
                ctx.oblige(And(G(rp, n) == -G(r0, n), G(rt, n) == G(r0, n)), "%s follows dx -> -dx under psi->-psi, unchanged by fpol" % n)
            ctx.oblige(And(G(rp, "g13") == -G(r0, "g13"), G(rt, "g13") == -G(r0, "g13")), "g13 is odd in both reversals")

    return run


def make_cap_run(corner):
    """capBpYlowXpoint (option cap_Bp_ylow_xpoint) on a region and on its image under psi -> -psi
    (every Bp negated, bpsign negated): the capped y-face field of the image is the negative of the
    capped field -- the cap acts on |Bp| (F22: it compared signed values, so it did nothing at all
    when Bp < 0 and the two grids differed in |Bpxy_ylow|, g11, J, ... next to the X-point)."""
    from hypnotoad.core.mesh import MeshRegion

    nx, ny = 2, 2
    at_start, outer = corner

    def one(ctx, sgn, vals):
        r = mk.skeleton_region(True)
        r.nx, r.ny = nx, ny
        r.radialIndex = 0
        r.bpsign = vals["s"] * sgn
        r.Bpxy = mk.mla_cls()(nx, ny)
        r.Bpxy.centre[...] = numpy.array(vals["c"], dtype=object) * sgn
        r.Bpxy.ylow[...] = numpy.array(vals["y"], dtype=object) * sgn
        nb = types.SimpleNamespace(Bpxy=mk.mla_cls()(nx, ny))
        nb.Bpxy.centre[...] = numpy.array(vals["n"], dtype=object) * sgn
        xp = object()
        pins = [None, None]
        pins[1 if outer else 0] = xp
        r.equilibriumRegion = types.SimpleNamespace(xPointsAtStart=pins if at_start else [None, None], xPointsAtEnd=[None, None] if at_start else pins)
        r.getNeighbour = lambda face: nb
        MeshRegion.capBpYlowXpoint(r)
        return r

    def run(ctx):
        s = ctx.real("bpsign")
        ctx.assume(Or(s == 1, s == -1))
        mkv = lambda nm, shape: [[ctx.real("%s_%d_%d" % (nm, i, j)) for j in range(shape[1])] for i in range(shape[0])]
        vals = dict(s=s, c=mkv("Bp_centre", (nx, ny)), y=mkv("Bp_ylow", (nx, ny + 1)), n=mkv("Bp_neighbour", (nx, ny)))
        for k in ("c", "y", "n"):
            for row in vals[k]:
                for v in row:
                    ctx.assume(s * v >= 0 if k == "y" else s * v > 0)  # Bp has the sign bpsign (geometry1), 0 allowed at the X-point face
        before = [list(r_) for r_ in vals["y"]]
        r0 = one(ctx, 1, vals)
        r1 = one(ctx, -1, vals)
        with spec_mode():
            a, b = r0.Bpxy.ylow, r1.Bpxy.ylow
            ctx.oblige(And(*[b[i, j] == -a[i, j] for i in range(nx) for j in range(ny + 1)]), "capped Bpxy.ylow of the psi -> -psi image = minus the capped Bpxy.ylow")
            ctx.oblige(And(*[s * a[i, j] >= s * before[i][j] for i in range(nx) for j in range(ny + 1)]), "the cap never lowers |Bp|")
            j = 0 if at_start else ny
            i0 = nx - 1 if outer else 0
            jc = 0 if at_start else ny - 1
            m0, m1 = s * vals["c"][i0][jc], s * vals["n"][i0][ny - 1 if at_start else 0]
            low = ite(m0 <= m1, m0, m1)
            ctx.oblige(Or(a[i0, j] == before[i0][j], And(s * before[i0][j] < low, s * a[i0, j] == low)), "the face at the X-point is unchanged or raised in magnitude to min |Bp| of the two adjacent cell centres")
            ctx.oblige(And(*[a[i, jj] == before[i][jj] for i in range(nx) for jj in range(ny + 1) if jj != j]), "only faces at the X-point end are touched")
            ctx.oblige(And(*[b[i, jj] == a[i, jj] for i in range(nx) for jj in range(ny + 1)]), "twin: image identical", kind="must-fail")

    return run


def build(S):
    from . import optdefaults

    optdefaults.check(S, "hypnotoad.core.equilibrium:EquilibriumRegion.getSpacings", which=("eq", "nonorth"))
    mk.silence_pyplot()
    S.under_contract(FN_SN, "hypnotoad.cases.tokamak:TokamakEquilibrium.describeDoubleNull", "hypnotoad.cases.tokamak:TokamakEquilibrium.createRegionObjects", "hypnotoad.core.mesh:MeshRegion.calcMetric", "hypnotoad.core.mesh:BoutMesh.writeGridfile")
    S.assume("the geometric content of the mirror symmetry (findLegs, contours, refinement are equivariant under Z -> -Z) is NOT proved: bounded comparison of complete grids only")
    S.assume("LDN <-> UDN ixseps exchange and start_at_upper_outer: proved in C08 (T3, T4)")
    with numpy_shimmed():
        S.contract("mirror[lsn<->usn]", FN_SN, run_mirror_sn, expected_exceptions=(ValueError,), raises_ok=lambda p: True, shape="sizes symbolic")
        S.contract("calcMetric[sign equivariance, orthogonal]", "hypnotoad.core.mesh:MeshRegion.calcMetric", make_sign_run(True), expected_exceptions=(ValueError,), shape="one point")
        S.contract("calcMetric[sign equivariance, non-orthogonal]", "hypnotoad.core.mesh:MeshRegion.calcMetric", make_sign_run(False), expected_exceptions=(ValueError,), shape="one point")
        from . import C03, C09, C10

        S.under_contract(C09.FN)
        C09.add_negation(S)  # the radial psi grid of the negated flux is the negated grid

        S.under_contract(C03.FN_INIT)
        C03.add_extrapolate_preprocessed(S)

        S.under_contract(C10.FN_SQRT)
        C10.add_mirror(S)
        S.under_contract(C10.E_ + "combineSfuncs")
        S.under_contract("hypnotoad.core.mesh:MeshRegion.capBpYlowXpoint")
        for corner in ((True, False), (True, True), (False, False), (False, True)):
            S.contract("capBpYlowXpoint[psi -> -psi, X-point at the %s, %s edge]" % ("start" if corner[0] else "end", "outer" if corner[1] else "inner"), "hypnotoad.core.mesh:MeshRegion.capBpYlowXpoint", make_cap_run(corner), shape="nx=2, ny=2, symbolic fields of either sign", max_paths=400)
        # up-down mirror at the option level: each leg takes the target options named after IT (the
        # mirrored configuration sets target_*_upper_* where the original sets target_*_lower_*)
        S.under_contract(C10.E_ + "getSpacings", C10.E_ + "getTargetParameter")
        C10.spacing_selection(S)
        C10.add_combine_ranges(S)  # the transition ranges are chosen alike at the start and at the end of a region  # poloidal sqrt spacing of a region = reflected spacing of the mirrored region, guard cells included


def post(S):
    from . import C16_bounded

    C16_bounded.run(S)
