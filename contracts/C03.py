"""C03  Field and profile values at grid points agree with the equilibrium.

Real code under contract:
  MeshRegion.geometry1                      (Brxy, Bzxy, |Bpxy| and its sign, Btxy, Bxy, pressure, dx, dy)
  TokamakEquilibrium.createRegionObjects    (private-flux pressure reflection: run with CPython's
                                             real closure semantics on a disconnected double null)
  TokamakEquilibrium.__init__ profile block (sliced mechanically: sign reversal / 2 pi scaling /
                                             extrapolated pressure continuity)
  TokamakEquilibrium.fpol / fpolprime / pressure / Bt_axis
"""
import ast
import inspect
import textwrap
import types
from contracts.meshkit import Opts as _Opts  # noqa: E402

import numpy
import z3

from vc.shim import numpy_shimmed, patched
from vc.sym import And, Or, Not, Implies, Sym, ite, spec_mode, lift
from . import meshkit as mk
from . import topokit as tk

LEVEL = "proof"
FN_G1 = "hypnotoad.core.mesh:MeshRegion.geometry1"
FN_CRO = "hypnotoad.cases.tokamak:TokamakEquilibrium.createRegionObjects"
FN_INIT = "hypnotoad.cases.tokamak:TokamakEquilibrium.__init__"
FN_FPOL = "hypnotoad.cases.tokamak:TokamakEquilibrium.fpol"
FN_FPP = "hypnotoad.cases.tokamak:TokamakEquilibrium.fpolprime"
FN_P = "hypnotoad.cases.tokamak:TokamakEquilibrium.pressure"
FN_BTA = "hypnotoad.cases.tokamak:TokamakEquilibrium.Bt_axis"
TRUE = lambda b: Sym(z3.BoolVal(bool(b)))


class UF:
    """Uninterpreted pure function of real arguments (A-PURE): one symbol per distinct
    argument tuple, congruent (same arguments -> same value, by z3 axioms)."""

    def __init__(self, ctx, name, arity=1, congruence=True):
        self.ctx, self.name, self.arity = ctx, name, arity
        self.apps = []
        self.congruence = congruence

    def one(self, *args):
        ts = [z3.simplify(lift(a).t if not z3.is_expr(a) else a) for a in args]
        ts = [z3.ToReal(t) if z3.is_int(t) else t for t in ts]
        for a2, v2 in self.apps:
            if all(x.eq(y) for x, y in zip(ts, a2)):
                return Sym(v2)
        v = z3.Real("%s!%d" % (self.name, next(self.ctx.counter)))
        if self.congruence:
            for a2, v2 in self.apps:
                self.ctx.axiom(z3.Implies(z3.And(*[x == y for x, y in zip(ts, a2)]), v == v2), "%s is a function" % self.name)
        self.apps.append((ts, v))
        return Sym(v)

    def __call__(self, *args):
        from hypnotoad.core.multilocationarray import MultiLocationArray

        if isinstance(args[0], MultiLocationArray):
            out = MultiLocationArray(args[0].nx, args[0].ny)
            for l in mk.LOCS4:
                arrs = [getattr(a, "_%s_array" % l) for a in args]
                if all(a is not None for a in arrs):
                    setattr(out, l, self(*arrs))
            return out
        if isinstance(args[0], numpy.ndarray):
            out = numpy.empty(args[0].shape, dtype=object)
            for idx in numpy.ndindex(*out.shape):
                out[idx] = self.one(*[a[idx] for a in args])
            return out
        return self.one(*args)


# ----------------------------------------------------------------------------- geometry1
def run_geometry1(ctx, neighbours=False):
    from hypnotoad.core.mesh import MeshRegion

    nx, ny = 1, 3
    MLA = mk.mla_cls()
    r = mk.skeleton_region(True)
    r.nx, r.ny = nx, ny
    r.Rxy = mk.sym_mla(ctx, "R", mk.LOCS4, nx, ny, shared=False)
    r.Zxy = mk.sym_mla(ctx, "Z", mk.LOCS4, nx, ny, shared=False)
    for l in mk.LOCS4:
        for v in getattr(r.Rxy, l).flat:
            ctx.assume(v > 0)
    r.psi_vals = numpy.array([ctx.real("pv%d" % k) for k in range(2 * nx + 1)], dtype=object)
    # grid points are distinct symbols and every look-up below uses the same syntactic
    # arguments, so the (quadratically many) congruence instances are not needed here
    psi, bpr, bpz, fpol, press = (UF(ctx, n, a, congruence=False) for n, a in (("psi", 2), ("BpR", 2), ("BpZ", 2), ("fpol", 1), ("press", 1)))
    dy = ctx.real("dy")
    region_obj = types.SimpleNamespace(pressure=press)
    r.equilibriumRegion.name = "reg"
    r.meshParent = types.SimpleNamespace(dy_scalar=dy, equilibrium=types.SimpleNamespace(psi=psi, Bp_R=bpr, Bp_Z=bpz, fpol=fpol, regions={"reg": region_obj}))
    called = []
    r.calcPoloidalDistance = lambda: called.append(1)
    r.connections = dict(inner=None, outer=None, lower=None, upper=None)
    nb = {}
    if neighbours:
        for side in ("inner", "outer"):
            nb[side] = types.SimpleNamespace(psi_vals=numpy.array([ctx.real("%s_pv%d" % (side, k)) for k in range(3)], dtype=object))
        r.connections = dict(inner=1, outer=2, lower=None, upper=None)
        r.meshParent.regions = {1: nb["inner"], 2: nb["outer"]}
    with patched((__import__("hypnotoad.core.mesh", fromlist=["x"]), "print", lambda *a, **k: None)):
        MeshRegion.geometry1(r)
    with spec_mode():
        s = r.bpsign
        ctx.oblige(TRUE(s in (1.0, -1.0)), "bpsign is +-1")
        ctx.oblige(Implies(r.psi_vals[0] > r.psi_vals[-1], TRUE(s == -1.0)), "bpsign=-1 iff psi decreases outwards (a)")
        ctx.oblige(Implies(Not(r.psi_vals[0] > r.psi_vals[-1]), TRUE(s == 1.0)), "bpsign=-1 iff psi decreases outwards (b)")
        j = ny // 2
        dotg = bpr.one(r.Rxy.centre[-1, j], r.Zxy.centre[-1, j]) * (r.Rxy.centre[-1, j + 1] - r.Rxy.centre[-1, j - 1]) + bpz.one(r.Rxy.centre[-1, j], r.Zxy.centre[-1, j]) * (r.Zxy.centre[-1, j + 1] - r.Zxy.centre[-1, j - 1])
        ctx.oblige(Implies(dotg < 0, TRUE(s == -1.0)), "normal return: Bp along increasing y negative => bpsign=-1")
        ctx.oblige(Implies(dotg >= 0, TRUE(s == 1.0)), "normal return: Bp along increasing y non-negative => bpsign=+1")
        for l in mk.LOCS4:
            R, Z = getattr(r.Rxy, l), getattr(r.Zxy, l)
            for idx in numpy.ndindex(*R.shape):
                tag = "@%s%s" % (l, list(idx))
                P = psi.one(R[idx], Z[idx])
                br, bz = bpr.one(R[idx], Z[idx]), bpz.one(R[idx], Z[idx])
                G = lambda n: getattr(getattr(r, n), l)[idx]
                ctx.oblige(G("psixy") == P, "psixy=psi(R,Z)" + tag)
                ctx.oblige(G("Brxy") == br, "Brxy=Bp_R(R,Z)" + tag)
                ctx.oblige(G("Bzxy") == bz, "Bzxy=Bp_Z(R,Z)" + tag)
                ctx.oblige(G("Bpxy") * G("Bpxy") == br * br + bz * bz, "Bpxy^2=Brxy^2+Bzxy^2" + tag)
                ctx.oblige(s * G("Bpxy") >= 0, "sign(Bpxy)=bpsign, one sign for the whole region" + tag)
                ctx.oblige(G("Btxy") * R[idx] == fpol.one(P), "Btxy=fpol(psixy)/R" + tag)
                ctx.oblige(And(G("Bxy") >= 0, G("Bxy") * G("Bxy") == G("Bpxy") * G("Bpxy") + G("Btxy") * G("Btxy")), "Bxy=sqrt(Bpxy^2+Btxy^2)" + tag)
                ctx.oblige(G("pressure") == press.one(P), "pressure=region.pressure(psixy)" + tag)
                ctx.oblige(G("dy") == dy, "dy=dy_scalar" + tag)
        for i in range(nx):
            for jj in range(ny):
                ctx.oblige(r.dx.centre[i, jj] == r.psi_vals[2 * i + 2] - r.psi_vals[2 * i], "dx.centre[%d,%d]=psi face difference" % (i, jj))
            for jj in range(ny + 1):
                ctx.oblige(r.dx.ylow[i, jj] == r.psi_vals[2 * i + 2] - r.psi_vals[2 * i], "dx.ylow[%d,%d]=psi face difference" % (i, jj))
        ctx.oblige(TRUE(called == [1]), "calcPoloidalDistance called once")
        # dx at the x-faces: psi difference between the adjacent cell centres
        pv = r.psi_vals
        for arr, nm in ((r.dx.xlow, "xlow"), (r.dx.corners, "corners")):
            for i in range(1, nx):
                ctx.oblige(arr[i, 0] == pv[2 * i + 1] - pv[2 * i - 1], "dx.%s[%d]=psi centre difference" % (nm, i))
            if neighbours:
                ctx.oblige(arr[0, 0] == (pv[1] - pv[0]) + (nb["inner"].psi_vals[-1] - nb["inner"].psi_vals[-2]), "dx.%s[0]=sum of the two half cells at the inner join" % nm)
                ctx.oblige(arr[nx, 0] == (pv[-1] - pv[-2]) + (nb["outer"].psi_vals[1] - nb["outer"].psi_vals[0]), "dx.%s[nx]=sum of the two half cells at the outer join" % nm)
            else:
                ctx.oblige(arr[0, 0] == 2 * (pv[1] - pv[0]), "dx.%s[0]=cell width at the inner grid boundary" % nm)
                ctx.oblige(arr[nx, 0] == 2 * (pv[-1] - pv[-2]), "dx.%s[nx]=cell width at the outer grid boundary" % nm)
    return r


def g1_raises_ok(path):
    return isinstance(path.exc, ValueError) and "Sign of Bp" in str(path.exc)


# ----------------------------------------------------------------------------- createRegionObjects
def run_cro(topo):
    def run(ctx):
        # real describeDoubleNull/createRegionObjects via topokit, but with a pressure profile
        from hypnotoad.cases import tokamak as T

        p = UF(ctx, "p_spl", 1)
        captured = {}
        orig = T.TokamakEquilibrium.createRegionObjects

        def with_pressure(self, allr, segments):
            self.p_spl = p
            self.f_psi_sign = ctx.real("f_psi_sign")
            ctx.assume(Or(self.f_psi_sign == 1, self.f_psi_sign == -1))
            # the ORDER of the 1D profile table (axis->edge or edge->axis, both accepted through
            # f_psi_sign) is not the radial direction of psi: left free here
            self.psi_increasing = ctx.bool("profile_table_ascending")
            captured["allr"] = allr
            return orig(self, allr, segments)

        with patched((T.TokamakEquilibrium, "createRegionObjects", with_pressure)):
            eq, info = tk.build_equilibrium(ctx, topo)
        psi = ctx.real("psi_q")
        sgn = 1.0 if eq.psi_sep[0] - eq.psi_axis > 0 else -1.0
        with spec_mode():
            n_leg = 0
            for name, reg in eq.regions.items():
                spec = captured["allr"][name]
                got = reg.pressure(psi)
                if "wall" in spec["kind"]:
                    n_leg += 1
                    lp = spec["psi"]  # THIS region's separatrix psi
                    want = p.one((lp + sgn * abs(psi - lp)) * eq.f_psi_sign)
                    ctx.oblige(got == want, "leg %s: pressure(psi)=p(psi reflected about ITS OWN separatrix)" % name)
                else:
                    ctx.oblige(got == p.one(psi * eq.f_psi_sign), "core %s: pressure(psi)=p(psi)" % name)
            ctx.oblige(TRUE(n_leg >= 2), "legs present")

    return run


# ----------------------------------------------------------------------------- __init__ profile block
def profile_block():
    """Statements of TokamakEquilibrium.__init__ from the one after `self.user_options = ...`
    (in the pinned source: `if self.user_options.reverse_current`) up to (not including) `self.magneticFunctionsFromGrid(...)`, compiled as a function."""
    from hypnotoad.cases import tokamak as T

    src = textwrap.dedent(inspect.getsource(T.TokamakEquilibrium.__init__))
    tree = ast.parse(src)
    fdef = tree.body[0]
    start = end = None
    for i, st in enumerate(fdef.body):
        # from the first statement after the options object exists (anything the constructor
        # computes from the profile arrays before transforming them belongs to the block)
        if start is None and isinstance(st, ast.Assign) and "user_options_factory.create" in ast.unparse(st.value):
            start = i + 1
        if end is None and isinstance(st, ast.Expr) and "magneticFunctionsFromGrid" in ast.unparse(st):
            end = i
    if start is None or end is None:
        raise LookupError("profile block not found")
    body = fdef.body[start:end]
    ret = ast.Return(value=ast.Call(func=ast.Name(id="locals", ctx=ast.Load()), args=[], keywords=[]))
    args = ["self", "psi2D", "psi1D", "fpol1D", "pressure", "psi_axis_gfile", "psi_bdry_gfile"]
    f = ast.FunctionDef(name="_profile_block", args=ast.arguments(posonlyargs=[], args=[ast.arg(arg=a) for a in args], kwonlyargs=[], kw_defaults=[], defaults=[]), body=body + [ret], decorator_list=[], type_params=[])
    mod = ast.Module(body=[f], type_ignores=[])
    ast.fix_missing_locations(mod)
    loc = {}
    exec(compile(mod, "<vc:TokamakEquilibrium.__init__[profiles]>", "exec"), T.__dict__, loc)
    return loc["_profile_block"], len(body)


def run_extrapolate(increasing):
    def run(ctx):
        from hypnotoad.cases import tokamak as T

        fn, n = profile_block()
        m = 4
        psi1D = numpy.array([ctx.real("psi1D_%d" % k) for k in range(m)], dtype=object)
        press = numpy.array([ctx.real("p_%d" % k) for k in range(m)], dtype=object)
        fpol = numpy.array([ctx.real("f_%d" % k) for k in range(m)], dtype=object)
        psi2D = numpy.array([[ctx.real("psi2D")]], dtype=object)
        psi_out = ctx.real("psi_sol")
        for k in range(m - 1):
            ctx.assume(psi1D[k + 1] > psi1D[k] if increasing else psi1D[k + 1] < psi1D[k])
        ctx.assume(press[-1] > 0)
        ctx.assume(psi_out > psi1D[-1] if increasing else psi_out < psi1D[-1])
        me = types.SimpleNamespace(user_options=_Opts(reverse_current=False, psi_divide_twopi=False, reverse_Bt=False, extrapolate_profiles=True, psi_sol=psi_out, psi_sol_inner=psi_out))
        ctx.light_axioms = True
        with patched((T.warnings, "warn", lambda *a, **k: None)):
            out = fn(me, psi2D, psi1D, fpol, press, None, None)
        p_ext, psi_ext, f_ext = out["pressure"], out["psi1D"], out["fpol1D"]
        with spec_mode():
            ctx.oblige(TRUE(len(p_ext) == len(psi_ext) == len(f_ext) and len(psi_ext) > m), "profiles extended consistently")
            for k in range(m):
                ctx.oblige(And(p_ext[k] == press[k], psi_ext[k] == psi1D[k], f_ext[k] == fpol[k]), "original profile point %d unchanged" % k)
            ctx.oblige(psi_ext[-1] == psi_out, "extended psi reaches the outermost gridded psi")
            ctx.oblige(And(*[f_ext[k] == fpol[-1] for k in range(m, len(f_ext))]), "fpol constant beyond the last profile point")
            # continuity: the extension is p0*exp((psi-psi0)*p'/p0): at distance d from the edge
            # the exponent is d*p'/p0, so it tends to 0 (value p0) as psi -> psi0
            p0 = press[-1]
            dp = (press[-1] - press[-2]) / (psi1D[-1] - psi1D[-2])
            for k in (m, m + 1, len(p_ext) - 1):
                arg = exp_arg(ctx, p_ext[k], p0)
                ctx.oblige(TRUE(arg is not None), "extended pressure[%d] is p0*exp(.)" % k)
                if arg is not None:
                    ctx.oblige(arg * p0 == (psi_ext[k] - psi1D[-1]) * dp, "extended pressure[%d]: exponent=(psi-psi_edge)*dpdpsi/p0 (continuous at the edge)" % k)
        return out

    return run


def make_extrapolate_preprocessed_run(rc, tp):
    """extrapolate_profiles together with reverse_current / psi_divide_twopi: the profiles the
    constructor ends up with are those it gets from the already transformed arrays with the
    options off (C16: only psi changes sign / scale; the pressure profile does not)."""

    def run(ctx):
        from hypnotoad.cases import tokamak as T

        fn, n = profile_block()
        m = 3
        mk_ = lambda nm: numpy.array([ctx.real("%s_%d" % (nm, k)) for k in range(m)], dtype=object)
        psi1D, press, fpol = mk_("psi1D"), mk_("p"), mk_("f")
        psi2D = numpy.array([[ctx.real("psi2D")]], dtype=object)
        s = -1 if rc else 1
        twopi = 2 * ctx.pi() if tp else 1
        tr = lambda a: numpy.array([s * x / twopi for x in a.reshape(-1)], dtype=object).reshape(a.shape)
        psi1D_t = tr(psi1D)
        psi_out = ctx.real("psi_sol")  # in the units / sign of the transformed psi, as the options are
        for k in range(m - 1):
            ctx.assume(psi1D_t[k + 1] > psi1D_t[k])
        ctx.assume(And(press[-1] > 0, psi_out > psi1D_t[-1]))
        ctx.light_axioms = True
        opts = lambda a, b: types.SimpleNamespace(user_options=_Opts(reverse_current=a, psi_divide_twopi=b, reverse_Bt=False, extrapolate_profiles=True, psi_sol=psi_out, psi_sol_inner=psi_out))
        with patched((T.warnings, "warn", lambda *a, **k: None)):
            A = fn(opts(rc, tp), psi2D.copy(), psi1D.copy(), fpol.copy(), press.copy(), None, None)
            B = fn(opts(False, False), tr(psi2D), psi1D_t.copy(), fpol.copy(), press.copy(), None, None)
        with spec_mode():
            ctx.oblige(TRUE(len(A["psi1D"]) == len(B["psi1D"]) and len(A["pressure"]) == len(B["pressure"]) == len(A["psi1D"])), "same extended length through the option and from pre-transformed arrays")
            for k in range(min(len(A["psi1D"]), len(B["psi1D"]))):
                ctx.oblige(A["psi1D"][k] == B["psi1D"][k], "psi1D[%d] identical" % k)
                ctx.oblige(A["pressure"][k] == B["pressure"][k], "pressure[%d] identical (the pressure profile does not depend on the sign / units convention of psi)" % k)
                ctx.oblige(A["fpol1D"][k] == B["fpol1D"][k], "fpol1D[%d] identical" % k)
        return A

    return run


def add_extrapolate_preprocessed(S):
    for rc, tp in ((True, False), (False, True), (True, True)):
        S.contract("profiles[extrapolate after %s]" % "+".join(n for n, on in (("reverse_current", rc), ("psi_divide_twopi", tp)) if on), FN_INIT, make_extrapolate_preprocessed_run(rc, tp), shape="3 profile points")


def critical_block():
    """Statements of TokamakEquilibrium.__init__ from the meshgrid before `find_critical` to
    `self.psi_sep = [...]`, compiled as a function."""
    from hypnotoad.cases import tokamak as T

    fdef = ast.parse(textwrap.dedent(inspect.getsource(T.TokamakEquilibrium.__init__))).body[0]
    start = end = None
    for i, st in enumerate(fdef.body):
        txt = ast.unparse(st)
        if start is None and isinstance(st, ast.Assign) and "critical.find_critical" in txt:
            start = i - 1 if i and "meshgrid" in ast.unparse(fdef.body[i - 1]) else i
        if isinstance(st, ast.Assign) and txt.startswith("self.psi_sep ="):
            end = i
    if start is None or end is None or end < start:
        raise LookupError("critical-point block not found")
    args = ["self", "R1D", "Z1D", "psi2D", "psi_axis_gfile", "psi_bdry_gfile"]
    f = ast.FunctionDef(name="_critical_block", args=ast.arguments(posonlyargs=[], args=[ast.arg(arg=a) for a in args], kwonlyargs=[], kw_defaults=[], defaults=[]), body=fdef.body[start : end + 1], decorator_list=[], type_params=[])
    mod = ast.Module(body=[f], type_ignores=[])
    ast.fix_missing_locations(mod)
    loc = {}
    exec(compile(mod, "<vc:TokamakEquilibrium.__init__[critical points]>", "exec"), T.__dict__, loc)
    return loc["_critical_block"], end - start + 1


def make_critical_run(reverse, with_gfile):
    """psi_axis / o_point / psi_bdry / x_points / psi_sep are those find_critical returns first
    (its ordering contract: C19); the consistency check against the g-file scalars refuses
    differences above 1e-3 (sign-reversed together with the flux when reverse_current is set)."""

    def run(ctx):
        from hypnotoad.cases import tokamak as T

        fn, n = critical_block()
        O = [(ctx.real("Ro%d" % k), ctx.real("Zo%d" % k), ctx.real("Po%d" % k)) for k in range(2)]
        X = [(ctx.real("Rx%d" % k), ctx.real("Zx%d" % k), ctx.real("Px%d" % k)) for k in range(2)]
        ax, bd = (ctx.real("simagx"), ctx.real("sibdry")) if with_gfile else (None, None)
        me = types.SimpleNamespace(user_options=_Opts(reverse_current=reverse, xpoint_refine_atol=1e-10, xpoint_refine_maxits=10))
        raised = None
        with patched((T.critical, "find_critical", lambda *a, **k: (list(O), list(X))), (T.warnings, "warn", lambda *a, **k: None)):
            try:
                fn(me, numpy.array([1.0, 2.0]), numpy.array([-1.0, 1.0]), numpy.zeros((2, 2)), ax, bd)
            except ValueError as e:
                raised = e
        with spec_mode():
            s = -1 if reverse else 1
            if raised is None:
                ctx.oblige(And(me.psi_axis == O[0][2], me.o_point.R == O[0][0], me.o_point.Z == O[0][1]), "psi_axis / o_point: the primary O-point")
                ctx.oblige(And(me.psi_bdry == X[0][2], me.x_point.R == X[0][0], me.x_point.Z == X[0][1]), "psi_bdry: psi at the primary X-point")
                ctx.oblige(TRUE(len(me.x_points) == 2 and len(me.psi_sep) == 2), "all X-points kept")
                ctx.oblige(And(*[And(me.x_points[k].R == X[k][0], me.x_points[k].Z == X[k][1], me.psi_sep[k] == X[k][2]) for k in range(2)]), "x_points and psi_sep aligned, in find_critical's order")
                if with_gfile:
                    ctx.oblige(And(ab(O[0][2] - s * ax) <= 1.0e-3, ab(X[0][2] - s * bd) <= 1.0e-3), "accepted only if the g-file's simagx / sibdry agree with the computed values to 1e-3")
            else:
                ctx.oblige(TRUE(with_gfile), "refusal needs g-file scalars to compare with")
                if with_gfile:
                    ctx.oblige(Or(ab(O[0][2] - s * ax) > 1.0e-3, ab(X[0][2] - s * bd) > 1.0e-3), "refused only if simagx or sibdry differ from the computed values by more than 1e-3")
        return me

    return run


def ab(x):
    return ite(x >= 0, x, -x)


def exp_arg(ctx, val, p0):
    """If val is syntactically p0*exp(a) for a registered exp application, return a."""
    t = z3.simplify(val.t)
    for a, v in ctx.apps.get("exp", {}).values():
        if z3.simplify(p0.t * v).eq(t) or z3.simplify(v * p0.t).eq(t):
            return Sym(a)
    return None


def run_preprocess(ctx):
    """reverse_current / psi_divide_twopi / reverse_Bt: the block yields exactly the
    transformed arrays (equivalent to passing pre-transformed arrays)."""
    from hypnotoad.cases import tokamak as T

    fn, n = profile_block()
    mkarr = lambda nm, k: numpy.array([ctx.real("%s_%d" % (nm, i)) for i in range(k)], dtype=object)
    res = {}
    for rc in (False, True):
        for tp in (False, True):
            for rb in (False, True):
                psi1D, fpol, press = mkarr("psi1D", 3), mkarr("f", 3), mkarr("p", 3)
                psi2D = mkarr("psi2D", 4).reshape(2, 2)
                ax, bd = ctx.real("axis_g"), ctx.real("bdry_g")
                me = types.SimpleNamespace(user_options=_Opts(reverse_current=rc, psi_divide_twopi=tp, reverse_Bt=rb, extrapolate_profiles=False))
                keep = [psi1D.copy(), fpol.copy(), psi2D.copy()]
                with patched((T.warnings, "warn", lambda *a, **k: None)):
                    out = fn(me, psi2D, psi1D, fpol, press, ax, bd)
                with spec_mode():
                    s = -1 if rc else 1
                    tag = "[rc=%d,2pi=%d,rBt=%d]" % (rc, tp, rb)
                    twopi = 2 * ctx.pi() if tp else 1
                    for i in range(3):
                        ctx.oblige(out["psi1D"][i] * twopi == s * keep[0][i], "psi1D[%d] transformed %s" % (i, tag))
                        ctx.oblige(out["fpol1D"][i] == (-1 if rb else 1) * keep[1][i], "fpol1D[%d] transformed %s" % (i, tag))
                    for idx in numpy.ndindex(2, 2):
                        ctx.oblige(out["psi2D"][idx] * twopi == s * keep[2][idx], "psi2D%s transformed %s" % (list(idx), tag))
                    ctx.oblige(out["psi_axis_gfile"] * twopi == ax, "psi_axis_gfile scaled (not sign-reversed) %s" % tag)
                    ctx.oblige(out["psi_bdry_gfile"] * twopi == bd, "psi_bdry_gfile scaled %s" % tag)
                    inc = out["psi1D"][-1] > out["psi1D"][0]
                    ctx.oblige(TRUE(True), "ok")
    return res


# ----------------------------------------------------------------------------- fpol / fpolprime / pressure
def run_profiles(ctx):
    from hypnotoad.cases import tokamak as T

    eq = object.__new__(T.TokamakEquilibrium)
    F, Fp, P = UF(ctx, "f_spl"), UF(ctx, "fprime_spl"), UF(ctx, "p_spl")
    s = ctx.real("f_psi_sign")
    ctx.assume(Or(s == 1, s == -1))
    eq.f_spl, eq.fprime_spl, eq.p_spl, eq.f_psi_sign = F, Fp, P, s
    psi = ctx.real("psi")
    f = T.TokamakEquilibrium.fpol(eq, psi)
    fp = T.TokamakEquilibrium.fpolprime(eq, psi)
    pr = T.TokamakEquilibrium.pressure(eq, psi)
    eq.psi_axis = ctx.real("psi_axis")
    eq.o_point = types.SimpleNamespace(R=ctx.real("R_axis"))
    ctx.assume(eq.o_point.R > 0)
    bta = eq.Bt_axis
    with spec_mode():
        ctx.oblige(f == F.one(psi * s), "fpol(psi)=f_spl(psi*sign)")
        ctx.oblige(pr == P.one(psi * s), "pressure(psi)=p_spl(psi*sign)")
        # chain rule: d/dpsi f_spl(sign*psi) = sign * f_spl'(sign*psi), with fprime_spl = f_spl' (scipy contract)
        ctx.oblige(fp == s * Fp.one(psi * s), "fpolprime(psi)=d/dpsi fpol(psi) (chain rule through psi*sign)")
        ctx.oblige(bta * eq.o_point.R == F.one(eq.psi_axis * s), "Bt_axis=fpol(psi_axis)/R_axis")


def native_profiles(S):
    """Concrete twin of run_profiles (also catches code that leaves the symbolic subset,
    e.g. float() conversions): the real fpol / fpolprime / pressure / Bt_axis on concrete
    spline stand-ins, both signs of f_psi_sign."""
    import random

    from hypnotoad.cases import tokamak as T

    rnd = random.Random(S.seed)
    bad = []
    n = 0
    for sign in (1.0, -1.0):
        for _ in range(10):
            a, b, c = rnd.uniform(1, 3), rnd.uniform(-1, 1), rnd.uniform(-0.5, 0.5)
            eq = object.__new__(T.TokamakEquilibrium)
            eq.f_spl = lambda x, a=a, b=b, c=c: a + b * x + c * x * x
            eq.fprime_spl = lambda x, b=b, c=c: b + 2 * c * x
            eq.p_spl = lambda x, a=a: 10.0 * a - x
            eq.f_psi_sign = sign
            psi = rnd.uniform(-2, 2)
            eq.psi_axis = rnd.uniform(-2, 2)
            eq.o_point = types.SimpleNamespace(R=rnd.uniform(1, 2))
            h = 1e-6
            want = dict(fpol=eq.f_spl(psi * sign), fpolprime=(eq.f_spl((psi + h) * sign) - eq.f_spl((psi - h) * sign)) / (2 * h), pressure=eq.p_spl(psi * sign), Bt_axis=eq.f_spl(eq.psi_axis * sign) / eq.o_point.R)
            got = dict(fpol=float(eq.fpol(psi)), fpolprime=float(eq.fpolprime(psi)), pressure=float(eq.pressure(psi)), Bt_axis=float(eq.Bt_axis))
            n += 1
            for k in want:
                if abs(got[k] - want[k]) > 1e-6 * (1 + abs(want[k])):
                    bad.append(dict(quantity=k, f_psi_sign=sign, psi=psi, psi_axis=eq.psi_axis, got=got[k], want=want[k]))
    S.static_vc("profiles[native]", FN_FPOL, "fpol/fpolprime/pressure/Bt_axis on concrete profiles, both signs of f_psi_sign (%d cases)" % n, not bad, detail=repr(bad[:2]), kind="native", model=bad[0] if bad else None)


def build(S):
    native_profiles(S)
    S.under_contract(FN_G1, FN_CRO, FN_INIT, FN_FPOL, FN_FPP, FN_P, FN_BTA)
    S.assume("A-PURE: psi, Bp_R, Bp_Z, fpol, pressure splines are deterministic functions (uninterpreted, congruent)")
    S.assume("A-SHAPE: geometry1 proved at nx=1, ny=3 (all four locations, all values); profile block at 3-4 profile points")
    S.assume("external (assumed): InterpolatedUnivariateSpline.derivative() is the derivative of the spline; spline interpolation accuracy")
    S.extraction.append(dict(function="TokamakEquilibrium.__init__", sliced="statements from `if self.user_options.reverse_current:` up to `self.magneticFunctionsFromGrid(...)`, compiled unchanged as a function of (self, psi2D, psi1D, fpol1D, pressure, psi_axis_gfile, psi_bdry_gfile)"))
    with numpy_shimmed():
        S.contract("geometry1", FN_G1, run_geometry1, expected_exceptions=(ValueError,), raises_ok=g1_raises_ok, shape="nx=1, ny=3", max_paths=200)
        S.contract("geometry1[x-neighbours]", FN_G1, lambda c: run_geometry1(c, True), expected_exceptions=(ValueError,), raises_ok=g1_raises_ok, shape="nx=1, ny=3, inner+outer neighbour", max_paths=200)
        mk.add_mla_arith(S)  # the field formulas of geometry1 are evaluated location by location through it
        S.contract("createRegionObjects[pressure,ldn]", FN_CRO, run_cro("ldn"), expected_exceptions=(ValueError,), raises_ok=lambda p: True, shape="disconnected double null, sizes symbolic")
        S.contract("createRegionObjects[pressure,lsn]", FN_CRO, run_cro("lsn"), expected_exceptions=(ValueError,), raises_ok=lambda p: True, shape="single null")
        S.contract("profiles[extrapolate,psi increasing]", FN_INIT, run_extrapolate(True), shape="4 profile points")
        S.contract("profiles[extrapolate,psi decreasing]", FN_INIT, run_extrapolate(False), shape="4 profile points")
        S.contract("profiles[sign/2pi preprocessing]", FN_INIT, run_preprocess, shape="3 profile points, 2x2 psi")
        add_extrapolate_preprocessed(S)
        from . import C17

        # the g-file route hands the file's flux to the constructor unscaled: psi_divide_twopi / reverse_current act once
        S.under_contract(C17.FN_RG)
        S.contract("read_geqdsk[psi_divide_twopi+reverse_current]", C17.FN_RG, C17.run_read_geqdsk(2, 3, True, settings=dict(psi_divide_twopi=True, reverse_current=True)), shape="nx=2, ny=3")
        _, nst = critical_block()
        S.extraction.append(dict(function="TokamakEquilibrium.__init__[critical points]", sliced="%d statements (meshgrid, find_critical ... self.psi_sep) compiled as a function of (self, R1D, Z1D, psi2D, psi_axis_gfile, psi_bdry_gfile); nothing dropped" % nst))
        for rev in (False, True):
            for wg in (False, True):
                S.contract("constructor[psi_axis, psi_bdry%s%s]" % (", reverse_current" if rev else "", ", g-file scalars" if wg else ""), FN_INIT, make_critical_run(rev, wg), expected_exceptions=(), shape="2 O-points, 2 X-points (symbolic), find_critical by contract")
        S.contract("fpol/fpolprime/pressure/Bt_axis", FN_FPP, run_profiles, shape="scalar")
        from . import C03_circular

        C03_circular.add(S)
        from . import C18_dct

        C18_dct.add(S)  # psi_interpolation_method="dct": Bp_R, Bp_Z are built from ddZ, ddR = D of __call__, on NON-square psi grids too


def post(S):
    from bounded import gridrun

    gridrun.run(S, ["fields_vs_analytic", "profiles_vs_input"], FN_G1, name="field and profile values of generated grids vs the analytic equilibrium and the input profiles")
