"""C19  Critical points are found, classified, ordered and selected correctly.

Deductive part (real code, extracted mechanically): the nested `remove_dup` of
critical.find_critical on symbolic points -- kept points are pairwise >= 1e-5 apart (squared
distance), every input is within 1e-5 of a kept point, first occurrences are kept in order.
Completeness ("every critical point is found") and sub-grid accuracy depend on the spline,
the Bp^2 local-minimum scan and Newton iteration: bounded, on smooth psi with planted
non-degenerate critical points at arbitrary sub-grid positions (both psi signs, two
resolutions, symmetric and offset domains).
"""
import itertools
import time

import numpy
import z3

from vc import transform
from vc.shim import numpy_shimmed
from vc.sym import And, Or, Not, Sym, spec_mode

LEVEL = "proof"
FN = "hypnotoad.utils.critical:find_critical"
TRUE = lambda b: Sym(z3.BoolVal(bool(b)))


def make_dup_run(n):
    def run(ctx):
        from hypnotoad.utils import critical

        fn = transform.recompile(critical.find_critical, nested="remove_dup", extra_globals={}, report=None)
        pts = [(ctx.real("R%d" % k), ctx.real("Z%d" % k), ctx.real("P%d" % k)) for k in range(n)]
        res = fn(list(pts))
        d2 = lambda a, b: (a[0] - b[0]) ** 2 + (a[1] - b[1]) ** 2
        with spec_mode():
            idx = [next(k for k, p in enumerate(pts) if p is r) for r in res]
            ctx.oblige(TRUE(idx == sorted(idx) and len(set(idx)) == len(idx)), "kept points are inputs, in input order, no repeats")
            ctx.oblige(TRUE(n == 0 or idx[:1] == [0]), "the first point is always kept")
            for a, b in itertools.combinations(res, 2):
                ctx.oblige(d2(a, b) >= 1.0e-5, "kept points pairwise at squared distance >= 1e-5")
            for k, p in enumerate(pts):
                if any(p is r for r in res):
                    continue
                ctx.oblige(Or(*[d2(p, r) < 1.0e-5 for r in res if next(i for i, q in enumerate(pts) if q is r) < k]), "dropped point %d is within 1e-5 of an earlier kept point" % k)
        return res

    return run


def planted(S):
    """Smooth psi = sum of Gaussians with off-grid centres; reference critical points from an
    independent Newton solve on the analytic gradient."""
    from hypnotoad.utils import critical

    t0 = time.time()
    rnd = numpy.random.default_rng(1234 + S.seed)
    bad, n_eval, classes = [], 0, set()
    cases = []
    for sign in (1.0, -1.0):
        for nres in (65, 97):
            for zoff in (0.0, 0.35, -0.4):
                for k in range(2 if S.tier == "quick" else 5):
                    cases.append((sign, nres, zoff, k))
    for sign, nres, zoff, k in cases:
        r0 = 1.5 + rnd.uniform(-0.03, 0.03)
        zc = zoff + rnd.uniform(-0.02, 0.02)
        # main plasma + lower lobe (X-point between) + a weaker upper lobe; sometimes a second
        # O-point below the axis inside the domain
        lobes = [(1.0, r0, zc, 0.3), (1.0, r0 + rnd.uniform(-0.02, 0.02), zc - 0.6 + rnd.uniform(-0.02, 0.02), 0.3), (0.8, r0 + rnd.uniform(-0.02, 0.02), zc + 0.63 + rnd.uniform(-0.02, 0.02), 0.3)]

        def psi(R, Z, d=0):
            out = 0.0
            for a, rc, zc_, w in lobes:
                e = sign * a * numpy.exp(-((R - rc) ** 2 + (Z - zc_) ** 2) / w**2)
                out = out + (e if d == 0 else e * (-2 * (R - rc) / w**2) if d == 1 else e * (-2 * (Z - zc_) / w**2))
            return out

        R1 = numpy.linspace(1.0, 2.0, nres)
        Z1 = numpy.linspace(zoff - 1.0, zoff + 1.0, nres + 4)
        R2, Z2 = numpy.meshgrid(R1, Z1, indexing="ij")
        try:
            op, xp = critical.find_critical(R2, Z2, psi(R2, Z2), 1e-12, 100)
        except Exception as e:
            bad.append(dict(case=(sign, nres, zoff, k), problem="raised %r" % e))
            continue
        n_eval += 1
        classes.add((sign, nres, zoff != 0.0))
        # reference: Newton on the analytic gradient from a fine scan
        ref = reference_points(psi, (1.0, 2.0), (zoff - 1.0, zoff + 1.0), R1[1] - R1[0], Z1[1] - Z1[0])
        prob = []
        found = [("O", p) for p in op] + [("X", p) for p in xp]
        for kind, (Rr, Zr, Hdet) in ref:
            close = [(kd, p) for kd, p in found if (p[0] - Rr) ** 2 + (p[1] - Zr) ** 2 < (2e-3) ** 2]
            if kind == "O" and len(close) != 1:
                prob.append("O-point at (%.4f,%.4f) returned %d times" % (Rr, Zr, len(close)))
            if kind == "X" and len(close) > 1:
                prob.append("X-point at (%.4f,%.4f) returned %d times" % (Rr, Zr, len(close)))
            for kd, p in close:
                if kd != kind:
                    prob.append("point at (%.4f,%.4f) classified %s, Hessian determinant %.3g says %s" % (Rr, Zr, kd, Hdet, kind))
        for kd, p in found:
            g2 = psi(p[0], p[1], 1) ** 2 + psi(p[0], p[1], 2) ** 2
            if g2 / p[0] ** 2 > 1e-6:
                prob.append("returned %s-point (%.4f,%.4f) has |Bp|^2=%.3g" % (kd, p[0], p[1], g2 / p[0] ** 2))
        if op:
            Rm, Zm = 0.5 * (R1[0] + R1[-1]), 0.5 * (Z1[0] + Z1[-1])
            dist = [(p[0] - Rm) ** 2 + (p[1] - Zm) ** 2 for p in op]
            if dist[0] > min(dist) + 1e-12:
                prob.append("primary O-point (%.4f,%.4f) is not the one nearest the domain centre (%.3f,%.3f)" % (op[0][0], op[0][1], Rm, Zm))
            dp = [abs(p[2] - op[0][2]) for p in xp]
            if any(b < a - 1e-12 for a, b in zip(dp, dp[1:])):
                prob.append("X-points not ordered by |psi-psi_axis|: %s" % [round(x, 5) for x in dp])
        if prob:
            bad.append(dict(case=dict(sign=sign, n=nres, z_offset=zoff, k=k), problems=prob[:4]))
    S.bounded.append(dict(name="find_critical on planted critical points", evaluations=n_eval, distinct_nontrivial=len(classes),
                          rule="three Gaussian lobes with random sub-grid centres; psi sign +-; resolutions 65, 97; Z-domain symmetric / offset up / offset down; every O-point returned exactly once, returned points have |Bp|^2<1e-6 and the class of the analytic Hessian determinant, primary O nearest the domain centre, X-points ordered by |psi-psi_axis|; distinct = (sign, resolution, offset?)",
                          bound="%d random equilibria" % len(cases), samples=[dict(sign=1.0, n=65, z_offset=0.35)], failures=bad[:4], wall_s=round(time.time() - t0, 1)))  # fmt: skip
    if bad:
        S.static_vc("bounded:planted-critical-points", FN, "found once / classified / ordered as the analytic reference", False, detail=repr(bad[:2])[:1200], kind="bounded-native", model=bad[0])


def reference_points(psi, Rr, Zr, dR, dZ):
    """Interior critical points of the analytic psi (Newton from a coarse scan), with the
    Hessian determinant; only those at least 3 cells from the boundary (the searched interior)."""
    pts = []
    Rs = numpy.linspace(Rr[0], Rr[1], 41)
    Zs = numpy.linspace(Zr[0], Zr[1], 81)
    h = 1e-5
    for a in Rs:
        for b in Zs:
            x = numpy.array([a, b])
            ok = False
            for _ in range(30):
                g = numpy.array([psi(x[0], x[1], 1), psi(x[0], x[1], 2)])
                H = numpy.array([[(psi(x[0] + h, x[1], 1) - psi(x[0] - h, x[1], 1)) / (2 * h), (psi(x[0], x[1] + h, 1) - psi(x[0], x[1] - h, 1)) / (2 * h)],
                                 [(psi(x[0] + h, x[1], 2) - psi(x[0] - h, x[1], 2)) / (2 * h), (psi(x[0], x[1] + h, 2) - psi(x[0], x[1] - h, 2)) / (2 * h)]])  # fmt: skip
                try:
                    step = numpy.linalg.solve(H, g)
                except numpy.linalg.LinAlgError:
                    break
                if numpy.hypot(*step) > 0.05:
                    break
                x = x - step
                if numpy.hypot(*step) < 1e-12:
                    ok = True
                    break
            if not ok:
                continue
            if not (Rr[0] + 4 * dR < x[0] < Rr[1] - 4 * dR and Zr[0] + 4 * dZ < x[1] < Zr[1] - 4 * dZ):
                continue
            det = float(numpy.linalg.det(H))
            if abs(det) < 1.0 or abs(psi(x[0], x[1])) < 0.05:
                continue  # degenerate / in the flat far field: outside the property's quantifier
            if all((x[0] - p[1][0]) ** 2 + (x[1] - p[1][1]) ** 2 > 1e-8 for p in pts):
                pts.append(("O" if det > 0 else "X", (float(x[0]), float(x[1]), det)))
    return pts


def build(S):
    S.under_contract(FN)
    S.assume("external (assumed): RectBivariateSpline; Newton iteration convergence; the Bp^2 local-minimum scan finds every well-separated critical point above a minimum resolution (bounded check only)")
    S.extraction.append(dict(function="critical.find_critical.remove_dup", sliced="nested def lifted out unchanged"))
    with numpy_shimmed():
        for n in (1, 2, 3):
            S.contract("remove_dup[n=%d]" % n, FN, make_dup_run(n), shape="n=%d points" % n)


def post(S):
    planted(S)
