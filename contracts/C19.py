"""C19  Critical points are found, classified, ordered and selected correctly.

Deductive part (real code):
 * the whole real `find_critical` on a symbolic 5x5 grid (one interior candidate node) with
   the spline replaced by a contract stub (fresh value per evaluation point and derivative
   order), `inv`/`dot` by the 2x2 inverse and matrix-vector product: every returned point
   has Br^2+Bz^2 < atol AT the returned position, carries psi of that position, lies within
   3 cells of its candidate node, is classified X iff the Hessian determinant of the data is
   negative (psi samples of an arbitrary quadratic: the stencil is exact there), and every
   Newton update solves J d = B with J the Jacobian of (Br, Bz) (spec from the calculus);
 * the tail of `find_critical` (duplicate removal, primary O-point, monotonic-line filter,
   X-point ordering), sliced mechanically from the function body, on symbolic points with
   three families of line profiles (monotone: kept; overshoot > 0.1%: dropped; minimum away
   from the O-point: dropped);
 * the nested `remove_dup` on symbolic points.
Completeness ("every critical point is found") and sub-grid accuracy depend on the spline,
the Bp^2 local-minimum scan and Newton convergence: bounded, on smooth psi with planted
non-degenerate critical points at arbitrary sub-grid positions (both psi signs, two
resolutions, symmetric and offset domains).
"""
import itertools
import types
import time

import numpy
import z3

from vc import transform
from vc.shim import numpy_shimmed, patched
from vc.sym import And, Or, Not, Sym, ite, spec_mode

LEVEL = "proof"
FN = "hypnotoad.utils.critical:find_critical"
TRUE = lambda b: Sym(z3.BoolVal(bool(b)))


def make_dup_run(n):
    def run(ctx):
        from hypnotoad.utils import critical

        fn = transform.recompile(critical.find_critical, nested="remove_dup", extra_globals={}, report=None)
        pts = [(ctx.real("R%d" % k), ctx.real("Z%d" % k), ctx.real("P%d" % k)) for k in range(n)]
        res = fn(list(pts))
        d2 = lambda a, b: (a[0] - b[0]) ** 2 + (a[1] - b[1]) ** 2
        with spec_mode():
            idx = [next(k for k, p in enumerate(pts) if p is r) for r in res]
            ctx.oblige(TRUE(idx == sorted(idx) and len(set(idx)) == len(idx)), "kept points are inputs, in input order, no repeats")
            ctx.oblige(TRUE(n == 0 or idx[:1] == [0]), "the first point is always kept")
            for a, b in itertools.combinations(res, 2):
                ctx.oblige(d2(a, b) >= 1.0e-5, "kept points pairwise at squared distance >= 1e-5")
            for k, p in enumerate(pts):
                if any(p is r for r in res):
                    continue
                ctx.oblige(Or(*[d2(p, r) < 1.0e-5 for r in res if next(i for i, q in enumerate(pts) if q is r) < k]), "dropped point %d is within 1e-5 of an earlier kept point" % k)
        return res

    return run


class SplineStub:
    """Contract stub for RectBivariateSpline: one fresh real per (point, dx, dy)."""

    last = None

    def __init__(self, x, y, z, **kw):
        self.vals = {}
        self.points = []  # scalar evaluation points in call order
        SplineStub.last = self

    def sym(self, R, Z, dx=0, dy=0):
        from vc.sym import _ctx

        from vc.sym import lift

        R, Z = lift(R), lift(Z)
        k = (R.t.get_id(), Z.t.get_id(), dx, dy)
        if k not in self.vals:
            self.vals[k] = (_ctx().real("f!%d_%d%d" % (len(self.vals), dx, dy)), R, Z)  # (R, Z kept alive: ids stay unique)
        return self.vals[k][0]

    def __call__(self, R, Z, dx=0, dy=0, grid=True):
        if isinstance(R, numpy.ndarray):
            out = numpy.empty(R.shape, dtype=object)
            for idx in numpy.ndindex(*R.shape):
                out[idx] = self.sym(R[idx], Z[idx], dx, dy)
            return out
        if not self.points or not (self.points[-1][0] is R and self.points[-1][1] is Z):
            self.points.append((R, Z))
        v = self.sym(R, Z, dx, dy)
        if grid:
            a = numpy.empty((1, 1), dtype=object)
            a[0, 0] = v
            return a
        return v


def lift_id(x):
    from vc.sym import lift

    return lift(x).t.get_id()


def _unwrap(x):
    while isinstance(x, numpy.ndarray):
        x = x.reshape(-1)[0]  # numpy converts a size-1 array stored into a float array element
    return x


def inv_stub(J):
    a, b, c, d = (_unwrap(J[0, 0]), _unwrap(J[0, 1]), _unwrap(J[1, 0]), _unwrap(J[1, 1]))
    det = a * d - b * c
    if det == 0:
        raise numpy.linalg.LinAlgError("Singular matrix")
    out = numpy.empty((2, 2), dtype=object)
    out[0, 0], out[0, 1], out[1, 0], out[1, 1] = d / det, -b / det, -c / det, a / det
    return out


def dot_stub(M, v):
    return numpy.array([M[0, 0] * v[0] + M[0, 1] * v[1], M[1, 0] * v[0] + M[1, 1] * v[1]], dtype=object)


def obj_zeros(shape):
    a = numpy.empty(shape, dtype=object)
    a[...] = 0.0
    return a


def critical_patches():
    import types

    from hypnotoad.utils import critical

    from vc.shim import NumpyShim

    return ((critical, "linspace", NumpyShim().linspace), (critical, "interpolate", types.SimpleNamespace(RectBivariateSpline=SplineStub)), (critical, "inv", inv_stub), (critical, "dot", dot_stub), (critical, "zeros", obj_zeros), (critical, "print", lambda *a, **k: None))


def run_newton(ctx):
    """Real find_critical, 5x5 grid, maxits=1."""
    from hypnotoad.utils import critical
    from vc.shim import patched

    Rc, Zc, dR, dZ = ctx.real("Rc"), ctx.real("Zc"), ctx.real("dR"), ctx.real("dZ")
    atol = ctx.real("atol")
    # pre: the Newton search disc (3 cells) of the candidate node lies in R > 0
    ctx.assume(And(dR > 0, dZ > 0, Rc - 2 * dR > 0, atol > 0, Rc > 0, Rc * Rc > 9 * (dR * dR + dZ * dZ)))
    c = [ctx.real("q%d" % k) for k in range(6)]
    R = numpy.empty((5, 5), dtype=object)
    Z = numpy.empty((5, 5), dtype=object)
    psi = numpy.empty((5, 5), dtype=object)
    for i in range(5):
        for j in range(5):
            x, y = (i - 2) * dR, (j - 2) * dZ
            R[i, j], Z[i, j] = Rc + x, Zc + y
            psi[i, j] = c[0] + c[1] * x + c[2] * y + c[3] * x * x + c[4] * x * y + c[5] * y * y
    with patched(*critical_patches()):
        op, xp = critical.find_critical(R, Z, psi, atol, 1)
    f = SplineStub.last
    with spec_mode():
        D = 4 * c[3] * c[5] - c[4] * c[4]
        ctx.oblige(TRUE(len(op) + len(xp) <= 1), "one candidate node gives at most one point")
        for kind, pts in (("O", op), ("X", xp)):
            for pR, pZ, pP in pts:
                fR, fZ = f.sym(pR, pZ, 1, 0), f.sym(pR, pZ, 0, 1)
                ctx.oblige((fZ / pR) ** 2 + (fR / pR) ** 2 < atol, "returned point: Br^2+Bz^2 < atol at the returned position")
                ctx.oblige(_unwrap(pP) == f.sym(pR, pZ, 0, 0), "returned point carries psi of the returned position")
                ctx.oblige((pR - R[2, 2]) ** 2 + (pZ - Z[2, 2]) ** 2 <= 9 * (dR * dR + dZ * dZ), "returned point within 3 cells of its candidate node")
                ctx.oblige((D < 0) if kind == "X" else (D >= 0), "classified %s-point by the sign of the Hessian determinant of the data (stencil exact on quadratics)" % kind)
                ctx.oblige((D >= 0) if kind == "X" else (D < 0), "twin: classification reversed", kind="must-fail")
                ctx.oblige((fZ / pR) ** 2 + (fR / pR) ** 2 < atol / 2, "twin: tighter tolerance than asked", kind="must-fail")
        for (aR, aZ), (bR, bZ) in zip(f.points, f.points[1:]):
            fR, fZ, fRR, fZZ, fRZ = (f.sym(aR, aZ, *d) for d in ((1, 0), (0, 1), (2, 0), (0, 2), (1, 1)))
            Br, Bz = -fZ / aR, fR / aR
            J00, J01 = fZ / (aR * aR) - fRZ / aR, -fZZ / aR
            J10, J11 = -fR / (aR * aR) + fRR / aR, fRZ / aR
            dRn, dZn = aR - bR, aZ - bZ
            ctx.oblige(And(J00 * dRn + J01 * dZn == Br, J10 * dRn + J11 * dZn == Bz), "Newton update solves J d = (Br,Bz) with J the Jacobian of (Br,Bz) = (-psi_Z/R, psi_R/R)")
    return op, xp


def tail_function():
    """find_critical from 'Remove duplicates' to its end, as a function of its live variables."""
    import ast
    import inspect
    import textwrap

    from hypnotoad.utils import critical

    fdef = ast.parse(textwrap.dedent(inspect.getsource(critical.find_critical))).body[0]
    k = next(i for i, st in enumerate(fdef.body) if isinstance(st, ast.FunctionDef) and st.name == "remove_dup")
    f = ast.FunctionDef(name="_tail", args=ast.arguments(posonlyargs=[], args=[ast.arg(arg=a) for a in ("R", "Z", "f", "xpoint", "opoint")], kwonlyargs=[], kw_defaults=[], defaults=[]), body=fdef.body[k:], decorator_list=[], type_params=[])
    mod = ast.Module(body=[f], type_ignores=[])
    ast.fix_missing_locations(mod)
    loc = {}
    exec(compile(mod, "<vc:find_critical[tail]>", "exec"), critical.__dict__, loc)
    return loc["_tail"], len(fdef.body) - k


class LineStub:
    """f(rline, zline, grid=False) along the O-point -> X-point line: profile family given."""

    def __init__(self, profile):
        self.profile = profile

    def __call__(self, r, z, grid=True, **kw):
        return self.profile(r, z)


def make_tail_run(family):
    def run(ctx):
        from vc.shim import patched

        tail, _ = tail_function()
        Rlo, Rhi, Zlo, Zhi = 1.0, 2.0, -1.0, 1.0
        R = numpy.array([[Rlo, Rlo], [Rhi, Rhi]])
        Z = numpy.array([[Zlo, Zhi], [Zlo, Zhi]])
        O = [(ctx.real("Ro%d" % k), ctx.real("Zo%d" % k), ctx.real("Po%d" % k)) for k in range(2)]
        X = [(ctx.real("Rx%d" % k), ctx.real("Zx%d" % k), ctx.real("Px%d" % k)) for k in range(2)]
        d2 = lambda a, b: (a[0] - b[0]) ** 2 + (a[1] - b[1]) ** 2
        # pre: points already distinct (remove_dup has its own contract), X-points differ in psi from the axis
        ctx.assume(And(d2(O[0], O[1]) >= 1e-5, d2(X[0], X[1]) >= 1e-5))
        ctx.assume(And(*[And(x[2] != O[0][2], x[2] != O[1][2], d2(x, O[0]) > 1e-3, d2(x, O[1]) > 1e-3) for x in X]))
        mid = (1.5, 0.0, 0.0)
        ctx.assume(d2(O[0], mid) != d2(O[1], mid))
        eps = ctx.real("eps")

        def profile(r, z):
            n = len(r)
            # which (O, X) pair is this line between?
            Po = next(o[2] for o in O if lift_id(o[0]) == lift_id(r[0]))
            Px = next(x[2] for x in X if lift_id(x[0]) == lift_id(r[-1]))
            out = numpy.empty(n, dtype=object)
            for k in range(n):
                out[k] = Po + (Px - Po) * k / (n - 1)
            if family == "overshoot":
                out[n // 2] = Px + eps * (Px - Po)  # beyond the X-point value by eps*(range)
            if family == "minimum-away":
                out[n - 5] = Po - eps * (Px - Po)  # a second extremum beyond the axis value, near the X-point
            return out

        if family == "overshoot":
            ctx.assume(eps > 0.0011)
        if family == "minimum-away":
            ctx.assume(And(eps > 0, eps < 0.0005))
        with patched(*critical_patches()):
            op, xp = tail(R, Z, LineStub(profile), list(X), list(O))
        with spec_mode():
            ctx.oblige(TRUE(len(op) == 2 and {id(p) for p in op} == {id(p) for p in O}), "O-points: the same points, reordered only")
            ctx.oblige(d2(op[0], mid) <= d2(op[1], mid), "primary O-point is the one nearest the domain centre")
            ctx.oblige(d2(op[0], mid) >= d2(op[1], mid), "twin: farthest first", kind="must-fail")
            if family == "monotone":
                ctx.oblige(TRUE(len(xp) == 2 and {id(p) for p in xp} == {id(p) for p in X}), "psi monotone from the primary O-point to each X-point: both X-points kept, exactly once")
                if len(xp) == 2:
                    ctx.oblige((xp[0][2] - op[0][2]) ** 2 <= (xp[1][2] - op[0][2]) ** 2, "X-points ordered by |psi - psi_axis| of the PRIMARY O-point")
                    ctx.oblige((xp[0][2] - op[0][2]) ** 2 >= (xp[1][2] - op[0][2]) ** 2, "twin: reverse order", kind="must-fail")
            else:
                ctx.oblige(TRUE(len(xp) == 0), "%s line profile: X-point discarded" % family)
        return op, xp

    return run


FN_MR = "hypnotoad.cases.tokamak:TokamakEquilibrium.makeRegions"


class Described(Exception):
    pass


class _Opts(types.SimpleNamespace):
    """Option stand-in readable as attribute and as item, like optionsfactory's objects."""

    def __getitem__(self, k):
        return getattr(self, k)


def make_regions_run(nxp, explicit_sol=False):
    """Real makeRegions up to the hand-over to describeSingle/DoubleNull: which X-points are
    kept (normalised psi below psinorm_sol AND inside the wall), in which order, and which
    description is chosen.  polygons.intersect is used through its contract (C20): the stub
    answers with a fresh boolean per call and records what it was asked."""

    def run(ctx):
        from hypnotoad.cases import tokamak as T
        from hypnotoad.core.equilibrium import Point2D

        eq = object.__new__(T.TokamakEquilibrium)
        eq.psi_axis = ctx.real("psi_axis")
        psis = [ctx.real("psi_x%d" % k) for k in range(nxp)]
        ctx.assume(And(*[p_ != eq.psi_axis for p_ in psis]))  # pre: no X-point has the flux of the magnetic axis
        eq.psi_sep = list(psis)
        eq.x_points = [Point2D(ctx.real("Rx%d" % k), ctx.real("Zx%d" % k)) for k in range(nxp)]
        xs = list(eq.x_points)
        psinorm_sol = ctx.real("psinorm_sol")
        pn = {k: ctx.real("psinorm_" + k) for k in ("core", "sol_inner", "pf_lower", "pf_upper")}
        explicit_pf_upper = ctx.real("psi_pf_upper_given")
        # explicit_sol: the psi_sol option is given; it overrides psinorm_sol (left free: a stale or
        # default value) everywhere -- in particular in deciding which X-points are in range
        psi_sol_given = ctx.real("psi_sol_given") if explicit_sol else None
        eq.user_options = _Opts(psi_core=None, psinorm_core=pn["core"], psi_sol=psi_sol_given, psinorm_sol=psinorm_sol, psi_sol_inner=None, psinorm_sol_inner=pn["sol_inner"], psi_pf_lower=None, psinorm_pf_lower=pn["pf_lower"], psi_pf_upper=explicit_pf_upper, psinorm_pf_upper=pn["pf_upper"], poloidal_spacing_delta_psi=0.001)
        wall = [(1.0, -1.0), (2.0, -1.2), (2.2, 1.0), (0.9, 1.1)]  # anticlockwise, NOT explicitly closed (C11 wall contract)
        eq.wall = [Point2D(*w) for w in wall]
        asked = []

        def intersect_stub(r1, z1, r2, z2, closed1=True, closed2=True):
            b = ctx.bool("wall_crossed_%d" % len(asked))
            asked.append(dict(r1=list(r1), z1=list(z1), r2=list(r2), z2=list(z2), closed1=closed1, closed2=closed2, answer=b))
            return b

        chosen = []

        def single(self=None):
            chosen.append("single")
            raise Described()

        def double(self=None):
            chosen.append("double")
            raise Described()

        eq.describeSingleNull, eq.describeDoubleNull = single, double
        err = None
        with patched((T.polygons, "intersect", intersect_stub), (T, "print", lambda *a, **k: None)):
            try:
                T.TokamakEquilibrium.makeRegions(eq)
            except Described:
                pass
            except ValueError as e:
                err = e
        with spec_mode():
            Rc, Zc = 0.5 * (0.9 + 2.2), 0.5 * (-1.2 + 1.1)
            # every question put to polygons.intersect: centre of the wall's bounding box -> an X-point, against ALL wall edges
            for q in asked:
                k = next((i for i, x in enumerate(xs) if q["r1"][1] is x.R and q["z1"][1] is x.Z), None)
                ctx.oblige(TRUE(k is not None and abs(q["r1"][0] - Rc) < 1e-12 and abs(q["z1"][0] - Zc) < 1e-12), "inside-wall test: segment from the centre of the wall's bounding box to the X-point")
                ctx.oblige(TRUE(q["r2"] == [w[0] for w in wall] and q["z2"] == [w[1] for w in wall] and q["closed2"] is True), "inside-wall test: against every wall edge INCLUDING the closing edge (the wall list is not explicitly closed)")
                q["k"] = k
            # requested radial limits: psi_* if given, else psi_axis + psinorm_* (psi_sep[0] - psi_axis), each from ITS OWN option
            to_psi = lambda x: eq.psi_axis + x * (psis[0] - eq.psi_axis)
            ctx.oblige(And(eq.psi_core == to_psi(pn["core"]), eq.psi_sol == (psi_sol_given if explicit_sol else to_psi(psinorm_sol)), eq.psi_sol_inner == to_psi(pn["sol_inner"]), eq.psi_pf_lower == to_psi(pn["pf_lower"])), "psi_core / psi_sol / psi_sol_inner / psi_pf_lower from the psinorm option of the same name (primary separatrix = 1)")
            ctx.oblige(eq.psi_pf_upper == explicit_pf_upper, "an explicitly given psi_* limit takes precedence over its psinorm_*")
            pn = lambda v: (v - eq.psi_axis) / (psis[0] - eq.psi_axis)
            keep_spec = []
            for k in range(nxp):
                in_range = pn(psis[k]) < (pn(psi_sol_given) if explicit_sol else psinorm_sol)
                qs = [q for q in asked if q.get("k") == k]
                crossed = qs[0]["answer"] if qs else None
                keep_spec.append((in_range, crossed))
            kept = [] if err is not None and not chosen else [next(i for i, x in enumerate(xs) if x is p) for p in eq.x_points]
            if chosen:
                ctx.oblige(TRUE(kept == sorted(kept)), "kept X-points keep their order (primary first)")
                ctx.oblige(TRUE([eq.psi_sep[j] is psis[k] for j, k in enumerate(kept)] == [True] * len(kept)), "psi_sep stays aligned with x_points")
                for k in range(nxp):
                    in_range, crossed = keep_spec[k]
                    if k in kept:
                        ctx.oblige(in_range, "kept X-point %d has normalised psi below that of the SOL limit in force (psi_sol if given, else psinorm_sol)" % k)
                        ctx.oblige(TRUE(crossed is not None), "kept X-point %d was tested against the wall" % k)
                        if crossed is not None:
                            ctx.oblige(Not(crossed), "kept X-point %d is inside the wall" % k)
                    else:
                        ctx.oblige(Or(Not(in_range), crossed if crossed is not None else TRUE(False)), "dropped X-point %d is out of range or outside the wall" % k)
                ctx.oblige(TRUE(chosen == ["single" if len(kept) == 1 else "double"] and len(kept) in (1, 2)), "one X-point kept: single null; two: double null")
            else:
                n_keep = [And(a, Not(c)) if c is not None else TRUE(False) for a, c in keep_spec]
                # refused: the number of X-points in range and inside the wall is not 1 or 2
                cnt = sum([ite(c, 1, 0) for c in n_keep]) if n_keep else 0
                ctx.oblige(Or(cnt == 0, cnt > 2) if n_keep else TRUE(True), "refused (ValueError) only if the number of admissible X-points is 0 or more than 2")
        return chosen

    return run


FN_FL = "hypnotoad.cases.tokamak:TokamakEquilibrium.findLegs"


def legs_tail():
    """findLegs from `leg_lines = []` (tracing each leg to the wall) to its return, compiled as
    a function of (self, xpoint, leg_points, step)."""
    import ast
    import inspect
    import textwrap

    from hypnotoad.cases import tokamak as T

    fdef = ast.parse(textwrap.dedent(inspect.getsource(T.TokamakEquilibrium.findLegs))).body[0]
    k = next(i for i, st in enumerate(fdef.body) if isinstance(st, ast.Assign) and any(isinstance(t, ast.Name) and t.id == "leg_lines" for t in st.targets))
    f = ast.FunctionDef(name="_legs_tail", args=ast.arguments(posonlyargs=[], args=[ast.arg(arg=a) for a in ("self", "xpoint", "leg_points", "step")], kwonlyargs=[], kw_defaults=[], defaults=[]), body=fdef.body[k:], decorator_list=[], type_params=[])
    mod = ast.Module(body=[f], type_ignores=[])
    ast.fix_missing_locations(mod)
    loc = {}
    exec(compile(mod, "<vc:findLegs[tail]>", "exec"), T.__dict__, loc)
    return loc["_legs_tail"], len(fdef.body) - k


def run_legs_tail(ctx):
    """Each leg line starts at the X-point, is traced AWAY from it along the poloidal field, ends
    with the wall intersection; the leg whose strike point has the smaller major radius is
    labelled inner."""
    from hypnotoad.cases import tokamak as T
    from hypnotoad.core.equilibrium import Point2D

    tail, nst = legs_tail()
    xp = Point2D(ctx.real("Rx"), ctx.real("Zx"))
    legs = [(ctx.real("Rl%d" % k), ctx.real("Zl%d" % k)) for k in range(2)]
    strikes = [Point2D(ctx.real("Rs%d" % k), ctx.real("Zs%d" % k)) for k in range(2)]
    B = {}

    def field(comp):
        def f(r, z):
            key = (comp, lift_id(r), lift_id(z))
            if key not in B:
                B[key] = (ctx.real("B%s!%d" % (comp, len(B))), r, z)
            return B[key][0]

        return f

    me = types.SimpleNamespace(Bp_R=field("R"), Bp_Z=field("Z"), user_options=_Opts(leg_trace_atol=1e-8))
    traces = []

    def solve_ivp_stub(fun, span, pos, rtol=None, atol=None):
        k = len(traces)
        d = fun(0.0, pos)
        nxt = (ctx.real("Rn%d" % k), ctx.real("Zn%d" % k))
        traces.append(dict(start=pos, direction=d, span=span, next=nxt))
        return types.SimpleNamespace(y=[[pos[0], nxt[0]], [pos[1], nxt[1]]])

    calls = []

    def wall_intersection(a, b):
        calls.append((a, b))
        leg_no = sum(1 for c in calls if c[0].R is legs[1][0]) and 1  # leg 1 once its start point has been used
        n_here = sum(1 for c in calls if (c[0].R is legs[leg_no][0]) or True)
        # first step of each leg: no crossing; second step: the strike point
        steps_of_leg = [c for c in calls if c is not None]
        return None

    # simple deterministic schedule: each leg takes two steps, the second one hits the wall
    state = dict(leg=0, step=0)

    def wall_intersection(a, b):  # noqa: F811
        state["step"] += 1
        if state["step"] == 2:
            hit = strikes[state["leg"]]
            state["leg"] += 1
            state["step"] = 0
            return hit
        return None

    me.wallIntersection = wall_intersection
    # pre: the field does not vanish at the first point of a leg
    with patched((T, "solve_ivp", solve_ivp_stub)):
        out = tail(me, xp, list(legs), 0.01)
    with spec_mode():
        lines = [out["inner"], out["outer"]]
        ctx.oblige(out["inner"][-1].R <= out["outer"][-1].R, "the leg labelled inner has the strike point with the smaller major radius")
        ctx.oblige(TRUE({id(l[-1]) for l in lines} == {id(sp) for sp in strikes}), "each leg ends at its wall intersection")
        ctx.oblige(TRUE(all(l[0] is xp and len(l) == 3 for l in lines)), "each leg line starts AT the X-point, then the traced points, then the wall point")
        for k in (0, 2):
            t = traces[k]
            leg = legs[k // 2]
            ctx.oblige(t["direction"][0] * (leg[0] - xp.R) + t["direction"][1] * (leg[1] - xp.Z) >= 0, "leg %d is traced away from the X-point" % (k // 2))
            ctx.oblige(TRUE(t["start"][0] is leg[0] and t["span"] == (0.0, 0.01)), "leg %d: tracing starts at the leg's first point, one step at a time" % (k // 2))
        ctx.oblige(TRUE(traces[1]["start"][0] is traces[0]["next"][0] and traces[3]["start"][0] is traces[2]["next"][0]), "each step continues from the end of the previous one")
    return out


def planted(S):
    """Smooth psi = sum of Gaussians with off-grid centres; reference critical points from an
    independent Newton solve on the analytic gradient."""
    from hypnotoad.utils import critical

    t0 = time.time()
    rnd = numpy.random.default_rng(1234 + S.seed)
    bad, n_eval, classes = [], 0, set()
    cases = []
    for sign in (1.0, -1.0):
        for nres in (65, 97):
            for zoff in (0.0, 0.35, -0.4):
                for k in range(2 if S.tier == "quick" else 5):
                    cases.append((sign, nres, zoff, k))
    for sign, nres, zoff, k in cases:
        r0 = 1.5 + rnd.uniform(-0.03, 0.03)
        zc = zoff + rnd.uniform(-0.02, 0.02)
        # main plasma + lower lobe (X-point between) + a weaker upper lobe; sometimes a second
        # O-point below the axis inside the domain
        lobes = [(1.0, r0, zc, 0.3), (1.0, r0 + rnd.uniform(-0.02, 0.02), zc - 0.6 + rnd.uniform(-0.02, 0.02), 0.3), (0.8, r0 + rnd.uniform(-0.02, 0.02), zc + 0.63 + rnd.uniform(-0.02, 0.02), 0.3)]

        def psi(R, Z, d=0):
            out = 0.0
            for a, rc, zc_, w in lobes:
                e = sign * a * numpy.exp(-((R - rc) ** 2 + (Z - zc_) ** 2) / w**2)
                out = out + (e if d == 0 else e * (-2 * (R - rc) / w**2) if d == 1 else e * (-2 * (Z - zc_) / w**2))
            return out

        R1 = numpy.linspace(1.0, 2.0, nres)
        Z1 = numpy.linspace(zoff - 1.0, zoff + 1.0, nres + 4)
        R2, Z2 = numpy.meshgrid(R1, Z1, indexing="ij")
        try:
            op, xp = critical.find_critical(R2, Z2, psi(R2, Z2), 1e-12, 100)
        except Exception as e:
            bad.append(dict(case=(sign, nres, zoff, k), problem="raised %r" % e))
            continue
        n_eval += 1
        classes.add((sign, nres, zoff != 0.0))
        # reference: Newton on the analytic gradient from a fine scan
        ref = reference_points(psi, (1.0, 2.0), (zoff - 1.0, zoff + 1.0), R1[1] - R1[0], Z1[1] - Z1[0])
        prob = []
        found = [("O", p) for p in op] + [("X", p) for p in xp]
        for kind, (Rr, Zr, Hdet) in ref:
            close = [(kd, p) for kd, p in found if (p[0] - Rr) ** 2 + (p[1] - Zr) ** 2 < (2e-3) ** 2]
            if kind == "O" and len(close) != 1:
                prob.append("O-point at (%.4f,%.4f) returned %d times" % (Rr, Zr, len(close)))
            if kind == "X" and len(close) > 1:
                prob.append("X-point at (%.4f,%.4f) returned %d times" % (Rr, Zr, len(close)))
            for kd, p in close:
                if kd != kind:
                    prob.append("point at (%.4f,%.4f) classified %s, Hessian determinant %.3g says %s" % (Rr, Zr, kd, Hdet, kind))
        for kd, p in found:
            g2 = psi(p[0], p[1], 1) ** 2 + psi(p[0], p[1], 2) ** 2
            if g2 / p[0] ** 2 > 1e-6:
                prob.append("returned %s-point (%.4f,%.4f) has |Bp|^2=%.3g" % (kd, p[0], p[1], g2 / p[0] ** 2))
        if op:
            Rm, Zm = 0.5 * (R1[0] + R1[-1]), 0.5 * (Z1[0] + Z1[-1])
            dist = [(p[0] - Rm) ** 2 + (p[1] - Zm) ** 2 for p in op]
            if dist[0] > min(dist) + 1e-12:
                prob.append("primary O-point (%.4f,%.4f) is not the one nearest the domain centre (%.3f,%.3f)" % (op[0][0], op[0][1], Rm, Zm))
            dp = [abs(p[2] - op[0][2]) for p in xp]
            if any(b < a - 1e-12 for a, b in zip(dp, dp[1:])):
                prob.append("X-points not ordered by |psi-psi_axis|: %s" % [round(x, 5) for x in dp])
        # maxits is a limit PER candidate point: a budget that is ample for each one (Newton from the
        # nearest node needs 3-4 steps here) gives the same answer as a large one, however many
        # candidates were refined before
        try:
            op2, xp2 = critical.find_critical(R2, Z2, psi(R2, Z2), 1e-12, 8)
            same = len(op2) == len(op) and len(xp2) == len(xp) and all(abs(a[0] - b[0]) + abs(a[1] - b[1]) < 1e-9 for a, b in zip(list(op) + list(xp), list(op2) + list(xp2)))
            if not same:
                prob.append("maxits=8 (ample per point) finds %d O / %d X points, maxits=100 finds %d / %d" % (len(op2), len(xp2), len(op), len(xp)))
        except Exception as e:
            prob.append("maxits=8: raised %r" % e)
        if prob:
            bad.append(dict(case=dict(sign=sign, n=nres, z_offset=zoff, k=k), problems=prob[:4]))
    S.bounded.append(dict(name="find_critical on planted critical points", evaluations=n_eval, distinct_nontrivial=len(classes),
                          rule="three Gaussian lobes with random sub-grid centres; psi sign +-; resolutions 65, 97; Z-domain symmetric / offset up / offset down; every O-point returned exactly once, returned points have |Bp|^2<1e-6 and the class of the analytic Hessian determinant, primary O nearest the domain centre, X-points ordered by |psi-psi_axis|; the same result with maxits=8 as with maxits=100 (limit per candidate); distinct = (sign, resolution, offset?)",
                          bound="%d random equilibria" % len(cases), samples=[dict(sign=1.0, n=65, z_offset=0.35)], failures=bad[:4], wall_s=round(time.time() - t0, 1)))  # fmt: skip
    if bad:
        S.static_vc("bounded:planted-critical-points", FN, "found once / classified / ordered as the analytic reference", False, detail=repr(bad[:2])[:1200], kind="bounded-native", model=bad[0])


def reference_points(psi, Rr, Zr, dR, dZ):
    """Interior critical points of the analytic psi (Newton from a coarse scan), with the
    Hessian determinant; only those at least 3 cells from the boundary (the searched interior)."""
    pts = []
    Rs = numpy.linspace(Rr[0], Rr[1], 41)
    Zs = numpy.linspace(Zr[0], Zr[1], 81)
    h = 1e-5
    for a in Rs:
        for b in Zs:
            x = numpy.array([a, b])
            ok = False
            for _ in range(30):
                g = numpy.array([psi(x[0], x[1], 1), psi(x[0], x[1], 2)])
                H = numpy.array([[(psi(x[0] + h, x[1], 1) - psi(x[0] - h, x[1], 1)) / (2 * h), (psi(x[0], x[1] + h, 1) - psi(x[0], x[1] - h, 1)) / (2 * h)],
                                 [(psi(x[0] + h, x[1], 2) - psi(x[0] - h, x[1], 2)) / (2 * h), (psi(x[0], x[1] + h, 2) - psi(x[0], x[1] - h, 2)) / (2 * h)]])  # fmt: skip
                try:
                    step = numpy.linalg.solve(H, g)
                except numpy.linalg.LinAlgError:
                    break
                if numpy.hypot(*step) > 0.05:
                    break
                x = x - step
                if numpy.hypot(*step) < 1e-12:
                    ok = True
                    break
            if not ok:
                continue
            if not (Rr[0] + 4 * dR < x[0] < Rr[1] - 4 * dR and Zr[0] + 4 * dZ < x[1] < Zr[1] - 4 * dZ):
                continue
            det = float(numpy.linalg.det(H))
            if abs(det) < 1.0 or abs(psi(x[0], x[1])) < 0.05:
                continue  # degenerate / in the flat far field: outside the property's quantifier
            if all((x[0] - p[1][0]) ** 2 + (x[1] - p[1][1]) ** 2 > 1e-8 for p in pts):
                pts.append(("O" if det > 0 else "X", (float(x[0]), float(x[1]), det)))
    return pts


def build(S):
    S.under_contract(FN)
    S.assume("external contracts (assumed, stubs): numpy.linalg.inv = 2x2 inverse or LinAlgError when singular; numpy.dot = matrix-vector product; a size-1 array stored into an array element is its value")
    S.assume("precondition of find_critical[5x5]: the 3-cell Newton search disc of a candidate node lies in R > 0 (division by R1)")
    S.assume("external (assumed): RectBivariateSpline = some function with derivatives (fresh value per point and order); Newton iteration convergence; the Bp^2 local-minimum scan finds every well-separated critical point above a minimum resolution (bounded check only)")
    S.extraction.append(dict(function="critical.find_critical.remove_dup", sliced="nested def lifted out unchanged"))
    with numpy_shimmed():
        for n in (1, 2, 3):
            S.contract("remove_dup[n=%d]" % n, FN, make_dup_run(n), shape="n=%d points" % n)
        S.contract("find_critical[5x5, maxits=1]", FN, run_newton, expected_exceptions=(numpy.linalg.LinAlgError,), raises_ok=lambda p: True, shape="5x5 grid (one interior candidate), psi samples of an arbitrary quadratic, maxits=1")
        _, nst = tail_function()
        S.extraction.append(dict(function="critical.find_critical[tail]", sliced="last %d statements of the body (from `def remove_dup` on) compiled as a function of (R, Z, f, xpoint, opoint); nothing dropped" % nst))
        S.under_contract(FN_FL)
        _, nfl = legs_tail()
        S.extraction.append(dict(function="TokamakEquilibrium.findLegs[tail]", sliced="last %d statements (from `leg_lines = []`) compiled as a function of (self, xpoint, leg_points, step); nothing dropped" % nfl))
        S.contract("findLegs[tracing and inner/outer labels]", FN_FL, run_legs_tail, expected_exceptions=(), shape="two legs, two steps each; solve_ivp and wallIntersection by contract stubs", assume_safety="the poloidal field does not vanish along a leg")
        S.under_contract(FN_MR)
        for nxp in (1, 2, 3):
            S.contract("makeRegions[X-point filter, %d found]" % nxp, FN_MR, make_regions_run(nxp), expected_exceptions=(), shape="%d X-points with symbolic psi and positions; polygons.intersect by contract" % nxp)
            if nxp <= 2:
                S.contract("makeRegions[X-point filter, %d found, explicit psi_sol]" % nxp, FN_MR, make_regions_run(nxp, explicit_sol=True), expected_exceptions=(), shape="%d X-points with symbolic psi and positions; polygons.intersect by contract" % nxp)
        for fam in ("monotone", "overshoot", "minimum-away"):
            S.contract("find_critical[tail, %s]" % fam, FN, make_tail_run(fam), shape="2 O-points, 2 X-points, 50-point line profile of the stated family")


def post(S):
    planted(S)
