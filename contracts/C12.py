"""C12  A valid grid or an explicit error; shipped reference inputs generate.

Deductive / static part on the real code:
 * the set of variables written by BoutMesh.writeGridfile (+ the fields registered by
   BoutMesh.geometry) contains every variable documented in doc/grid-file.rst
   (decided over the AST of both functions and the text of the documentation);
 * Mesh.__init__ refuses (ValueError) any option whose value differs between the
   equilibrium and the mesh settings (symbolic: for an arbitrary pair of values);
 * the command-line entry point refuses option files with unknown keys;
 * definedness: dx is assigned at all four locations before DDX divides by it (C06),
   hy > 0 or ValueError (C05), Jacobian guard (C02), Bp sign guard (C03),
   monotonic guards (C05, C09, C10) -- referenced, proved in those checks.
Bounded: every reference configuration generates and its grid file passes the validity
predicate (documented variables, shapes, finite except documented NaNs, hy, dy > 0, no
folded cell, topology/chi consistency); hostile settings raise or produce a valid file.
"""
import ast
import inspect
import io
import os
import re
import sys
import textwrap
import time
import types
from contracts.meshkit import Opts as _Opts  # noqa: E402

import numpy
import z3

from vc.harness import REPO, ROOT
from vc.sym import And, Or, Not, Sym, spec_mode

LEVEL = "proof"
FN_W = "hypnotoad.core.mesh:BoutMesh.writeGridfile"
FN_G = "hypnotoad.core.mesh:BoutMesh.geometry"
FN_M = "hypnotoad.core.mesh:Mesh.__init__"
FN_S = "hypnotoad.scripts.hypnotoad_geqdsk:main"
TRUE = lambda b: Sym(z3.BoolVal(bool(b)))


def written_variables():
    from hypnotoad.core import mesh as M

    names = set()
    tree = ast.parse(textwrap.dedent(inspect.getsource(M.BoutMesh.writeGridfile)))
    for n in ast.walk(tree):
        if isinstance(n, ast.Call) and isinstance(n.func, ast.Attribute) and n.func.attr in ("write", "write_file_attribute") and n.args and isinstance(n.args[0], ast.Constant):
            names.add(n.args[0].value)
        if isinstance(n, ast.Call) and isinstance(n.func, ast.Attribute) and n.func.attr == "writeArray" and n.args and isinstance(n.args[0], ast.Constant):
            base = n.args[0].value
            names |= {base, base + "_xlow", base + "_ylow"}
    tree = ast.parse(textwrap.dedent(inspect.getsource(M.BoutMesh.geometry)))
    for n in ast.walk(tree):
        if isinstance(n, ast.Call) and isinstance(n.func, ast.Name) and n.func.id in ("addFromRegions", "addFromRegionsXArray") and n.args and isinstance(n.args[0], ast.Constant):
            base = n.args[0].value
            names |= {base, base + "_xlow", base + "_ylow"}
    for nm in ("Rxy", "Zxy"):
        for s in ("_corners", "_lower_right_corners", "_upper_right_corners", "_upper_left_corners"):
            names.add(nm + s)
    return names


def documented_variables():
    txt = open(os.path.join(REPO, "doc", "grid-file.rst")).read()
    out = set()
    for m in re.finditer(r"^\s+\* - (.+)$", txt, flags=re.M):
        for v in re.findall(r"``([A-Za-z0-9_\-]+)``", m.group(1)):
            out.add(v)
    return out


def static_obligations(S):
    w = written_variables()
    d = documented_variables()
    missing = sorted(v for v in d if v not in w)
    S.static_vc("file-contents", FN_W, "every variable documented in doc/grid-file.rst is written (%d documented, %d written)" % (len(d), len(w)), not missing and len(d) > 30, detail=repr(missing), kind="ast-frame", model=dict(missing=missing) if missing else None)
    S.extra_cov["documented_variables"] = len(d)
    S.extra_cov["written_variables"] = len(w)
    # entry point refuses unknown options
    from hypnotoad.scripts import hypnotoad_geqdsk

    import tempfile

    with tempfile.TemporaryDirectory() as td:
        y = os.path.join(td, "o.yaml")
        open(y, "w").write("nx_core: 4\nnot_an_option: 1\n")
        argv = sys.argv
        sys.argv = ["x", os.path.join(td, "missing.geqdsk"), y]
        try:
            hypnotoad_geqdsk.main()
            refused = False
        except ValueError as e:
            refused = "not_an_option" in str(e)
        except Exception:
            refused = False
        finally:
            sys.argv = argv
    S.static_vc("options", FN_S, "hypnotoad_geqdsk refuses an option file with an unknown key before doing any work", refused, kind="native")


def curvature_output_guard(S):
    """The curl_bOverB_* fields are registered for output for exactly the curvature types for which
    calc_curvature computes them (the guard in BoutMesh.geometry evaluated for every branch value of
    calc_curvature's own case analysis)."""
    from hypnotoad.core import mesh as M

    g = ast.parse(textwrap.dedent(inspect.getsource(M.BoutMesh.geometry))).body[0]
    guard = None
    for n in ast.walk(g):
        if isinstance(n, ast.If) and any(isinstance(c, ast.Call) and getattr(c.func, "id", "") == "addFromRegions" and c.args and getattr(c.args[0], "value", "") == "curl_bOverB_x" for st in n.body for c in ast.walk(st)):
            guard = n
    cc = ast.parse(textwrap.dedent(inspect.getsource(M.MeshRegion.calc_curvature))).body[0]
    computing = []  # curvature_type literals whose branch assigns self.curl_bOverB_x
    def branch_types(node):
        if isinstance(node, ast.If):
            lits = [c.value for c in ast.walk(node.test) if isinstance(c, ast.Constant) and isinstance(c.value, str)]
            assigns = any(isinstance(t, ast.Attribute) and t.attr == "curl_bOverB_x" for st in node.body for a in ast.walk(st) if isinstance(a, ast.Assign) for t in a.targets)
            if "curvature_type" in ast.unparse(node.test) and assigns:
                computing.extend(lits)
            for o in node.orelse:
                branch_types(o)
    for st in cc.body:
        branch_types(st)
    ok = guard is not None and len(computing) >= 2
    bad = []
    if ok:
        for v in sorted(set(computing)) + ["bxkappa", "something else"]:
            me = types.SimpleNamespace(user_options=_Opts(curvature_type=v))
            val = bool(eval(compile(ast.Expression(guard.test), "<guard>", "eval"), dict(M.__dict__), dict(self=me)))
            if val != (v in computing):
                bad.append(dict(curvature_type=v, registered_for_output=val, computed=v in computing))
    S.static_vc("file-contents", FN_G, "curl_bOverB_x/y/z are registered for output for exactly the curvature types that compute them (%s)" % sorted(set(computing)), ok and not bad, detail=repr(bad), kind="ast-frame", model=bad[0] if bad else None)


def run_mesh_option_mismatch(ctx):
    """Mesh.__init__'s consistency loop (sliced): raises iff some shared key differs."""
    from hypnotoad.core import mesh as M

    src = textwrap.dedent(inspect.getsource(M.Mesh.__init__))
    fdef = ast.parse(src).body[0]
    loop = None
    for st in fdef.body:
        if isinstance(st, ast.For) and "equilibrium.user_options" in ast.unparse(st.iter):
            loop = st
    if loop is None:
        raise LookupError("option-consistency loop not found in Mesh.__init__")
    f = ast.FunctionDef(name="_chk", args=ast.arguments(posonlyargs=[], args=[ast.arg(arg="self")], kwonlyargs=[], kw_defaults=[], defaults=[]), body=[loop], decorator_list=[], type_params=[])
    mod = ast.Module(body=[f], type_ignores=[])
    ast.fix_missing_locations(mod)
    loc = {}
    exec(compile(mod, "<vc:Mesh.__init__[option consistency]>", "exec"), M.__dict__, loc)
    a, b, c = ctx.int("eq_value_shared"), ctx.int("mesh_value_shared"), ctx.int("eq_only")
    me = types.SimpleNamespace(equilibrium=types.SimpleNamespace(user_options={"shared": a, "eq_only": c}), user_options={"shared": b, "mesh_only": 7})
    raised = False
    try:
        loc["_chk"](me)
    except ValueError:
        raised = True
    with spec_mode():
        if raised:
            ctx.oblige(a != b, "raises only when a shared option differs")
        else:
            ctx.oblige(a == b, "no error only when every shared option is equal")


def curvature_refusals(S):
    """calc_curvature refuses -- with ValueError, before anything is computed or stored -- the
    combinations it does not implement: the x-y-derivative form on a non-orthogonal grid, and
    curvature types it has no branch for.  The real method is run on a region that has NO field
    arrays at all: the only acceptable outcome is the ValueError (anything else -- returning, or
    failing later on a missing array -- means the refusal is gone)."""
    from hypnotoad.core.mesh import MeshRegion
    from . import meshkit as mk

    bad = []
    cases = [(False, "curl(b/B) with x-y derivatives", True), (True, "bxkappa", True), (False, "bxkappa", True), (True, "no such curvature type", True)]
    for orth, ctype, must_refuse in cases:
        r = mk.skeleton_region(orth, curvature_type=ctype)
        before = set(vars(r))
        try:
            MeshRegion.calc_curvature(r)
            out = "returned"
        except ValueError:
            out = "refused"
        except Exception as e:  # noqa
            out = "went on and failed with %s" % type(e).__name__
        stored = sorted(set(vars(r)) - before)
        if (out == "refused") != must_refuse or stored:
            bad.append(dict(orthogonal=orth, curvature_type=ctype, outcome=out, attributes_stored=stored[:4]))
    S.static_vc("curvature-refusals", "hypnotoad.core.mesh:MeshRegion.calc_curvature", "unsupported curvature settings are refused with ValueError before anything is stored (%d combinations)" % len(cases), not bad, detail=repr(bad[:3]), kind="native-all-classes", model=bad[0] if bad else None)


def option_consistency_classes(S):
    """The real Mesh.__init__ (run up to the version look-up, which is replaced by a sentinel) on
    real optionsfactory objects, for EVERY option shared by equilibrium and mesh: an equilibrium
    created with a non-default value and a mesh whose settings (a) omit the option, (b) give the
    default explicitly, (c) give yet another value are all refused; (d) the same value is accepted.
    (a) matters most: the mesh would silently use -- and embed in the grid file -- its default while
    the equilibrium was built with something else (C14: the file's inputs would not regenerate it)."""
    from hypnotoad.cases import tokamak as T
    from hypnotoad.core import mesh as M
    from vc.shim import patched

    class Reached(Exception):
        pass

    def stop():
        raise Reached()

    mo = M.BoutMesh.user_options_factory.create({})
    eo = T.TokamakEquilibrium.user_options_factory.create({})
    shared = [k for k in eo if k in mo]

    def other(v, k, n=1):
        if isinstance(v, bool):
            return (not v) if n == 1 else None
        if isinstance(v, int):
            return v + n
        if isinstance(v, float):
            return v * (0.5 if n == 1 else 0.25)
        if v is None:
            return 0.1 * n
        if isinstance(v, list):
            return [["integrate"], ["line"]][n - 1]
        if isinstance(v, str):
            alts = {"psi_interpolation_method": ["dct", None], "poloidal_spacing_method": ["linear", "monotonic"]}.get(k)
            return alts[n - 1] if alts else None
        return None

    def attempt(eq_settings, mesh_settings):
        try:
            eq_opts = T.TokamakEquilibrium.user_options_factory.create(eq_settings)
        except Exception:
            return "eq-invalid"
        m = object.__new__(M.BoutMesh)
        eq = types.SimpleNamespace(user_options=eq_opts)
        try:
            with patched((M, "get_versions", stop), (M, "print", lambda *a, **k: None)):
                M.Mesh.__init__(m, eq, mesh_settings)
        except Reached:
            return "accepted"
        except ValueError:
            return "refused"
        except Exception as e:
            return "error %r" % e
        return "accepted"

    bad, used, n = [], [], 0
    for k in shared:
        v1, v2 = other(eo[k], k, 1), other(eo[k], k, 2)
        if v1 is None:
            continue
        if attempt({k: v1}, {k: v1}) != "accepted":
            continue  # value not valid for this option: class not exercised
        used.append(k)
        cases = [("omitted", {}, "refused"), ("default given explicitly", {k: eo[k]}, "refused"), ("same value", {k: v1}, "accepted")]
        if v2 is not None and attempt({k: v2}, {k: v2}) == "accepted":
            cases.append(("another value", {k: v2}, "refused"))
        if eo[k] is None:
            cases = [c for c in cases if c[0] != "default given explicitly"] + [("default (None) given explicitly", {k: None}, "refused")]
        for what, ms, want in cases:
            n += 1
            got = attempt({k: v1}, ms)
            if got != want:
                bad.append(dict(option=k, equilibrium_value=repr(v1), mesh_settings=what, got=got, want=want))
    S.static_vc("option-consistency", FN_M, "Mesh.__init__ refuses a mesh whose (evaluated) value of a shared option differs from the equilibrium's -- option omitted, default given, other value -- and accepts equal values: %d options x cases = %d (%s ...)" % (len(used), n, ", ".join(used[:6])), not bad and len(used) >= 15, detail=repr(bad[:3]) if bad else "options exercised: %d" % len(used), kind="native-all-classes", model=bad[0] if bad else None)


def build(S):
    S.under_contract(FN_W, FN_G, FN_M, FN_S)
    S.assume("the validity of a generated file (finite values, positive hy, no folded cells) is decided on generated grids only (bounded); the deductive part covers the variable set, option checks and the definedness/guard obligations proved in C02, C03, C05, C06, C09, C10")
    S.assume("optionsfactory value checks (types, ranges) are an external dependency (assumed)")
    static_obligations(S)
    curvature_output_guard(S)
    S.contract("Mesh.__init__[option consistency]", FN_M, run_mesh_option_mismatch, shape="one shared, one equilibrium-only, one mesh-only option")
    option_consistency_classes(S)
    S.under_contract("hypnotoad.core.mesh:MeshRegion.calc_curvature")
    curvature_refusals(S)
    from vc.shim import numpy_shimmed
    from . import C08, C09

    with numpy_shimmed():
        # documented shape of every 2-d variable: what reaches the file, and from where
        S.under_contract(C08.FN_GEO, "hypnotoad.core.mesh:BoutMesh.writeArray")
        S.contract("geometry[assembly of global arrays]", C08.FN_GEO, C08.run_assembly, shape="4 regions, all values symbolic")
        S.contract("writeArray/writeCorners/writeArrayXDirection", "hypnotoad.core.mesh:BoutMesh.writeArray", C08.run_write_arrays, shape="nx=ny=2")
        # the x-direction arrays (total_poloidal_distance, ShiftAngle) are FILLED on closed surfaces --
        # NaN is documented outside the core only -- also when the closed chain has several regions
        # (double null: inner_core + outer_core) or is a single region joined to itself
        from . import chainkit

        S.under_contract("hypnotoad.core.mesh:MeshRegion.calcPoloidalDistance", "hypnotoad.core.mesh:MeshRegion.calcZShift")
        S.contract("calcPoloidalDistance[two-region closed chain: total filled]", "hypnotoad.core.mesh:MeshRegion.calcPoloidalDistance", chainkit.run_poloidal_distance(True, 0), shape="two regions, nx=1")
        S.contract("calcPoloidalDistance[one closed region: total filled]", "hypnotoad.core.mesh:MeshRegion.calcPoloidalDistance", chainkit.run_poloidal_distance(True, 0, single=True), shape="one periodic region, nx=1")
        S.contract("calcZShift[two-region closed chain: ShiftAngle filled]", "hypnotoad.core.mesh:MeshRegion.calcZShift", chainkit.run_zshift(True), shape="two regions, nx=1, ny=1", assume_safety="R>0 and Bp!=0 at the fine-contour nodes (geometry preconditions)")
        # refusal guard of connected double nulls whose separatrices differ (else the SOL grid folds over the second X-point)
        S.under_contract("hypnotoad.cases.tokamak:TokamakEquilibrium.describeDoubleNull")
        for topo in ("cdn_unbalanced", "cdn_upper_primary"):
            S.contract("connected-double-null guard[%s]" % topo, "hypnotoad.cases.tokamak:TokamakEquilibrium.describeDoubleNull", C09.run_wiring(topo), expected_exceptions=(ValueError,), raises_ok=lambda p: True, shape="sizes and first SOL surfaces symbolic")


def post(S):
    from bounded import gridrun, gridbank as gb
    from .C05_bounded import circ_cfg

    cfgs = gridrun.quick_set() if S.tier == "quick" else gridrun.thorough_set()
    cfgs = cfgs + [circ_cfg(100, y_boundary_guards=2), circ_cfg(100, y_boundary_guards=0)]
    # optional post-processing of the curvature, with and without a toroidal field (the shipped
    # example has none: two curvature components are then identically zero)
    cfgs += [gb.cfg("lsn", dict(orthogonal=True, nx_core=10, nx_sol=10, ny_inner_divertor=8, ny_outer_divertor=8, ny_sol=24, curvature_type="curl(b/B) with x-y derivatives"), psi_sign=1.0, label="lsn-fine-xy(psi+1)", fpol="profile", pressure=True),
             gb.cfg("lsn", dict(orthogonal=True), fpol="const", label="lsn-orth-noBt (as the shipped example)"), gb.cfg("lsn", dict(orthogonal=True, curvature_smoothing="smoothnl"), fpol="const", label="lsn-orth-smoothnl-noBt"), gb.cfg("lsn", dict(orthogonal=True, curvature_smoothing="smoothnl"), fpol="profile", pressure=True, label="lsn-orth-smoothnl")]
    gridrun.run(S, ["file_valid", "file_topology"], FN_W, cfgs=cfgs, name="validity predicate on the grid file of every reference configuration")
    hostile(S)


def hostile(S):
    """Settings at and beyond the edge of the envelope: generation must raise, or the file
    must pass the validity predicate."""
    from bounded import gridbank as gb, gridchecks as gc

    t0 = time.time()
    P = dict(fpol="profile", pressure=True)
    cfgs = [
        gb.cfg("lsn", dict(orthogonal=True, ny_inner_divertor=1, ny_outer_divertor=1, ny_sol=2, nx_core=1, nx_sol=1), label="hostile:tiny", **P),
        gb.cfg("lsn", dict(orthogonal=True, psinorm_sol=3.0), label="hostile:psinorm_sol beyond the data", **P),
        gb.cfg("lsn", dict(orthogonal=True, psinorm_core=1.05), label="hostile:core boundary outside the separatrix", **P),
        gb.cfg("cdn", dict(orthogonal=True, nx_inter_sep=3), label="hostile:nx_inter_sep on a connected double null", **P),
        gb.cfg("lsn", dict(orthogonal=True, finecontour_Nfine=8), label="hostile:finecontour_Nfine=8", **P),
        gb.cfg("cdn", dict(orthogonal=True, ny_inner_upper_divertor=2, ny_outer_upper_divertor=6, ny_inner_lower_divertor=5, ny_outer_lower_divertor=3, y_boundary_guards=1, refine_timeout=20.0), label="hostile:connected double null with four different leg sizes (refinement of a short leg does not converge)", **P),
        gb.cfg("cdn", dict(orthogonal=True, psi_interpolation_method="dct"), label="hostile:dct interpolant whose X-point flux differs from the spline's", **P),
        gb.cfg("lsn", dict(orthogonal=True, target_all_poloidal_spacing_length=1.0e-4), label="hostile:tiny target spacing", **P),
    ]
    if S.tier == "quick":
        cfgs = cfgs[:4]
    res = gb.generate_many(cfgs)
    rows, bad = [], []
    for c, r in zip(cfgs, res):
        if not r["ok"]:
            rows.append(dict(cfg=c["label"], outcome="refused: " + r["error"][:100]))
            continue
        out = gc.run_clauses(r["data"], ["file_valid"])
        nf = sum(o["failures"] for o in out)
        rows.append(dict(cfg=c["label"], outcome="generated", validity_failures=nf))
        if nf:
            bad.append(dict(cfg=c["label"], samples=out[0]["samples"]))
    S.bounded.append(dict(name="hostile settings: explicit error or valid file", evaluations=len(rows), distinct_nontrivial=len(rows), rule="each hostile configuration either raises or produces a file that passes the validity predicate; distinct = configurations", bound="%d configurations" % len(cfgs), samples=rows, failures=bad, wall_s=round(time.time() - t0, 1)))  # fmt: skip
    for b in bad:
        S.static_vc("bounded:hostile[%s]" % b["cfg"], FN_W, "silently wrote a malformed grid", False, detail=repr(b)[:1200], kind="bounded-grid", model=b)
