"""Contracts on the real MeshRegion.calcZShift and MeshRegion.calcPoloidalDistance run on a
chain of two y-connected skeleton regions whose contours carry symbolic distances.

External contracts (assumed, stubs): FineContour distance/positions (symbolic),
cumulative_trapezoid(y, x, initial=0)[k] = sum_{m<k} (x[m+1]-x[m]) (y[m]+y[m+1])/2,
interp1d(x, y, linear)(x[k]) = y[k] (contour points coincide with fine-contour nodes in
the stub; the interpolation weights themselves are C05's).
"""
import types

import numpy

from vc.sym import Sym, And
from . import meshkit as mk


class FineStub:
    def __init__(self, ctx, tag, n, startInd):
        self.distance = numpy.array([ctx.real("%s_fd%d" % (tag, k)) for k in range(n)], dtype=object)
        self.positions = numpy.empty((n, 2), dtype=object)
        for k in range(n):
            self.positions[k, 0] = ctx.real("%s_fR%d" % (tag, k))
            self.positions[k, 1] = ctx.real("%s_fZ%d" % (tag, k))
        self.startInd = startInd


class ContourStub:
    """2*ny+1 points; point k coincides with fine-contour node k + fine_offset (so interp1d is
    exact); fine_offset > 0 models a fine contour that extends below the first contour point, so
    that the fine contour's start index differs from the contour's."""

    def __init__(self, ctx, tag, npts, startInd=0, fine_offset=0):
        self.tag = tag
        self.off = fine_offset
        self.fine = FineStub(ctx, tag, npts + fine_offset, startInd + fine_offset)
        self.startInd = startInd
        self.npts = npts

    def get_fine_contour(self, psi=None):
        return self.fine

    def get_distance(self, psi=None):
        return self.fine.distance[self.off : self.off + self.npts]


def trapz_stub(y, x=None, initial=None):
    out = numpy.empty(len(y), dtype=object)
    acc = 0 * x[0]
    out[0] = acc
    for k in range(1, len(y)):
        acc = acc + (x[k] - x[k - 1]) * (y[k] + y[k - 1]) / 2
        out[k] = acc
    return out


class Interp1dStub:
    def __init__(self, x, y, kind="linear", assume_sorted=True):
        self.x, self.y = x, y
        self.kind = kind

    def __call__(self, xs):
        out = numpy.empty(len(xs), dtype=object)
        for i, v in enumerate(xs):
            hit = [k for k in range(len(self.x)) if isinstance(v, Sym) and v.t.eq(self.x[k].t)]
            if not hit:
                raise LookupError("interp1d evaluated off the fine-contour nodes")
            out[i] = self.y[hit[0]]
        return out


def make_chain(ctx, nx=1, ny=1, start1=0, periodic=False, with_second=True, fine_offset=0):
    """region r1 (yGroupIndex 0) -> r2; returns (r1, r2, field stubs)."""
    from hypnotoad.core.mesh import MeshRegion

    regs = {}

    def mkreg(name, rid, start):
        r = mk.skeleton_region(True)
        r.nx, r.ny, r.name, r.myID = nx, ny, name, rid
        r.contours = [ContourStub(ctx, "%s_c%d" % (name, a), 2 * ny + 1, start, fine_offset if rid == 1 else 0) for a in range(2 * nx + 1)]
        r.yGroupIndex = 0 if rid == 1 else 1
        r.equilibriumRegion.psi = None
        return r

    r1, r2 = mkreg("r1", 1, start1), mkreg("r2", 2, 0)
    regs = {1: r1, 2: r2}
    r1.connections = dict(lower=(2 if periodic else None), upper=(2 if with_second else (1 if periodic else None)), inner=None, outer=None)
    r2.connections = dict(lower=1, upper=(1 if periodic else None), inner=None, outer=None)
    integ = {}

    def field(name):
        def sym(a, b=None):
            k = (name, a.t.get_id(), b.t.get_id() if b is not None else None)
            if k not in integ:
                integ[k] = ctx.real("%s!%d" % (name, len(integ)))
                keep.append((a, b))
            return integ[k]

        def f(R, Z=None):
            if isinstance(R, Sym):  # scalar call
                return sym(R, Z)
            out = numpy.empty(numpy.shape(R), dtype=object)
            for idx in numpy.ndindex(*out.shape):
                out[idx] = sym(R[idx], Z[idx] if Z is not None else None)
            return out

        f.sym = sym
        return f

    keep = []
    # class invariant of a MeshRegion: contour a lies on the flux surface psi_vals[a]
    pos2psi = {}
    for r in (r1, r2):
        r.psi_vals = numpy.array([ctx.real("%s_psi%d" % (r.name, a)) for a in range(len(r.contours))], dtype=object)
        for a, c in enumerate(r.contours):
            for k in range(c.npts):
                pos2psi[(c.fine.positions[k, 0].t.get_id(), c.fine.positions[k, 1].t.get_id())] = r.psi_vals[a]
    generic_psi = field("psi")

    def psi_field(R, Z):
        out = generic_psi(R, Z)
        for idx in numpy.ndindex(*out.shape):
            k = (R[idx].t.get_id(), Z[idx].t.get_id())
            if k in pos2psi:
                out[idx] = pos2psi[k]
                integ[("psi", k[0], k[1])] = pos2psi[k]
        return out

    eq = types.SimpleNamespace(psi=psi_field, fpol=field("fpol"), Bp_R=field("BpR"), Bp_Z=field("BpZ"))
    mp = types.SimpleNamespace(regions=regs, equilibrium=eq)
    r1.meshParent = r2.meshParent = mp
    return r1, r2, integ


def run_zshift(periodic, single=False, start1=0, fine_offset=0, repeat=1):
    """Real calcZShift on a two-region chain (nx=1, ny=1); single=True: ONE region that is its
    own upper and lower neighbour (the periodic core of a single null).  repeat=2: called a
    second time on the same regions (Mesh.geometry() runs again on every "write grid" of the
    GUI and after redistributePoints): the post-condition is the same -- nothing accumulates."""

    def run(ctx):
        from hypnotoad.core import mesh as M
        from vc.shim import patched
        from vc.sym import spec_mode

        r1, r2, integ = make_chain(ctx, periodic=periodic, with_second=not single, start1=start1, fine_offset=fine_offset, ny=2 if start1 else 1)
        if single:
            r1.connections["lower"] = 1
        # preconditions: R > 0, Bp != 0 at the fine-contour nodes
        for r in (r1,) if single else (r1, r2):
            for c in r.contours:
                for k in range(c.npts + c.off):
                    ctx.assume(c.fine.positions[k, 0] > 0)
        with patched((M, "cumulative_trapezoid", trapz_stub), (M, "interp1d", Interp1dStub), (M, "print", lambda *a, **k: None)):
            # Bp^2 > 0 is needed by sqrt/division: assumed through the safety mechanism below
            for _ in range(repeat):
                M.MeshRegion.calcZShift(r1)

        def integrand(c, k):
            R, Z = c.fine.positions[k, 0], c.fine.positions[k, 1]
            eq = r1.meshParent.equilibrium
            g = lambda nm, *a: {"BpR": eq.Bp_R, "BpZ": eq.Bp_Z}[nm].sym(*a)
            psi = eq.psi(numpy.array([R], dtype=object), numpy.array([Z], dtype=object))[0]
            f = eq.fpol.sym(psi)
            bp = (g("BpR", R, Z) ** 2 + g("BpZ", R, Z) ** 2).sqrt()
            return f / R / (R * bp)

        def T(c, k):
            acc = 0
            for m in range(1, k + 1):
                acc = acc + (c.fine.distance[m] - c.fine.distance[m - 1]) * (integrand(c, m) + integrand(c, m - 1)) / 2
            return acc

        with spec_mode():
            locmap = {"corners": (0, 0), "xlow": (0, 1), "ylow": (1, 0), "centre": (1, 1)}  # (contour parity, point parity)
            for reg, base in ((r1, None),) if single else ((r1, None), (r2, r1)):
                for loc, (cpar, ppar) in locmap.items():
                    arr = getattr(reg.zShift, loc)
                    for i in range(arr.shape[0]):
                        c = reg.contours[2 * i + cpar]
                        for j in range(arr.shape[1]):
                            k = 2 * j + ppar + c.off
                            own = T(c, k) - T(c, c.startInd + c.off)
                            if base is None:
                                want = own
                            else:
                                face = "ylow" if cpar == 1 else "corners"
                                want = getattr(base.zShift, face)[i, -1] + own
                            ctx.oblige(arr[i, j] == want, "%s.zShift.%s[%d,%d] = %strapezoid integral from the start of its contour" % (reg.name, loc, i, j, "" if base is None else "value at the end of the previous region + "))
            j0 = start1 // 2  # the y-face at the contour's start point (beyond it: guard cells, negative values)
            ctx.oblige(And(r1.zShift.ylow[0, j0] == 0, r1.zShift.corners[0, j0] == 0, r1.zShift.corners[1, j0] == 0), "zShift is zero at the start of the chain (the contour's start point, i.e. the target)")
            last = r1 if single else r2
            if not single:
                ctx.oblige(And(r2.zShift.ylow[0, 0] == r1.zShift.ylow[0, -1], r2.zShift.corners[0, 0] == r1.zShift.corners[0, -1], r2.zShift.corners[1, 0] == r1.zShift.corners[1, -1]), "zShift continuous across the join r1->r2")
            if periodic:
                ctx.oblige(r1.ShiftAngle.centre[0, 0] == last.zShift.ylow[0, -1] - r1.zShift.ylow[0, 0], "ShiftAngle.centre = zShift at the end of the LAST region of the chain - zShift at its start")
                ctx.oblige(And(r1.ShiftAngle.xlow[0, 0] == last.zShift.corners[0, -1] - r1.zShift.corners[0, 0], r1.ShiftAngle.xlow[1, 0] == last.zShift.corners[1, -1] - r1.zShift.corners[1, 0]), "ShiftAngle.xlow likewise")
            else:
                import z3 as _z3

                ctx.oblige(Sym(_z3.BoolVal(r1.ShiftAngle._centre_array is None)), "ShiftAngle undefined on an open chain")
        return r1

    return run


def run_poloidal_distance(periodic, start1, single=False, repeat=1):
    def run(ctx):
        from hypnotoad.core import mesh as M
        from vc.shim import patched
        from vc.sym import spec_mode

        r1, r2, _ = make_chain(ctx, periodic=periodic, start1=start1, ny=2 if start1 else 1, with_second=not single)
        if single:
            r1.connections["lower"] = 1
        with patched((M, "print", lambda *a, **k: None)):
            for _ in range(repeat):
                M.MeshRegion.calcPoloidalDistance(r1)
        with spec_mode():
            locmap = {"corners": (0, 0), "xlow": (0, 1), "ylow": (1, 0), "centre": (1, 1)}
            for reg, base in ((r1, None),) if single else ((r1, None), (r2, r1)):
                for loc, (cpar, ppar) in locmap.items():
                    arr = getattr(reg.poloidal_distance, loc)
                    for i in range(arr.shape[0]):
                        c = reg.contours[2 * i + cpar]
                        d = c.fine.distance
                        for j in range(arr.shape[1]):
                            own = d[2 * j + ppar] - d[c.startInd]
                            if base is None:
                                want = own
                            else:
                                face = "ylow" if cpar == 1 else "corners"
                                want = getattr(base.poloidal_distance, face)[i, -1] + own
                            ctx.oblige(arr[i, j] == want, "%s.poloidal_distance.%s[%d,%d] = %sdistance from the first point of ITS OWN contour" % (reg.name, loc, i, j, "" if base is None else "value at the end of the previous region + "))
            if not single:
                ctx.oblige(And(r2.poloidal_distance.ylow[0, 0] == r1.poloidal_distance.ylow[0, -1], r2.poloidal_distance.corners[1, 0] == r1.poloidal_distance.corners[1, -1]), "poloidal_distance continuous across the join")
            if periodic:
                ctx.oblige(r1.total_poloidal_distance.centre[0, 0] == (r1 if single else r2).poloidal_distance.ylow[0, -1], "total_poloidal_distance = value at the end of the last region")
        return r1

    return run
