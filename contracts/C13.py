"""C13  Parallel execution is observationally equivalent to serial execution.

Deductive part (no process is started): the real ParallelMap.__call__ and
ParallelMap.worker_run are executed with the two multiprocessing queues replaced by
*contract stubs* (assumed queue semantics: every item put is delivered exactly once,
in arbitrary order).  The completion order is a universally quantified choice
sequence: `result_queue.get()` returns an arbitrary pending item, chosen by a
symbolic integer that the explorer enumerates, so every interleaving of every task
count n <= N is a path.  Task results are opaque symbols (A-PURE).

Obligations: result == [f(a) for a in args_list] for every order (also serial
branch); every task is put exactly once with its index; a failing task at any
position surfaces as that task's exception in the caller after all answers have been
collected (queues clean), never a hang: the number of answers put by the workers
equals the number of tasks taken (liveness as a counting obligation on worker_run).
"""
import types

import z3

from vc.sym import And, Or, Sym, spec_mode, SymbolicError

LEVEL = "proof"
FN_CALL = "hypnotoad.utils.parallel_map:ParallelMap.__call__"
FN_WORK = "hypnotoad.utils.parallel_map:ParallelMap.worker_run"
TRUE = lambda b: Sym(z3.BoolVal(bool(b)))


class StopWorker(BaseException):
    pass


class TaskError(Exception):
    pass


class MultiArgError(Exception):
    """Same shape as mesh.py's MaxIterException: several required constructor arguments,
    one message forwarded -- pickles, but cannot be rebuilt by pickle.loads."""

    def __init__(self, index, extra):
        super().__init__("task %d" % index)
        self.index = index


class WouldBlock(Exception):
    """The caller would wait on an empty queue forever."""


def choose(ctx, name, n):
    """Arbitrary integer in [0, n): symbolic, enumerated by branching."""
    if n <= 0:
        raise SymbolicError("choice from an empty set")
    k = ctx.int(name)
    ctx.assume(And(k >= 0, k < n))
    for v in range(n - 1):
        if k == v:
            return v
    return n - 1


class Queue:
    """Contract stub of multiprocessing.Queue (assumed): put appends to the multiset of
    pending items; get removes and returns an ARBITRARY pending item."""

    def __init__(self, ctx, name, on_empty=None):
        self.ctx, self.name = ctx, name
        self.pending = []
        self.puts = []
        self.gets = 0
        self.on_empty = on_empty
        self.transport = False
        self.lost = []

    def put(self, item, block=True, timeout=None):
        self.put_args = getattr(self, "put_args", []) + [(block, timeout)]
        # items travel pickled (as in multiprocessing): an item that cannot be pickled is
        # lost in the feeder thread; symbolic task results stand for picklable values
        self.puts.append(item)
        if self.transport and not _has_sym(item):
            import pickle

            try:
                item = ("pickled", pickle.dumps(item))
            except Exception:
                self.lost.append(item)
                return
        self.pending.append(item)

    def get(self, block=True, timeout=None):
        self.get_args = getattr(self, "get_args", []) + [(block, timeout)]
        if not self.pending and self.on_empty is not None:
            self.on_empty(self)
        if not self.pending:
            raise WouldBlock("get() on an empty %s would block forever" % self.name)
        k = choose(self.ctx, "%s_choice_%d" % (self.name, self.gets), len(self.pending))
        self.gets += 1
        item = self.pending.pop(k)
        if isinstance(item, tuple) and len(item) == 2 and item[0] == "pickled":
            import pickle

            item = pickle.loads(item[1])  # may raise in the caller, as it would natively
        return item

    def empty(self):
        return not self.pending


def _has_sym(x):
    if isinstance(x, Sym):
        return True
    if isinstance(x, (tuple, list)):
        return any(_has_sym(y) for y in x)
    if isinstance(x, dict):
        return any(_has_sym(y) for y in x.values())
    return callable(x) and not isinstance(x, type)


def make_call_run(n, nworkers, failing=None, exc_type=None):
    """__call__ with n tasks; workers are run *through the real worker_run* whenever the
    caller would block on an empty result queue (a legal schedule; the order in which
    answers come back is then chosen arbitrarily by result_queue.get)."""

    def run(ctx):
        from hypnotoad.utils import parallel_map as PM

        vals = [ctx.real("f_a%d" % i) for i in range(n)]
        args_list = [("a%d" % i,) for i in range(n)]
        calls = []

        def function(a, *, equilibrium, psi, f_R, f_Z, extra=None):
            calls.append((a, equilibrium, psi, f_R, f_Z, extra))
            i = int(a[1:])
            if failing is not None and i in failing:
                raise (TaskError("task %d" % i) if exc_type is None else exc_type(i, "x"))
            return vals[i]

        eq = types.SimpleNamespace(psi="PSI", f_R="FR", f_Z="FZ")
        pm = object.__new__(PM.ParallelMap)
        pm.workers = [types.SimpleNamespace(terminate=lambda: None, join=lambda: None) for _ in range(nworkers)]  # not None: parallel branch
        rq = Queue(ctx, "rq")
        rq.transport = True  # answers cross the process boundary pickled
        tq = Queue(ctx, "tq")

        def run_workers(_):
            # all workers drain the task queue (each get() picks an arbitrary task)
            def stop(q):
                raise StopWorker()

            tq.on_empty = stop
            try:
                with _dill_identity(PM, eq):
                    PM.ParallelMap.worker_run(tq, rq, eq)
            except StopWorker:
                pass
            tq.on_empty = None

        rq.on_empty = run_workers
        pm.task_queue, pm.result_queue = tq, rq
        exc = None
        res = None
        try:
            res = PM.ParallelMap.__call__(pm, function, iter(args_list), extra="kw")
        except (TaskError, MultiArgError, RuntimeError) as e:
            exc = e
        except WouldBlock as e:
            exc = e
        except Exception as e:  # e.g. an answer that cannot be unpickled in the caller
            exc = e
        with spec_mode():
            ctx.oblige(TRUE(not isinstance(exc, WouldBlock) and not rq.lost), "liveness: the caller never waits on an answer that cannot arrive")
            ctx.oblige(TRUE([p[0] for p in tq.puts] == list(range(n)) and all(p[1] is function and p[2] == args_list[p[0]] and p[3] == {"extra": "kw"} for p in tq.puts)), "every task is put exactly once, tagged with its index")
            ctx.oblige(TRUE(len(rq.puts) == n), "liveness: the workers answer every task (|answers| = n), also when tasks fail")
            ctx.oblige(TRUE(all(a == (True, None) for q in (rq, tq) for a in getattr(q, "get_args", []) + getattr(q, "put_args", []))), "every queue operation waits without a deadline: a task that takes long is not a failed task (the serial map has no deadline either), and nothing is left behind in a queue by giving up")
            ctx.oblige(TRUE(sorted(p[0] for p in rq.puts) == list(range(n))), "each index answered exactly once")
            ctx.oblige(TRUE(tq.empty() and rq.empty()), "queues are clean afterwards (no stale answer reaches the next call)")
            ctx.oblige(TRUE(all(c[1] is eq and c[2:5] == ("PSI", "FR", "FZ") and c[5] == "kw" for c in calls)), "workers call function(*args, equilibrium, psi, f_R, f_Z, **kwargs)")
            if failing:
                ctx.oblige(TRUE(exc is not None and ("task %d" % min(failing)) in str(exc) and not isinstance(exc, (WouldBlock, TypeError))), "a failing task raises in the caller: the error of the first failed task, as a serial run")
            else:
                ctx.oblige(TRUE(exc is None and isinstance(res, list) and len(res) == n), "returns a list of n results")
                if res is not None:
                    for i in range(n):
                        ctx.oblige(TRUE(res[i] is vals[i]), "result[%d] is f(args[%d]) whatever the completion order" % (i, i))
        return res

    return run


class _dill_identity:
    """dill.loads/dumps of the (already live) equilibrium object: identity (assumed round
    trip); everything else goes through the real dill."""

    def __init__(self, PM, eq):
        self.PM, self.eq = PM, eq

    def __enter__(self):
        self.saved = real = self.PM.dill
        eq = self.eq
        self.PM.dill = types.SimpleNamespace(loads=lambda x: x if x is eq else real.loads(x), dumps=lambda x: x if x is eq else real.dumps(x))

    def __exit__(self, *a):
        self.PM.dill = self.saved
        return False


def make_history_run(nworkers):
    """Several successive maps over ONE ParallelMap whose workers stay alive in between (the real
    worker_run loops, here in threads fed by thread-safe FIFO queues): every task of every call
    receives exactly the keywords a serial run gives it -- equilibrium, psi, f_R, f_Z and the
    keywords of ITS OWN call; nothing a worker saw in an earlier call reaches a later one (the mesh
    maps followPerpendicular with atol/rtol/psivals/... and then PsiContour.refine, which accepts
    atol and swallows unknown keywords)."""

    def run(ctx):
        import queue
        import threading

        from hypnotoad.utils import parallel_map as PM

        class Stop(BaseException):
            pass

        class Q(queue.Queue):
            def get(self, *a, **k):
                return queue.Queue.get(self, timeout=60)

        seen = {}

        def mk(call):
            def function(a, **kw):
                seen.setdefault(call, []).append((a, tuple(sorted((k, repr(v)) for k, v in kw.items()))))
                return (call, a)

            return function

        history = [("follow", dict(atol=1e-11, rtol=1e-12, psivals=[1.0, 2.0], maxits=7, recover=True)), ("refine", dict(width=0.3)), ("refine", dict()), ("follow", dict(atol=2e-9))]
        eq = types.SimpleNamespace(psi="PSI", f_R="FR", f_Z="FZ")

        def play(parallel):
            seen.clear()
            pm = object.__new__(PM.ParallelMap)
            out, threads = [], []
            if parallel:
                pm.task_queue, pm.result_queue = Q(), Q()

                def target():
                    try:
                        with _dill_identity(PM, eq):
                            PM.ParallelMap.worker_run(pm.task_queue, pm.result_queue, eq)
                    except (Stop, queue.Empty):
                        pass

                threads = [threading.Thread(target=target, daemon=True) for _ in range(nworkers)]
                pm.workers = [types.SimpleNamespace(terminate=lambda: None, join=lambda: None) for _ in threads]
                for t in threads:
                    t.start()
            else:
                pm.workers = None
                pm.equilibrium, pm.psi, pm.f_R, pm.f_Z = eq, eq.psi, eq.f_R, eq.f_Z
            err = None
            try:
                for k, (name, kw) in enumerate(history):
                    out.append(PM.ParallelMap.__call__(pm, mk(k), [("t%d" % j,) for j in range(3)], **kw))
            except BaseException as e:  # noqa
                err = e
            if parallel:

                def stop(*a, **k):
                    raise Stop()

                for _ in threads:
                    pm.task_queue.put((0, stop, (), {}))
                for t in threads:
                    t.join(20)
            return out, err, {k: sorted(v) for k, v in seen.items()}

        s_out, s_err, s_seen = play(False)
        p_out, p_err, p_seen = play(True)
        with spec_mode():
            ctx.oblige(TRUE(s_err is None and p_err is None), "all calls of the history return (serial and with live workers)")
            ctx.oblige(TRUE(p_out == s_out), "same results, call by call")
            base = {"equilibrium": repr(eq), "psi": repr("PSI"), "f_R": repr("FR"), "f_Z": repr("FZ")}
            for k, (name, kw) in enumerate(history):
                want = tuple(sorted(dict(base, **{a: repr(b) for a, b in kw.items()}).items()))
                ctx.oblige(TRUE(len(p_seen.get(k, [])) == 3 and all(r[1] == want for r in p_seen.get(k, []))), "call %d (%s): every task receives equilibrium, psi, f_R, f_Z and the keywords of its own call ONLY" % (k, name))
                ctx.oblige(TRUE(p_seen.get(k) == s_seen.get(k)), "call %d (%s): workers and serial execution pass identical keywords" % (k, name))
            ctx.oblige(TRUE(p_seen.get(1) == s_seen.get(0)), "twin: call 1 sees the keywords of call 0", kind="must-fail")

    return run


def run_init(ctx):
    """The liveness proof of __call__ (all tasks are put before any answer is read) rests on the
    queue contract `put never blocks`.  That is the documented behaviour of an UNBOUNDED
    multiprocessing.Queue (a feeder thread buffers the items) and of nothing else in the module:
    SimpleQueue / Pipe write into a 64 KiB OS pipe and block when it is full, a Queue with maxsize
    blocks when it is full.  The real __init__ is run against a recording stand-in of the
    multiprocessing module: both queues are created by Queue() without a size limit, the workers
    are Process(target=worker_run, args=(task_queue, result_queue, pickled equilibrium)) with
    exactly these two queues in this order, np of them, every one started; np = 1: no queue, no
    process, serial attributes set."""
    from hypnotoad.utils import parallel_map as PM
    from vc.shim import patched

    made = []

    class FakeMP:
        def __getattr__(self, name):
            def ctor(*a, **k):
                obj = types.SimpleNamespace(kind=name, args=a, kwargs=k, started=0)
                obj.start = lambda o=obj: setattr(o, "started", o.started + 1)
                made.append(obj)
                return obj

            return ctor

    eq = types.SimpleNamespace(psi="PSI", f_R="FR", f_Z="FZ")
    out = {}
    for np_ in (1, 2, 3):
        del made[:]
        pm = object.__new__(PM.ParallelMap)
        with patched((PM, "multiprocessing", FakeMP())), _dill_identity(PM, eq):
            PM.ParallelMap.__init__(pm, np_, equilibrium=eq)
        out[np_] = (pm, list(made))
    with spec_mode():
        pm1, made1 = out[1]
        ctx.oblige(TRUE(made1 == [] and pm1.workers is None and pm1.equilibrium is eq and (pm1.psi, pm1.f_R, pm1.f_Z) == ("PSI", "FR", "FZ")), "np=1: serial -- no queue, no process")
        for np_ in (2, 3):
            pm, mk_ = out[np_]
            qs = [o for o in mk_ if o.kind != "Process"]
            ps = [o for o in mk_ if o.kind == "Process"]
            ctx.oblige(TRUE(len(qs) == 2 and all(q.kind == "Queue" and q.args == () and not q.kwargs for q in qs)), "np=%d: both queues are unbounded multiprocessing.Queue objects (the class whose put never blocks)" % np_)
            ctx.oblige(TRUE(len(qs) == 2 and pm.task_queue is not pm.result_queue and {id(pm.task_queue), id(pm.result_queue)} == {id(q) for q in qs}), "np=%d: two distinct queues, kept as task_queue / result_queue" % np_)
            ctx.oblige(TRUE(len(ps) == np_ and pm.workers == ps and all(p.started == 1 for p in ps)), "np=%d: np worker processes, each started once" % np_)
            ctx.oblige(TRUE(all(p.kwargs.get("target") is PM.ParallelMap.worker_run and len(p.kwargs.get("args", ())) == 3 and p.kwargs["args"][0] is pm.task_queue and p.kwargs["args"][1] is pm.result_queue and p.kwargs["args"][2] is eq for p in ps)), "np=%d: workers run worker_run(task_queue, result_queue, pickled equilibrium)" % np_)


def make_serial_run(n, failing=None):
    def run(ctx):
        from hypnotoad.utils import parallel_map as PM

        vals = [ctx.real("f_a%d" % i) for i in range(n)]
        args_list = [("a%d" % i,) for i in range(n)]
        order = []

        def function(a, *, equilibrium, psi, f_R, f_Z, extra=None):
            i = int(a[1:])
            order.append(i)
            if failing is not None and i in failing:
                raise TaskError("task %d" % i)
            return vals[i]

        eq = types.SimpleNamespace(psi="PSI", f_R="FR", f_Z="FZ")
        pm = PM.ParallelMap(1, equilibrium=eq)
        exc = res = None
        try:
            res = pm(function, iter(args_list), extra="kw")
        except TaskError as e:
            exc = e
        with spec_mode():
            ctx.oblige(TRUE(pm.workers is None), "np=1: no worker processes")
            if failing:
                ctx.oblige(TRUE(exc is not None and str(exc) == "task %d" % min(failing) and order == list(range(min(failing) + 1))), "serial: first failing task raises")
            else:
                ctx.oblige(TRUE(res is not None and len(res) == n and all(res[i] is vals[i] for i in range(n))), "serial: result == [f(a) for a in args_list]")

    return run


def run_frame(ctx):
    """Call sites in mesh.py: the mapped function's effect reaches the caller only
    through the returned list (static check of the six call sites)."""
    import ast
    import inspect

    from hypnotoad.core import mesh

    tree = ast.parse(inspect.getsource(mesh))
    sites = []
    for node in ast.walk(tree):
        if isinstance(node, ast.Call) and isinstance(node.func, ast.Attribute) and node.func.attr == "parallel_map" and isinstance(node.func.value, ast.Name) and node.func.value.id == "self":
            sites.append(node)
    parents = {}
    for node in ast.walk(tree):
        for ch in ast.iter_child_nodes(node):
            parents[ch] = node
    used = 0
    for s in sites:
        p = parents.get(s)
        if isinstance(p, (ast.Assign, ast.Return)) or (isinstance(p, ast.Call)):
            used += 1
    ctx.oblige(TRUE(len(sites) >= 6), "at least the six known self.parallel_map(...) call sites found")
    ctx.oblige(TRUE(used == len(sites)), "every self.parallel_map(...) result is consumed (assigned/returned), none is called for side effects only")


def build(S):
    S.under_contract(FN_CALL, FN_WORK)
    S.assume("external (assumed): an unbounded multiprocessing.Queue never blocks in put (feeder thread); __init__ is proved to create exactly that")
    S.assume("external contract (assumed): multiprocessing.Queue delivers every item put exactly once, in arbitrary order; dill/pickle round-trip objects; a worker process is not killed from outside")
    S.assume("A-SHAPE: all completion orders of n <= 4 tasks (and 1..2 failing positions) are enumerated exhaustively as paths; n is not symbolic (a Python list of symbolic length cannot be executed by CPython)")
    S.assume("A-PURE: task results are opaque symbols; the mapped function is deterministic")
    nmax = 4 if S.tier == "quick" else 5
    for n in range(0, nmax + 1):
        S.contract("__call__[parallel,n=%d]" % n, FN_CALL, make_call_run(n, 2), shape="n=%d tasks, all %s completion x %s pick-up orders" % (n, "n!", "n!"), max_paths=100000)
        S.contract("__call__[serial,n=%d]" % n, FN_CALL, make_serial_run(n), shape="n=%d" % n)
    for n, failing in ((1, {0}), (2, {0}), (2, {1}), (3, {1}), (3, {0, 2}), (3, {2})):
        S.contract("__call__[parallel,n=%d,failing=%s]" % (n, sorted(failing)), FN_WORK, make_call_run(n, 2, failing), shape="n=%d" % n, max_paths=100000)
        S.contract("__call__[serial,n=%d,failing=%s]" % (n, sorted(failing)), FN_CALL, make_serial_run(n, failing), shape="n=%d" % n)
    for n, failing in ((2, {1}), (3, {0})):
        S.contract("__call__[parallel,n=%d,failing=%s,unrebuildable exception]" % (n, sorted(failing)), FN_WORK, make_call_run(n, 2, failing, exc_type=MultiArgError), shape="n=%d" % n, max_paths=100000)
    S.under_contract("hypnotoad.utils.parallel_map:ParallelMap.__init__")
    S.contract("__init__[queues and workers]", "hypnotoad.utils.parallel_map:ParallelMap.__init__", run_init, shape="np = 1, 2, 3; multiprocessing replaced by a recorder")
    for nw in (1, 2, 3):
        S.contract("history[4 successive maps, %d live worker(s)]" % nw, FN_WORK, make_history_run(nw), shape="4 calls x 3 tasks, FIFO queues, workers alive across calls")
    S.contract("call-sites[frame]", "hypnotoad.core.mesh:MeshRegion", run_frame, shape="-")


def post(S):
    from . import C13_bounded

    C13_bounded.run(S)
    C13_bounded.grid_pairs(S)
