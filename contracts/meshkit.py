"""Helpers shared by the mesh contracts: skeleton MeshRegion objects whose arrays are
real `MultiLocationArray`s holding symbols (symbolic run) or floats (native replay)."""
import sys
import types

import numpy

from vc.sym import Sym, And, Or

LOCS4 = ("centre", "xlow", "ylow", "corners")


class _Dummy:
    def __getattr__(self, n):
        return lambda *a, **k: None


def silence_pyplot():
    """`ploterror` inside calcMetric imports matplotlib.pyplot only to draw diagnostics
    before raising; drawing is replaced by no-ops (the `raise` is kept)."""
    import matplotlib

    d = _Dummy()
    sys.modules["matplotlib.pyplot"] = d
    matplotlib.pyplot = d


def mla_cls():
    from hypnotoad.core.multilocationarray import MultiLocationArray

    return MultiLocationArray


def sym_mla(ctx, name, locs, nx=1, ny=1, shared=True):
    """MultiLocationArray with symbolic entries.  shared=True: one symbol per
    location (all entries of a location are the same symbolic point: element-wise
    code is then checked once per location instead of once per index)."""
    m = mla_cls()(nx, ny)
    for l in locs:
        a = getattr(m, l)
        if shared:
            a[...] = ctx.real("%s_%s" % (name, l))
        else:
            for idx in numpy.ndindex(*a.shape):
                a[idx] = ctx.real("%s_%s_%d_%d" % (name, l, idx[0], idx[1]))
    return m


def float_mla(values, nx=1, ny=1):
    """values: dict loc -> float (broadcast)."""
    m = mla_cls()(nx, ny)
    for l, v in values.items():
        getattr(m, l)[...] = v
    return m


def at(m, l):
    """The (shared) entry of MultiLocationArray m at location l."""
    return getattr(m, l)[0, 0]


def skeleton_region(orthogonal, **opts):
    from hypnotoad.core.mesh import MeshRegion

    r = object.__new__(MeshRegion)
    o = dict(shiftedmetric=True, orthogonal=orthogonal, geometry_rtol=1.0e-8, curvature_type="curl(b/B)", cap_Bp_ylow_xpoint=False, curvature_smoothing=None)
    o.update(opts)
    r.user_options = Opts(**o)
    r.nx = r.ny = 1
    r.name = "r"
    r.radialIndex = 0
    r.equilibriumRegion = types.SimpleNamespace(xPointsAtStart=[None, None], xPointsAtEnd=[None, None], name="eqr")
    return r


# --------------------------------------------------------------------------- MultiLocationArray arithmetic
FN_MLA = "hypnotoad.core.multilocationarray:MultiLocationArray.__array_ufunc__"


def make_mla_arith_run(locs_a, locs_b):
    """Every field of a region is a MultiLocationArray and every formula of geometry1 /
    geometry2 / calcMetric is written once and evaluated through __array_ufunc__ at four
    locations by four near-identical blocks.  Contract (real class, symbolic entries, nx=2,
    ny=1, all entries distinct): for + - * / between two arrays, with a scalar on either side,
    with a plain ndarray-free unary minus and for a three-operand expression, the result holds at
    each location L exactly op(a.L, b.L) -- entry by entry -- when every array operand has L,
    and has NO array at L otherwise (a location never borrows values from another one)."""
    import z3

    from vc.sym import And, Sym, spec_mode

    ALL = ("centre", "xlow", "ylow", "corners")

    def run(ctx):
        import numpy as real_numpy

        a = sym_mla(ctx, "a", locs_a, 2, 1, shared=False)
        b = sym_mla(ctx, "b", locs_b, 2, 1, shared=False)
        k = ctx.real("k")
        for l in locs_b:
            for v in getattr(b, l).flat:
                ctx.assume(v != 0)
        has = lambda m, l: getattr(m, "_%s_array" % l) is not None
        cases = {
            "a+b": (a + b, lambda x, y: x + y, (a, b)),
            "a-b": (a - b, lambda x, y: x - y, (a, b)),
            "a*b": (a * b, lambda x, y: x * y, (a, b)),
            "a/b": (a / b, lambda x, y: x / y, (a, b)),
            "k*a": (k * a, lambda x, y: k * x, (a,)),
            "a-k": (a - k, lambda x, y: x - k, (a,)),
            "k/b": (k / b, lambda x, y: k / y, (b,)),
            "-a": (-a, lambda x, y: -x, (a,)),
            "a*a/b+k*b": (a * a / b + k * b, lambda x, y: x * x / y + k * y, (a, b)),
        }
        T = lambda c: Sym(z3.BoolVal(bool(c)))
        with spec_mode():
            for nm, (res, f, ops) in cases.items():
                ctx.oblige(T(isinstance(res, mla_cls()) and res.nx == 2 and res.ny == 1), "%s is a MultiLocationArray of the operands' size" % nm)
                for l in ALL:
                    present = all(has(o, l) for o in ops)
                    ctx.oblige(T(has(res, l) == present), "%s: result defined at %s exactly when every array operand is" % (nm, l))
                    if present and has(res, l):
                        ra = getattr(res, l)
                        xa = getattr(a, l) if has(a, l) else None
                        yb = getattr(b, l) if has(b, l) else None
                        shape = (xa if xa is not None else yb).shape
                        ctx.oblige(T(ra.shape == shape), "%s at %s: shape of that location" % (nm, l))
                        if ra.shape == shape:
                            ctx.oblige(And(*[ra[i] == f(xa[i] if xa is not None else None, yb[i] if yb is not None else None) for i in real_numpy.ndindex(*shape)]), "%s at %s: entry by entry the operation on the operands AT %s" % (nm, l, l))
            ctx.oblige(T(all(has(a, l) == (l in locs_a) for l in ALL) and all(has(b, l) == (l in locs_b) for l in ALL)), "operands unchanged in which locations they define")

    return run


def add_mla_arith(S):
    S.under_contract(FN_MLA)
    ALL = ("centre", "xlow", "ylow", "corners")
    for la, lb in ((ALL, ALL), (ALL, ("centre", "ylow")), (("xlow", "corners"), ALL), (("centre", "xlow"), ("ylow", "corners"))):
        S.contract("MultiLocationArray arithmetic[a: %s; b: %s]" % ("+".join(la), "+".join(lb)), FN_MLA, make_mla_arith_run(la, lb), shape="nx=2, ny=1, every entry a distinct symbol")


class Opts(types.SimpleNamespace):
    """Option stand-in readable as attribute AND as item, as optionsfactory's objects are (a change
    from `options.x` to `options["x"]` in the code under contract must not crash the contract)."""

    def __getitem__(self, k):
        return getattr(self, k)

    def __contains__(self, k):
        return hasattr(self, k)

    def __iter__(self):
        return iter(vars(self))

    def keys(self):
        return vars(self).keys()
