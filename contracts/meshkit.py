"""Helpers shared by the mesh contracts: skeleton MeshRegion objects whose arrays are
real `MultiLocationArray`s holding symbols (symbolic run) or floats (native replay)."""
import sys
import types

import numpy

from vc.sym import Sym, And, Or

LOCS4 = ("centre", "xlow", "ylow", "corners")


class _Dummy:
    def __getattr__(self, n):
        return lambda *a, **k: None


def silence_pyplot():
    """`ploterror` inside calcMetric imports matplotlib.pyplot only to draw diagnostics
    before raising; drawing is replaced by no-ops (the `raise` is kept)."""
    import matplotlib

    d = _Dummy()
    sys.modules["matplotlib.pyplot"] = d
    matplotlib.pyplot = d


def mla_cls():
    from hypnotoad.core.multilocationarray import MultiLocationArray

    return MultiLocationArray


def sym_mla(ctx, name, locs, nx=1, ny=1, shared=True):
    """MultiLocationArray with symbolic entries.  shared=True: one symbol per
    location (all entries of a location are the same symbolic point: element-wise
    code is then checked once per location instead of once per index)."""
    m = mla_cls()(nx, ny)
    for l in locs:
        a = getattr(m, l)
        if shared:
            a[...] = ctx.real("%s_%s" % (name, l))
        else:
            for idx in numpy.ndindex(*a.shape):
                a[idx] = ctx.real("%s_%s_%d_%d" % (name, l, idx[0], idx[1]))
    return m


def float_mla(values, nx=1, ny=1):
    """values: dict loc -> float (broadcast)."""
    m = mla_cls()(nx, ny)
    for l, v in values.items():
        getattr(m, l)[...] = v
    return m


def at(m, l):
    """The (shared) entry of MultiLocationArray m at location l."""
    return getattr(m, l)[0, 0]


def skeleton_region(orthogonal, **opts):
    from hypnotoad.core.mesh import MeshRegion

    r = object.__new__(MeshRegion)
    o = dict(shiftedmetric=True, orthogonal=orthogonal, geometry_rtol=1.0e-8, curvature_type="curl(b/B)", cap_Bp_ylow_xpoint=False, curvature_smoothing=None)
    o.update(opts)
    r.user_options = types.SimpleNamespace(**o)
    r.nx = r.ny = 1
    r.name = "r"
    r.radialIndex = 0
    r.equilibriumRegion = types.SimpleNamespace(xPointsAtStart=[None, None], xPointsAtEnd=[None, None], name="eqr")
    return r
