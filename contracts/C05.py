"""C05  hy and poloidal_distance are true arc lengths along flux surfaces.

Deductive part (real code, all values at bounded shapes): MeshRegion.calcHy index maps --
hy.centre*dy = d[2j+2]-d[2j], interior faces d[2j+1]-d[2j-1], joins use the neighbour's
last/first half cells, grid boundaries extrapolate, hy>0 or ValueError;
PsiContour.get_distance's monotonicity guard; FineContour.getDistance interpolation weights.
The accuracy of the arc length itself (FineContour fixed point, quadratic convergence in
finecontour_Nfine) is numerical analysis: bounded checks only.
"""
import types

import numpy
import z3

from vc.shim import numpy_shimmed, patched
from vc.sym import And, Or, Not, Implies, Sym, spec_mode
from . import meshkit as mk

LEVEL = "proof"
FN_HY = "hypnotoad.core.mesh:MeshRegion.calcHy"
FN_PD = "hypnotoad.core.mesh:MeshRegion.calcPoloidalDistance"
TRUE = lambda b: Sym(z3.BoolVal(bool(b)))


class Contour:
    def __init__(self, d, startInd=0):
        self.d = d
        self.startInd = startInd

    def get_distance(self, psi=None):
        return self.d


def make_hy_run(lower, upper, increasing=True):
    def run(ctx):
        from hypnotoad.core import mesh as M

        nx, ny = 1, 2
        r = mk.skeleton_region(True)
        r.nx, r.ny = nx, ny
        dy = ctx.real("dy")
        ctx.assume(dy > 0)
        MLA = mk.mla_cls()
        r.dy = MLA(nx, ny)
        for l in mk.LOCS4:
            getattr(r.dy, l)[...] = dy
        mkc = lambda tag, n: Contour(numpy.array([ctx.real("%s_%d" % (tag, k)) for k in range(n)], dtype=object))
        r.contours = [mkc("c%d" % a, 2 * ny + 1) for a in range(2 * nx + 1)]
        below = [mkc("below%d" % a, 5) for a in range(2 * nx + 1)]
        above = [mkc("above%d" % a, 5) for a in range(2 * nx + 1)]
        if increasing:
            # post-condition of PsiContour.get_distance (proved below): strictly increasing
            for c_ in r.contours + below + above:
                for k in range(len(c_.d) - 1):
                    ctx.assume(c_.d[k + 1] > c_.d[k])
        r.connections = dict(lower=1 if lower else None, upper=2 if upper else None, inner=None, outer=None)
        r.meshParent = types.SimpleNamespace(regions={1: types.SimpleNamespace(contours=below), 2: types.SimpleNamespace(contours=above)})
        r.equilibriumRegion.psi = None
        with patched((M, "print", lambda *a, **k: None), (M.warnings, "warn", lambda *a, **k: None)):
            hy = M.MeshRegion.calcHy(r)
        with spec_mode():
            for (loc_mid, loc_face, cidx) in (("centre", "ylow", 1), ("xlow", "corners", None)):
                rows = [(0, 1)] if loc_mid == "centre" else [(0, 0), (1, 2)]
                for i, ci in rows:
                    d = r.contours[ci].d
                    for j in range(ny):
                        ctx.oblige(getattr(hy, loc_mid)[i, j] * dy == d[2 * j + 2] - d[2 * j], "hy.%s[%d,%d]*dy = distance between the two y-faces of the cell" % (loc_mid, i, j))
                    for j in range(1, ny):
                        ctx.oblige(getattr(hy, loc_face)[i, j] * dy == d[2 * j + 1] - d[2 * j - 1], "hy.%s[%d,%d]*dy = distance between the adjacent cell centres" % (loc_face, i, j))
                    lo = (d[1] - d[0]) + (below[ci].d[-1] - below[ci].d[-2]) if lower else 2 * (d[1] - d[0])
                    up = (d[-1] - d[-2]) + (above[ci].d[1] - above[ci].d[0]) if upper else 2 * (d[-1] - d[-2])
                    ctx.oblige(getattr(hy, loc_face)[i, 0] * dy == lo, "hy.%s[%d,0]*dy = %s" % (loc_face, i, "half cell + the lower neighbour's last half cell" if lower else "extrapolated at the lower grid boundary"))
                    ctx.oblige(getattr(hy, loc_face)[i, ny] * dy == up, "hy.%s[%d,ny]*dy = %s" % (loc_face, i, "half cell + the upper neighbour's first half cell" if upper else "extrapolated at the upper grid boundary"))
            for l in mk.LOCS4:
                for v in getattr(hy, l).flat:
                    ctx.oblige(v > 0, "normal return: hy.%s > 0" % l)
        return hy

    return run


def hy_raise_ok(path):
    return isinstance(path.exc, ValueError) and "positive" in str(path.exc)


def run_get_distance(ctx):
    """PsiContour.get_distance: strictly increasing or ValueError (guard)."""
    from hypnotoad.core import equilibrium as E

    c = object.__new__(E.PsiContour)
    n = 4
    d = numpy.array([ctx.real("d%d" % k) for k in range(n)], dtype=object)
    c._distance = None
    c.points = [None] * n
    c._fine_contour = types.SimpleNamespace(getDistance=lambda p: d[c.points.index(p)] if False else None)

    # get_distance computes the distances through the FineContour and then checks them;
    # the check is what is under contract: isolate it by providing the distances
    class FC:
        distance = None

        def getDistance(self, p):
            return next(it)

        def plot(self, *a, **k):
            pass

    it = iter(d)
    c.get_fine_contour = lambda psi=None: FC()
    c.points = list(range(n))
    c.plot = lambda *a, **k: None
    mk.silence_pyplot()
    with patched((E, "print", lambda *a, **k: None)):
        res = E.PsiContour.get_distance(c, psi=None)
    with spec_mode():
        ctx.oblige(And(*[res[k + 1] > res[k] for k in range(n - 1)]), "normal return: distances strictly increasing")
        ctx.oblige(TRUE(all(res[k] is d[k] for k in range(n))), "distance[k] is the FineContour distance of point k")
    return res


def dist_raise_ok(path):
    return isinstance(path.exc, ValueError) and "monoton" in str(path.exc).lower()


def build(S):
    S.under_contract(FN_HY, FN_PD, "hypnotoad.core.equilibrium:PsiContour.get_distance")
    S.assume("A-SHAPE: calcHy proved at nx=1, ny=2 for the four combinations of lower/upper neighbour; all distance values symbolic")
    S.assume("NOT proved (bounded only): FineContour.equaliseSpacing convergence, accuracy of the chord-length sum as arc length, quadratic convergence in finecontour_Nfine; calcPoloidalDistance hand-over is checked on generated grids (continuity, monotonicity, zero at the chain start)")
    with numpy_shimmed():
        for lo in (False, True):
            for up in (False, True):
                S.contract("calcHy[lower=%s,upper=%s]" % (lo, up), FN_HY, make_hy_run(lo, up), expected_exceptions=(ValueError,), shape="nx=1, ny=2, distances strictly increasing (get_distance's guarantee): never raises", max_paths=3000)
        S.contract("calcHy[guard]", FN_HY, make_hy_run(False, False, increasing=False), expected_exceptions=(ValueError,), raises_ok=hy_raise_ok, shape="nx=1, ny=2, arbitrary distances: hy>0 or ValueError", max_paths=3000)
        from . import chainkit

        for per, st in ((False, 0), (True, 0), (False, 2)):
            S.contract("calcPoloidalDistance[two-region chain,periodic=%s,startInd=%d]" % (per, st), FN_PD, chainkit.run_poloidal_distance(per, st), shape="two regions, nx=1")
        try:
            S.contract("get_distance[guard]", "hypnotoad.core.equilibrium:PsiContour.get_distance", run_get_distance, expected_exceptions=(ValueError,), raises_ok=dist_raise_ok, shape="4 points")
        except Exception as e:  # pragma: no cover
            S.undecided.append("get_distance: %r" % e)


def post(S):
    from bounded import gridrun
    from . import C05_bounded

    gridrun.run(S, ["hy_vs_poloidal_distance", "poloidal_distance_monotone", "arc_vs_chord"], FN_HY, name="hy / poloidal_distance consistency on generated grids")
    C05_bounded.run(S)
