"""C05  hy and poloidal_distance are true arc lengths along flux surfaces.

Deductive part (real code, all values at bounded shapes): MeshRegion.calcHy index maps --
hy.centre*dy = d[2j+2]-d[2j], interior faces d[2j+1]-d[2j-1], joins use the neighbour's
last/first half cells, grid boundaries extrapolate, hy>0 or ValueError;
PsiContour.get_distance's monotonicity guard; FineContour.getDistance interpolation weights.
The accuracy of the arc length itself (FineContour fixed point, quadratic convergence in
finecontour_Nfine) is numerical analysis: bounded checks only.
"""
import types

import numpy
import z3

from vc.shim import numpy_shimmed, patched
from vc.sym import And, Or, Not, Implies, Sym, spec_mode
from . import meshkit as mk

LEVEL = "proof"
FN_HY = "hypnotoad.core.mesh:MeshRegion.calcHy"
FN_PD = "hypnotoad.core.mesh:MeshRegion.calcPoloidalDistance"
TRUE = lambda b: Sym(z3.BoolVal(bool(b)))


class Contour:
    def __init__(self, d, startInd=0):
        self.d = d
        self.startInd = startInd

    def get_distance(self, psi=None):
        return self.d


def make_hy_run(lower, upper, increasing=True, own_neighbour=False):
    def run(ctx):
        from hypnotoad.core import mesh as M

        nx, ny = 1, 2
        r = mk.skeleton_region(True)
        r.nx, r.ny = nx, ny
        dy = ctx.real("dy")
        ctx.assume(dy > 0)
        MLA = mk.mla_cls()
        r.dy = MLA(nx, ny)
        for l in mk.LOCS4:
            getattr(r.dy, l)[...] = dy
        mkc = lambda tag, n: Contour(numpy.array([ctx.real("%s_%d" % (tag, k)) for k in range(n)], dtype=object))
        r.contours = [mkc("c%d" % a, 2 * ny + 1) for a in range(2 * nx + 1)]
        below = [mkc("below%d" % a, 5) for a in range(2 * nx + 1)]
        above = [mkc("above%d" % a, 5) for a in range(2 * nx + 1)]
        if own_neighbour:  # the periodic core of a single null: the region is its own lower and upper neighbour
            below = above = r.contours
        if increasing:
            # post-condition of PsiContour.get_distance (proved below): strictly increasing
            for c_ in r.contours + below + above:
                for k in range(len(c_.d) - 1):
                    ctx.assume(c_.d[k + 1] > c_.d[k])
        r.connections = dict(lower=1 if lower else None, upper=2 if upper else None, inner=None, outer=None)
        r.meshParent = types.SimpleNamespace(regions={1: r if own_neighbour else types.SimpleNamespace(contours=below), 2: r if own_neighbour else types.SimpleNamespace(contours=above)})
        r.equilibriumRegion.psi = None
        with patched((M, "print", lambda *a, **k: None), (M.warnings, "warn", lambda *a, **k: None)):
            hy = M.MeshRegion.calcHy(r)
        with spec_mode():
            for (loc_mid, loc_face, cidx) in (("centre", "ylow", 1), ("xlow", "corners", None)):
                rows = [(0, 1)] if loc_mid == "centre" else [(0, 0), (1, 2)]
                for i, ci in rows:
                    d = r.contours[ci].d
                    for j in range(ny):
                        ctx.oblige(getattr(hy, loc_mid)[i, j] * dy == d[2 * j + 2] - d[2 * j], "hy.%s[%d,%d]*dy = distance between the two y-faces of the cell" % (loc_mid, i, j))
                    for j in range(1, ny):
                        ctx.oblige(getattr(hy, loc_face)[i, j] * dy == d[2 * j + 1] - d[2 * j - 1], "hy.%s[%d,%d]*dy = distance between the adjacent cell centres" % (loc_face, i, j))
                    lo = (d[1] - d[0]) + (below[ci].d[-1] - below[ci].d[-2]) if lower else 2 * (d[1] - d[0])
                    up = (d[-1] - d[-2]) + (above[ci].d[1] - above[ci].d[0]) if upper else 2 * (d[-1] - d[-2])
                    ctx.oblige(getattr(hy, loc_face)[i, 0] * dy == lo, "hy.%s[%d,0]*dy = %s" % (loc_face, i, "half cell + the lower neighbour's last half cell" if lower else "extrapolated at the lower grid boundary"))
                    ctx.oblige(getattr(hy, loc_face)[i, ny] * dy == up, "hy.%s[%d,ny]*dy = %s" % (loc_face, i, "half cell + the upper neighbour's first half cell" if upper else "extrapolated at the upper grid boundary"))
            for l in mk.LOCS4:
                for v in getattr(hy, l).flat:
                    ctx.oblige(v > 0, "normal return: hy.%s > 0" % l)
        return hy

    return run


def hy_raise_ok(path):
    return isinstance(path.exc, ValueError) and "positive" in str(path.exc)


def run_get_distance(ctx):
    """PsiContour.get_distance: strictly increasing or ValueError (guard)."""
    from hypnotoad.core import equilibrium as E

    c = object.__new__(E.PsiContour)
    n = 4
    d = numpy.array([ctx.real("d%d" % k) for k in range(n)], dtype=object)
    c._distance = None
    c.points = [None] * n
    c._fine_contour = types.SimpleNamespace(getDistance=lambda p: d[c.points.index(p)] if False else None)

    # get_distance computes the distances through the FineContour and then checks them;
    # the check is what is under contract: isolate it by providing the distances
    class FC:
        distance = None

        def getDistance(self, p):
            return next(it)

        def plot(self, *a, **k):
            pass

    it = iter(d)
    c.get_fine_contour = lambda psi=None: FC()
    c.points = list(range(n))
    c.plot = lambda *a, **k: None
    mk.silence_pyplot()
    with patched((E, "print", lambda *a, **k: None)):
        res = E.PsiContour.get_distance(c, psi=None)
    with spec_mode():
        ctx.oblige(And(*[res[k + 1] > res[k] for k in range(n - 1)]), "normal return: distances strictly increasing")
        ctx.oblige(TRUE(all(res[k] is d[k] for k in range(n))), "distance[k] is the FineContour distance of point k")
    return res


def dist_raise_ok(path):
    return isinstance(path.exc, ValueError) and "monoton" in str(path.exc).lower()


FN_CFE = "hypnotoad.core.equilibrium:PsiContour.checkFineContourExtend"


class Extended(Exception):
    pass


def check_extend_lattice(S):
    """BOUNDED stand-in (the symbolic run needs comparisons of nested square roots that the
    solvers leave undecided within the budget): the real PsiContour.checkFineContourExtend on a
    lattice of positions of the contour's end points around the ends of a fixed generic fine
    contour.  It returns without extending only if neither end point lies beyond the fine
    contour, and otherwise extends exactly the end(s) concerned by enough points to reach."""
    import time

    from hypnotoad.core.equilibrium import Point2D, PsiContour

    t0 = time.time()
    pos = numpy.array([(0.0, 0.0), (1.0, 0.0), (2.5, 0.5), (3.4, 1.3)])
    dist = numpy.concatenate([[0.0], numpy.cumsum(numpy.sqrt(numpy.sum((pos[1:] - pos[:-1]) ** 2, axis=1)))])
    calls = []

    class Fine:
        positions, distance = pos, dist

        def extend(self, *, psi, extend_lower=0, extend_upper=0):
            calls.append((extend_lower, extend_upper))
            raise Extended()

    def beyond(p, end):
        d = numpy.sqrt(numpy.sum((pos - numpy.array(p)) ** 2, axis=1))
        k, nb = (0, 1) if end == "lower" else (len(pos) - 1, len(pos) - 2)
        seg = numpy.sqrt(numpy.sum((pos[k] - pos[nb]) ** 2))
        margin = min(abs(d[k] - numpy.delete(d, k)).min(), abs(d[nb] - seg))
        return bool(numpy.argmin(d) == k and d[nb] > seg), margin, d[k]

    n = m = 40 if S.tier == "quick" else 120
    bad, evals, classes = [], 0, set()
    interior = (1.2, 0.05)
    for end in ("lower", "upper"):
        e = pos[0] if end == "lower" else pos[-1]
        for i in range(n + 1):
            for j in range(m + 1):
                p = (e[0] - 1.2 + 2.4 * i / n, e[1] - 1.2 + 2.4 * j / m)
                want, margin, dk = beyond(p, end)
                if margin < 1e-9:
                    continue  # on a decision boundary: either answer is acceptable
                c = object.__new__(PsiContour)
                c.points = [Point2D(*p), Point2D(*interior)] if end == "lower" else [Point2D(*interior), Point2D(*p)]
                c.get_fine_contour = lambda psi=None: Fine()
                del calls[:]
                try:
                    PsiContour.checkFineContourExtend(c, psi=None)
                    got = (0, 0)
                except Extended:
                    got = calls[0]
                evals += 1
                classes.add((end, want))
                mine, other = (got[0], got[1]) if end == "lower" else (got[1], got[0])
                ds = dist[1] - dist[0] if end == "lower" else dist[-1] - dist[-2]
                ok = (mine >= 1) == want and other == 0 and (not want or mine * ds >= dk - 1e-12)
                if not ok and len(bad) < 5:
                    bad.append(dict(end=end, point=p, beyond_the_fine_contour=want, extend_lower_upper=got, distance_to_end=float(dk), ds=float(ds)))
    S.bounded.append(dict(name="checkFineContourExtend on a lattice of end-point positions", evaluations=evals, distinct_nontrivial=len(classes), rule="fixed generic 4-point fine contour; first / last contour point on a %dx%d lattice of side 2.4 around the lower / upper end; extension requested at that end iff the end fine point is the nearest one and the point is farther from its neighbour than the end segment is long, by at least ceil(distance/ds) >= 1 points, never at the other end; distinct = (end, beyond?)" % (n + 1, m + 1), bound="%d positions" % evals, samples=[dict(end="upper", point=[3.9, 1.9], beyond=True)], failures=bad, wall_s=round(time.time() - t0, 1)))  # fmt: skip
    if bad:
        S.static_vc("bounded:checkFineContourExtend-lattice", FN_CFE, "the fine contour is extended exactly when an end point of the contour lies beyond it, and far enough", False, detail=repr(bad[:2]), kind="bounded-native", model=bad[0])


def get_distance_lattice(S):
    """BOUNDED: FineContour.getDistance (the map from a grid point to its arc length) on a fixed
    generic fine contour: exact at the nodes, linear in the chord along every segment, always a
    convex combination of the distances of the nearest node and one of ITS neighbours."""
    import time

    from hypnotoad.core.equilibrium import FineContour, Point2D

    t0 = time.time()
    pos = numpy.array([(0.0, 0.0), (1.0, 0.0), (2.5, 0.5), (3.4, 1.3), (3.6, 2.4)])
    dist = numpy.concatenate([[0.0], numpy.cumsum(numpy.sqrt(numpy.sum((pos[1:] - pos[:-1]) ** 2, axis=1)))])
    fc = object.__new__(FineContour)
    fc.positions, fc.distance = pos, dist
    bad, evals = [], 0
    for k in range(len(pos)):
        got = FineContour.getDistance(fc, Point2D(*pos[k]))
        evals += 1
        if abs(got - dist[k]) > 1e-13:
            bad.append(dict(case="node %d" % k, got=float(got), want=float(dist[k])))
    nseg = 40 if S.tier == "quick" else 200
    for k in range(len(pos) - 1):
        for m in range(1, nseg):
            t = m / nseg
            p = pos[k] + t * (pos[k + 1] - pos[k])
            got = FineContour.getDistance(fc, Point2D(*p))
            want = dist[k] + t * (dist[k + 1] - dist[k])
            evals += 1
            if abs(got - want) > 1e-12 and len(bad) < 6:
                bad.append(dict(case="on segment %d at t=%.3f" % (k, t), got=float(got), want=float(want)))
    n = 30 if S.tier == "quick" else 90
    for i in range(n + 1):
        for j in range(n + 1):
            p = (-0.6 + 4.8 * i / n, -0.6 + 3.6 * j / n)
            d = numpy.sqrt(numpy.sum((pos - numpy.array(p)) ** 2, axis=1))
            srt = numpy.sort(d)
            if srt[1] - srt[0] < 1e-9:
                continue  # equidistant from two nodes: either is "the nearest"
            i1 = int(numpy.argmin(d))
            got = FineContour.getDistance(fc, Point2D(*p))
            evals += 1
            nb = [q for q in (i1 - 1, i1 + 1) if 0 <= q < len(pos)]
            ok = any(min(dist[i1], dist[q]) - 1e-12 <= got <= max(dist[i1], dist[q]) + 1e-12 for q in nb)
            # weight of the nearest node is at least one half
            ok = ok and any(abs(got - dist[i1]) <= abs(got - dist[q]) + 1e-12 for q in nb)
            if not ok and len(bad) < 6:
                bad.append(dict(case="lattice point", point=p, nearest_node=i1, got=float(got), node_distances=[float(x) for x in dist]))
    S.bounded.append(dict(name="FineContour.getDistance on nodes, segments and a lattice", evaluations=evals, distinct_nontrivial=3, rule="fixed generic 5-node fine contour (unequal, non-collinear segments): distance exact at every node (1e-13); on every segment the chord-linear value (1e-12); on a %dx%d lattice the value is a convex combination of the distances of the nearest node and a neighbour of it, nearer to the nearest node's; distinct = (nodes, segments, lattice)" % (n + 1, n + 1), bound="%d points" % evals, samples=[dict(case="on segment 1 at t=0.5", want=float(dist[1] + 0.5 * (dist[2] - dist[1])))], failures=bad, wall_s=round(time.time() - t0, 1)))  # fmt: skip
    if bad:
        S.static_vc("bounded:getDistance-lattice", "hypnotoad.core.equilibrium:FineContour.getDistance", "arc length of a point: exact at fine-contour nodes, chord-linear in between", False, detail=repr(bad[:2]), kind="bounded-native", model=bad[0])


def add_hy(S):
    S.under_contract(FN_HY)
    for lo in (False, True):
        for up in (False, True):
            S.contract("calcHy[lower=%s,upper=%s]" % (lo, up), FN_HY, make_hy_run(lo, up), expected_exceptions=(ValueError,), shape="nx=1, ny=2, distances strictly increasing (get_distance's guarantee): never raises", max_paths=3000)
    S.contract("calcHy[the region is its own y-neighbour]", FN_HY, make_hy_run(True, True, own_neighbour=True), expected_exceptions=(ValueError,), shape="nx=1, ny=2, periodic in y", max_paths=3000)
    S.contract("calcHy[guard]", FN_HY, make_hy_run(False, False, increasing=False), expected_exceptions=(ValueError,), raises_ok=hy_raise_ok, shape="nx=1, ny=2, arbitrary distances: hy>0 or ValueError", max_paths=3000)


def build(S):
    S.under_contract(FN_HY, FN_PD, "hypnotoad.core.equilibrium:PsiContour.get_distance")
    S.assume("A-SHAPE: calcHy proved at nx=1, ny=2 for the four combinations of lower/upper neighbour; all distance values symbolic")
    S.assume("NOT proved (bounded only): FineContour.equaliseSpacing convergence, accuracy of the chord-length sum as arc length, quadratic convergence in finecontour_Nfine; calcPoloidalDistance hand-over is checked on generated grids (continuity, monotonicity, zero at the chain start)")
    with numpy_shimmed():
        add_hy(S)
        from . import chainkit

        for per, st in ((False, 0), (True, 0), (False, 2)):
            S.contract("calcPoloidalDistance[two-region chain,periodic=%s,startInd=%d]" % (per, st), FN_PD, chainkit.run_poloidal_distance(per, st), shape="two regions, nx=1")
        S.contract("calcPoloidalDistance[two-region chain,periodic=True,called twice]", FN_PD, chainkit.run_poloidal_distance(True, 0, repeat=2), shape="two regions, nx=1; second call on the same regions")
        S.contract("calcPoloidalDistance[one region, its own y-neighbour]", FN_PD, chainkit.run_poloidal_distance(True, 0, single=True), shape="one periodic region (single-null core), nx=1")
        from . import C05_cache

        C05_cache.add(S)
        try:
            S.contract("get_distance[guard]", "hypnotoad.core.equilibrium:PsiContour.get_distance", run_get_distance, expected_exceptions=(ValueError,), raises_ok=dist_raise_ok, shape="4 points")
        except Exception as e:  # pragma: no cover
            S.undecided.append("get_distance: %r" % e)


def post(S):
    from bounded import gridrun
    from . import C05_bounded

    gridrun.run(S, ["hy_vs_poloidal_distance", "hy_ylow_vs_displacements", "poloidal_distance_monotone", "arc_vs_chord"], FN_HY, name="hy / poloidal_distance consistency on generated grids")
    C05_bounded.run(S)
    S.under_contract(FN_CFE)
    check_extend_lattice(S)
    S.under_contract("hypnotoad.core.equilibrium:FineContour.getDistance")
    get_distance_lattice(S)
