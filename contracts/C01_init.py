"""Hand-over contract of the real MeshRegion.__init__ (C01, C04): which point ends up on which
contour.

followPerpendicular (its ordering contract: C04) and PsiContour.refine (C01) are replaced by
stubs that return labelled tokens; the equilibrium region is a 3-point stub.  Obligations:
 * every separatrix point j is followed to the psi values of THIS region, in the order
   "from the separatrix outwards" (reversed psi_vals for regions inside the separatrix);
 * contour i consists, for j = 0..n-1 in order, of the point computed from separatrix point j
   for the value psi_vals[i]; its psival is psi_vals[i]; its global_xind is globalXInd(i);
 * self.contours is what the refinement map returned, in the same order (result not dropped).
"""
import types

import numpy
import z3

from vc.shim import patched
from vc.sym import And, Sym, spec_mode  # noqa

FN = "hypnotoad.core.mesh:MeshRegion.__init__"
TRUE = lambda b: Sym(z3.BoolVal(bool(b)))


class Tok:
    def __init__(self, j, psi):
        self.j, self.psi = j, psi

    def as_ndarray(self):
        return numpy.array([1.0 + 0.1 * self.j, 0.5 * self.j])


class ContourStub:
    def __init__(self, points, psival):
        self.points, self.psival, self.global_xind = list(points), psival, None

    def append(self, p):
        self.points.append(p)


class Refined:
    def __init__(self, c, kw):
        self.c, self.kw = c, kw


def make_run(inside, nx=2, nsep=3):
    def run(ctx):
        from hypnotoad.core import mesh as M

        psi_vals = [ctx.real("psi%d" % k) for k in range(2 * nx + 1)]
        ctx.assume(And(*[a < b for a, b in zip(psi_vals, psi_vals[1:])]))
        sep_psi = psi_vals[-1] if inside else psi_vals[0]
        seps = [types.SimpleNamespace(j=j) for j in range(nsep)]

        class EqRegion(list):
            pass

        er = EqRegion()
        for j in range(nsep):
            er.append((1.0 + 0.1 * j, 0.2 * j))  # (R, Z) pairs: `psi(*p)` unpacks them
        er.name = "leg"
        er.user_options = {}
        er.nx = [3, nx] if not inside else [nx, 3]
        radialIndex = 0 if inside else 1
        er.separatrix_radial_index = 1
        er.ny = lambda ri: 2
        er.ny_noguards = 2
        pv = [None, None]
        pv[radialIndex] = psi_vals
        er.psi_vals = pv
        er.startInd, er.endInd = 0, nsep - 1
        # psi along the skeleton: one symbol per skeleton point (a disconnected double null's core
        # skeleton runs from one separatrix to the other: it is NOT a single flux surface); only the
        # side of the region's far boundary it lies on is assumed
        psi_sk = [ctx.real("psi_skeleton%d" % j) for j in range(nsep)]
        far = psi_vals[0] if inside else psi_vals[-1]
        ctx.assume(And(*[(p_ > far) if inside else (p_ < far) for p_ in psi_sk]))
        er.psi = lambda R, Z: psi_sk[int(round((R - 1.0) / 0.1))]
        er.equilibrium = types.SimpleNamespace(poloidal_spacing_delta_psi=ctx.real("delta_psi"))
        ctx.assume(er.equilibrium.poloidal_spacing_delta_psi > 0)
        er.wallSurfaceAtStart = er.wallSurfaceAtEnd = object()  # wall ends: no X-point angle to compute
        er.get_fine_contour = lambda psi=None: None
        er.copy = lambda: er
        made = []

        def new_contour(points=None, psival=None):
            c = ContourStub(points, psival)
            made.append(c)
            return c

        er.newContourFromSelf = new_contour
        fp_calls = []

        def follow(i, p0, psi0, *, psivals, **kw):
            fp_calls.append((i, p0, psi0, list(psivals)))
            return [Tok(i, v) for v in psivals]

        maps = []

        def pmap(f, tasks, **kw):
            tasks = [tuple(t) for t in tasks]
            maps.append((getattr(f, "__name__", str(f)), tasks, kw))
            if f is follow:
                return [f(*t, f_R=None, f_Z=None, **kw) for t in tasks]
            return [Refined(t[0], kw) for t in tasks]

        eqm = types.SimpleNamespace(f_R=None, f_Z=None)
        parent = types.SimpleNamespace(equilibrium=eqm)
        with patched((M, "followPerpendicular", follow), (M, "print", lambda *a, **k: None)):
            r = M.MeshRegion(parent, 7, er, dict(lower=None, upper=None, inner=None, outer=None), radialIndex, {}, pmap)
        with spec_mode():
            same = lambda a, b: a.t.eq(b.t)
            ctx.oblige(TRUE(len(maps) == 2 and maps[0][0] == "follow" and maps[1][0] == "refine"), "one map over the separatrix points (followPerpendicular), one map refining the contours")
            tasks = maps[0][1]
            ctx.oblige(TRUE([t[0] for t in tasks] == list(range(nsep)) and all(t[1] == er[j] for j, t in enumerate(tasks))), "every point of the equilibrium region is followed, in order, labelled by its index")
            ctx.oblige(TRUE(len(tasks) == nsep and all(isinstance(t[2], Sym) and same(t[2], psi_sk[j]) for j, t in enumerate(tasks))), "perpendicular j is started with psi evaluated AT skeleton point j (not a value shared by the whole skeleton)")
            order = list(reversed(psi_vals)) if inside else psi_vals
            ctx.oblige(TRUE(all(len(c[3]) == len(order) and all(same(a, b) for a, b in zip(c[3], order)) for c in fp_calls[2:])), "psi values to follow: this region's radial grid, ordered from the separatrix outwards (reversed inside the separatrix)")
            ctx.oblige(TRUE(len(made) == 2 * nx + 1), "one contour per radial grid value")
            for i, c in enumerate(made):
                ctx.oblige(TRUE(c.psival is not None and same(c.psival, psi_vals[i])), "contour %d: psival = psi_vals[%d]" % (i, i))
                ctx.oblige(TRUE([p.j for p in c.points] == list(range(nsep))), "contour %d: one point per separatrix point, in poloidal order" % i)
                ctx.oblige(TRUE(all(same(p.psi, psi_vals[i]) for p in c.points)), "contour %d: each of its points was computed for psi_vals[%d]" % (i, i))
                ctx.oblige(TRUE(c.global_xind == M.MeshRegion.globalXInd(r, i)), "contour %d: global_xind = globalXInd(%d)" % (i, i))
            ctx.oblige(TRUE(len(r.contours) == len(made) and all(isinstance(x, Refined) and x.c is c for x, c in zip(r.contours, made))), "self.contours = the refined contours returned by the map, same order")
            ctx.oblige(TRUE(all(len(t) == 1 for t in maps[1][1])), "refine receives each contour as its single positional argument")
        return r

    return run


def run_new_contour(ctx):
    """The real PsiContour.newContourFromSelf, through which MeshRegion.__init__ builds every radial
    grid line: the new contour carries THE psival it was asked for -- any real value, 0 included
    (flux is defined up to a constant; a surface at psi = 0 is an ordinary surface) -- and the points
    given; without arguments it inherits both."""
    from hypnotoad.core import equilibrium as E

    parent_psi, want = ctx.real("parent_psival"), ctx.real("requested_psival")
    ctx.assume(parent_psi != want)
    inf = float("inf")
    pts = [E.Point2D(1.0, 0.0), E.Point2D(1.1, 0.2)]
    c = E.PsiContour(points=list(pts), psival=parent_psi, settings={}, Rrange=(-inf, inf), Zrange=(-inf, inf))
    c.startInd, c.endInd = 0, 1
    newp = [E.Point2D(2.0, 0.5)]
    n1 = c.newContourFromSelf(points=newp, psival=want)
    n2 = c.newContourFromSelf()
    with spec_mode():
        ctx.oblige(TRUE(isinstance(n1.psival, Sym)) if not isinstance(n1.psival, Sym) else n1.psival == want, "newContourFromSelf(psival=v).psival = v for every real v (0 included)")
        ctx.oblige(TRUE(n1.points is newp or list(n1.points) == newp), "... with the points given")
        ctx.oblige(TRUE(isinstance(n2.psival, Sym)) if not isinstance(n2.psival, Sym) else n2.psival == parent_psi, "without arguments: the parent's psival")
        ctx.oblige(TRUE(len(n2.points) == 2 and all(a is not b and a.R == b.R and a.Z == b.Z for a, b in zip(n2.points, pts))), "... and a copy of the parent's points")
        ctx.oblige(TRUE(n1.startInd == c.startInd and n1.endInd == c.endInd), "start / end indices carried over")
    return n1


def add(S):
    S.under_contract(FN)
    S.assume("MeshRegion.__init__: followPerpendicular (ordering contract: C04) and PsiContour.refine (C01) are stubs returning labelled tokens; equilibrium region is a 3-point stub with wall ends (the X-point angle block is not exercised)")
    S.under_contract("hypnotoad.core.equilibrium:PsiContour.newContourFromSelf")
    S.contract("PsiContour.newContourFromSelf", "hypnotoad.core.equilibrium:PsiContour.newContourFromSelf", run_new_contour, shape="symbolic psival of parent and request")
    for inside in (False, True):
        S.contract("MeshRegion.__init__[%s the separatrix]" % ("inside" if inside else "outside"), FN, make_run(inside), expected_exceptions=(ValueError,), shape="nx=2 (5 radial values, symbolic), 3 separatrix points")
