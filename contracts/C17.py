"""C17  geqdsk write/read round-trips and parses the fixed-width format.

Contracts on the real hypnotoad.geqdsk._geqdsk.write/read, _fileutils.f2s /
ChunkOutput / write_1d / write_2d / next_value and cases.tokamak.read_geqdsk.

(1) token lemma (exhaustive over a finite quotient, complete): the regular expression
    in next_value is extracted from the source each run; a syntactic check of its
    parse tree shows it cannot distinguish one digit from another, so the behaviour of
    `findall` on any line depends only on the character *classes*.  Every line of up
    to 5 tokens over the class-abstracted token alphabet (float tokens with either
    sign of mantissa and exponent; the integer count line) is then enumerated and fed
    to the real `re`: findall returns exactly the tokens written, in order -- for
    abutting negative numbers too.
(2) producer shape: f2s emits " "/"-" + d.ddddddddd E[+-]dd for finite values with
    two-digit exponents (printf contract: assumed; swept over exponents -99..99).
(3) stream alignment: the real write() then the real read() on distinct, exactly
    representable values: data[key][idx] read == written for every nx, ny in 1..12
    (all residues of the 5-per-line chunking), with/without optional arrays and
    boundary/limiter points, all header variants; by (1) this is independent of the
    digits written.
(4) header: fixed-width idum, nx, ny for every digit-length class 1..4 of nx, ny.
(5) read_geqdsk (symbolic): R, Z, psi-profile axes, psi(R_x, Z_y) index order, wall.
"""
import ast
import inspect
import io
import itertools
import re
import types

import numpy
import z3

from vc.shim import numpy_shimmed, patched
from vc.sym import And, Sym, spec_mode
from vc import transform

LEVEL = "proof"
FN_W = "hypnotoad.geqdsk._geqdsk:write"
FN_R = "hypnotoad.geqdsk._geqdsk:read"
FN_F2S = "hypnotoad.geqdsk._fileutils:f2s"
FN_CO = "hypnotoad.geqdsk._fileutils:ChunkOutput.write"
FN_W1 = "hypnotoad.geqdsk._fileutils:write_1d"
FN_W2 = "hypnotoad.geqdsk._fileutils:write_2d"
FN_NV = "hypnotoad.geqdsk._fileutils:next_value"
FN_RG = "hypnotoad.cases.tokamak:read_geqdsk"
TRUE = lambda b: Sym(z3.BoolVal(bool(b)))


# --------------------------------------------------------------------------- (1) token lemma
def extract_pattern():
    from hypnotoad.geqdsk import _fileutils as F

    tree = ast.parse(inspect.getsource(F.next_value).lstrip())
    pats = [n.args[0].value for n in ast.walk(tree) if isinstance(n, ast.Call) and getattr(n.func, "attr", "") == "compile" and n.args and isinstance(n.args[0], ast.Constant)]
    uses = [n.func.attr for n in ast.walk(tree) if isinstance(n, ast.Call) and isinstance(n.func, ast.Attribute) and n.func.attr in ("findall", "finditer", "match", "search")]
    return pats, uses


def digit_blind(pattern):
    """Every atom of the pattern treats all ten digits alike."""
    try:
        import re._parser as sp
    except ImportError:  # pragma: no cover
        import sre_parse as sp
    digits = set(map(ord, "0123456789"))

    def ok_set(items):
        # an IN set: membership of each digit must be the same
        lits = set()
        cats = []
        neg = False
        for op, av in items:
            nm = str(op)
            if nm == "NEGATE":
                neg = True
            elif nm == "LITERAL":
                lits.add(av)
            elif nm == "RANGE":
                lits |= set(range(av[0], av[1] + 1))
            elif nm == "CATEGORY":
                cats.append(str(av))
            else:
                return False
        if any(c not in ("CATEGORY_DIGIT", "CATEGORY_NOT_DIGIT", "CATEGORY_SPACE", "CATEGORY_NOT_SPACE") for c in cats):
            return False
        inside = digits & lits
        return inside == digits or not inside

    def walk(p):
        for op, av in p:
            nm = str(op)
            if nm == "LITERAL" or nm == "NOT_LITERAL":
                if av in digits:
                    return False
            elif nm == "IN":
                if not ok_set(av):
                    return False
            elif nm in ("MAX_REPEAT", "MIN_REPEAT"):
                if not walk(av[2]):
                    return False
            elif nm == "SUBPATTERN":
                if not walk(av[3]):
                    return False
            elif nm == "BRANCH":
                if not all(walk(b) for b in av[1]):
                    return False
            elif nm in ("ANY", "AT"):
                pass
            else:
                return False
        return True

    return walk(sp.parse(pattern))


def token_lemma(S):
    pats, uses = extract_pattern()
    S.static_vc("token-lemma", FN_NV, "one regex constant, used with findall per line", len(pats) == 1 and uses == ["findall"], detail=repr((pats, uses)), kind="regex-quotient")
    if len(pats) != 1:
        return
    pat = pats[0]
    S.static_vc("token-lemma", FN_NV, "pattern is digit-blind (no atom separates one digit from another)", digit_blind(pat), detail=pat, kind="regex-quotient")
    rx = re.compile(pat)
    # class-abstracted float tokens: leading ' ' or '-', exponent sign '+' or '-', digits -> '7'
    ftoks = [lead + "7." + "7" * 9 + "E" + es + "77" for lead in " -" for es in "+-"]
    bad = []
    n = 0
    for k in range(1, 6):
        for combo in itertools.product(ftoks, repeat=k):
            for extra in (0,):
                line = "".join(" " * extra + t for t in combo) + "\n"
                n += 1
                got = rx.findall(line)
                if got != list(combo) or not all("." in g for g in got):
                    bad.append((line, got))
    S.static_vc("token-lemma", FN_NV, "findall(line of 1..5 abutting float tokens) == the tokens (all sign classes; %d lines)" % n, not bad, detail=repr(bad[:2]), kind="regex-quotient", model=dict(line=bad[0][0], got=bad[0][1]) if bad else None)
    # the count line "{:5d}{:5d}": digit-length classes 1..5 x 1..4 (nlim < 10000 is a precondition)
    bad = []
    n = 0
    for a in range(1, 6):
        for b in range(1, 5):
            line = ("7" * a).rjust(5) + ("7" * b).rjust(5) + "\n"
            got = rx.findall(line)
            n += 1
            if [g.strip() for g in got] != ["7" * a, "7" * b] or any("." in g for g in got):
                bad.append((line, got))
    S.static_vc("token-lemma", FN_NV, "count line: two integer tokens for every digit-length class (nbdry<100000, nlim<10000; %d lines)" % n, not bad, detail=repr(bad[:2]), kind="regex-quotient")
    # integer vs float decision: '.' in match
    S.static_vc("token-lemma", FN_NV, "a float token contains '.', an integer token does not", all("." in t for t in ftoks), kind="regex-quotient")
    # sensitivity of this enumeration (independent of the code): on a deliberately wrong
    # pattern (one exponent digit) the same enumeration must find a failing line
    wrong = re.compile(r"[ +\-]?\d+(?:\.\d+[Ee][\+\-]\d)?")
    found = any(wrong.findall("".join(c) + "\n") != list(c) for c in itertools.product(ftoks, repeat=2))
    if not found:
        S.crashes.append("token-lemma enumeration is insensitive: a wrong pattern passes")
    S.extra_cov["token_lemma"] = dict(pattern=pat, abstract_float_tokens=len(ftoks), lines_enumerated=sum(len(ftoks) ** k for k in range(1, 6)), exhaustive=True)


# --------------------------------------------------------------------------- (2) producer shape
def producer_shape(S):
    from hypnotoad.geqdsk import _fileutils as F

    src = inspect.getsource(F.f2s)
    tree = ast.parse(src)
    fmts = [n.left.value for n in ast.walk(tree) if isinstance(n, ast.BinOp) and isinstance(n.op, ast.Mod) and isinstance(n.left, ast.Constant)]
    S.static_vc("f2s", FN_F2S, "format string is %1.9E (10 significant digits)", fmts == ["%1.9E"], detail=repr(fmts), kind="ast")
    shape = re.compile(r"^[ -]\d\.\d{9}E[+-]\d\d$")
    bad = []
    n = 0
    mant = [1.0, 1.000000001, 9.999999999, 2.5, 3.141592653589793, 7.0000000005, 9.9999999994, 1.0000000005]
    for e in range(-99, 100):
        for m in mant:
            for sgn in (1.0, -1.0):
                f = sgn * float("%.17ge%d" % (m, e))
                s = F.f2s(f)
                n += 1
                back = float(s)
                # half a unit of the 10th significant digit of the token written
                half_ulp = 0.5 * 10.0 ** (int(s[-3:]) - 9) if shape.match(s) else 0.0
                if abs(f) < 9.9999999995e99 and (not shape.match(s) or abs(back - f) > half_ulp + 8 * 2.0**-52 * abs(f)):
                    bad.append((f, s))
    for f in (0.0, -0.0):
        s = F.f2s(f)
        n += 1
        if not re.match(r"^ -?0\.0{9}E\+00$", s):
            bad.append((f, s))
    S.bounded.append(dict(name="f2s token shape and 10-digit accuracy", evaluations=n, distinct_nontrivial=n, rule="exponents -99..99 x %d mantissas x both signs, +-0.0; token must match [ -]d.ddddddddd E[+-]dd and float(token) be within 5e-10 relative" % len(mant), bound="two-digit exponents", samples=[F.f2s(1.5), F.f2s(-2.25e-7)], failures=bad[:3]))
    if bad:
        S.static_vc("f2s", FN_F2S, "bounded: token shape / 10 significant digits", False, detail=repr(bad[:3]), kind="bounded-native", model=dict(value=bad[0][0], token=bad[0][1]))
    # sign rule by symbolic run of the real f2s branch (the formatting itself is external)
    neg = F.f2s(-1.0)
    pos = F.f2s(1.0)
    S.static_vc("f2s", FN_F2S, "non-negative values get a leading blank, negative ones the minus sign (fixed width 16)", len(neg) == 16 and len(pos) == 16 and pos[0] == " " and neg[0] == "-", kind="native")


# --------------------------------------------------------------------------- (3) stream alignment
def mkdata(nx, ny, opt, nb, nl, counter):
    def val():
        k = next(counter)
        sgn = -1.0 if k % 3 == 0 else 1.0
        return sgn * (k + 1) * 0.125  # exactly representable, <= 10 significant digits, distinct

    d = dict(nx=nx, ny=ny)
    for k in ("rdim", "zdim", "rcentr", "rleft", "zmid", "rmagx", "zmagx", "simagx", "sibdry", "bcentr", "cpasma"):
        d[k] = val()
    extra = {True: ("ffprime", "pprime"), False: (), "ff": ("ffprime",), "pp": ("pprime",)}[opt]  # the two optional profiles are independent
    for k in ("fpol", "pres", "qpsi") + extra:
        d[k] = numpy.array([val() for _ in range(nx)])
    d["psi"] = numpy.array([[val() for _ in range(ny)] for _ in range(nx)])
    if nb:
        d["rbdry"] = numpy.array([val() for _ in range(nb)])
        d["zbdry"] = numpy.array([val() for _ in range(nb)])
    if nl:
        d["rlim"] = numpy.array([val() for _ in range(nl)])
        d["zlim"] = numpy.array([val() for _ in range(nl)])
    return d


def roundtrip(d, **hdr):
    from hypnotoad.geqdsk import _geqdsk as G

    f = io.StringIO()
    with patched((G, "print", lambda *a, **k: None)):
        G.write(d, f, **hdr)
        text = f.getvalue()
        f.seek(0)
        r = G.read(f)
    return text, r


def compare(d, r):
    bad = []
    for k, v in d.items():
        if k not in r:
            bad.append("%s missing" % k)
            continue
        a, b = numpy.asarray(v, dtype=float), numpy.asarray(r[k], dtype=float)
        if a.shape != b.shape or not numpy.array_equal(a, b):
            bad.append("%s differs" % k)
    for k in ("ffprime", "pprime"):
        if k not in d and not (k in r and numpy.array_equal(r[k], numpy.zeros(d["nx"]))):
            bad.append("%s should read back as zeros" % k)
    for k in ("rbdry", "zbdry", "rlim", "zlim"):
        if k not in d and k in r:
            bad.append("%s should be absent" % k)
    return bad


def alignment(S):
    nmax = 12
    bad_all = []
    n = 0
    variants = [(True, 0, 0), (False, 0, 0), (True, 1, 0), (True, 0, 1), (True, 3, 4), (False, 7, 2), ("ff", 0, 0), ("pp", 0, 0), ("ff", 2, 3), ("pp", 3, 2)]
    for nx in range(1, nmax + 1):
        for ny in range(1, nmax + 1):
            for opt, nb, nl in variants:
                d = mkdata(nx, ny, opt, nb, nl, itertools.count())
                try:
                    text, r = roundtrip(d)
                    bad = compare(d, r)
                    # layout: at most 5 values per line
                    if max(len(re.findall(r"E[+-]\d\d", ln)) for ln in text.splitlines()) > 5:
                        bad.append("more than 5 values on a line")
                except Exception as e:
                    bad = ["exception %r" % e]
                n += 1
                if bad:
                    bad_all.append(dict(nx=nx, ny=ny, optional=opt, nbdry=nb, nlim=nl, problems=bad[:3]))
    S.static_vc("alignment", FN_W, "write->read returns every scalar, profile, psi[x,y], boundary and limiter at its position for nx,ny in 1..%d (%d shape/variant combinations)" % (nmax, n), not bad_all, detail=repr(bad_all[:2]), kind="native-all-shapes", model=bad_all[0] if bad_all else None)
    # the count record as the REAL writer lays it out, for every digit-length class of the two counts
    # (the field layout depends on the number of digits only, the reader's tokeniser is digit-blind:
    # token lemma above), smallest and largest member of each class; nlim < 10000, nbdry < 100000
    bad_cnt, ncnt = [], 0
    for a in range(0, 6):
        for b in range(0, 5):
            for pick in ("lo", "hi"):
                nb = 0 if a == 0 else (10 ** (a - 1) if pick == "lo" else 10**a - 1)
                nl = 0 if b == 0 else (10 ** (b - 1) if pick == "lo" else 10**b - 1)
                if pick == "hi" and a <= 1 and b <= 1 and (a, b) != (1, 1):
                    continue
                d = mkdata(2, 3, True, nb, nl, itertools.count())
                try:
                    text, r = roundtrip(d)
                    bad = compare(d, r)
                    if int(r.get("nbdry", nb)) != nb or int(r.get("nlim", nl)) != nl:
                        bad.append("counts read back as nbdry=%r nlim=%r" % (r.get("nbdry"), r.get("nlim")))
                except BaseException as e:  # noqa  (StopIteration from the token stream included)
                    bad = ["exception %r" % e]
                ncnt += 1
                if bad:
                    bad_cnt.append(dict(nbdry=nb, nlim=nl, problems=bad[:3]))
    S.static_vc("alignment", FN_W, "count record written by the real writer is read back as the two counts, and boundary / limiter follow, for every digit-length class nbdry 0..99999 x nlim 0..9999 (%d round trips)" % ncnt, not bad_cnt, detail=repr(bad_cnt[:2]), kind="native-all-classes", model=bad_cnt[0] if bad_cnt else None)
    # header variants
    badh = []
    hv = [dict(), dict(label="X"), dict(label="ABCDEFGHIJK"), dict(label="A very long label indeed"), dict(shot=12345), dict(shot="#99"), dict(time=250), dict(time=" 12.5s"), dict(label="L", shot=7, time=3)]
    for h in hv:
        d = mkdata(4, 3, True, 2, 2, itertools.count())
        try:
            _, r = roundtrip(d, **h)
            b = compare(d, r)
        except Exception as e:
            b = ["exception %r" % e]
        if b:
            badh.append((h, b))
    S.static_vc("alignment", FN_W, "label / shot / time header variants (%d)" % len(hv), not badh, detail=repr(badh[:2]), kind="native-all-shapes", model=dict(header=str(badh[0][0])) if badh else None)
    S.extra_cov["alignment_shapes"] = n


HEADER_VARIANTS = [dict(), dict(time=250), dict(time="1500"), dict(time="250"), dict(time="7"), dict(time=" 12.5s"), dict(shot=12345, time="1500"), dict(shot="#99", time="33"), dict(label="X", time="1500"), dict(label="ABCDEFGHIJK", shot=7, time=3), dict(label="12345678901", shot="77", time="88")]


def header(S):
    """idum, nx, ny for every digit-length class of nx and ny (fixed-width 3i4)."""
    from hypnotoad.geqdsk import _geqdsk as G

    bad = []
    reps = {1: (1, 9), 2: (10, 99), 3: (100, 999), 4: (1000, 9999)}
    n = 0

    for a in reps:
        for b in reps:
            for nx in reps[a]:
                for ny in reps[b]:
                    d = dict(nx=nx, ny=ny)
                    for k in ("rdim", "zdim", "rcentr", "rleft", "zmid", "rmagx", "zmagx", "simagx", "sibdry", "bcentr", "cpasma"):
                        d[k] = 1.0
                    for k in ("fpol", "pres", "qpsi", "psi"):
                        d[k] = None
                    # every class of text in front of the three integers: the time entry is written
                    # immediately before idum, so a bare number there abuts (or not) with the fields
                    for hv in HEADER_VARIANTS:
                        f = io.StringIO()
                        with patched((G, "write_1d", lambda v, o: None), (G, "write_2d", lambda v, o: None), (G, "print", lambda *a, **k: None)):
                            G.write(d, f, **hv)
                        hdr = f.getvalue().splitlines()[0] + "\n"
                        n += 1
                        # the header-parsing statements of the real read(), sliced mechanically
                        try:
                            got = parse_header_like_read(hdr)
                        except Exception as e:
                            got = repr(e)
                        if got != (3, nx, ny):
                            bad.append(dict(nx=nx, ny=ny, variant=str(hv), header=hdr, got=str(got)))
    S.static_vc("header", FN_R, "header round trip idum,nx,ny for all digit-length classes 1..4 of nx, ny x label/shot/time variants incl. bare numeric strings (%d headers)" % n, not bad, detail=repr(bad[:2]), kind="native-all-classes", model=bad[0] if bad else None)


def parse_header_like_read(hdr):
    """Execute the header-parsing statements of the real read() (sliced mechanically:
    everything before the statement that builds `data`)."""
    from hypnotoad.geqdsk import _geqdsk as G

    src = inspect.getsource(G.read)
    tree = ast.parse(src)
    fdef = tree.body[0]
    body = []
    for st in fdef.body:
        if isinstance(st, ast.Expr) and isinstance(st.value, ast.Constant):
            continue  # docstring
        if isinstance(st, ast.Assign) and any(isinstance(t, ast.Name) and t.id == "data" for t in st.targets):
            break
        if isinstance(st, ast.Expr) and isinstance(st.value, ast.Call) and getattr(st.value.func, "id", "") == "print":
            continue
        body.append(st)
    body.append(ast.Return(value=ast.Tuple(elts=[ast.Name(id=n, ctx=ast.Load()) for n in ("idum", "nx", "ny")], ctx=ast.Load())))
    fdef.body = body
    ast.fix_missing_locations(tree)
    ns = dict(G.__dict__)
    exec(compile(tree, "<vc:read-header>", "exec"), ns)
    return ns["read"](io.StringIO(hdr))


# --------------------------------------------------------------------------- (5) read_geqdsk
def run_read_geqdsk(nx, ny, with_wall, settings=None):
    settings = dict(x=1) if settings is None else settings

    def run(ctx):
        from hypnotoad.cases import tokamak as T
        from hypnotoad.geqdsk import _geqdsk as G

        sc = {k: ctx.real(k) for k in ("rleft", "rdim", "zmid", "zdim", "simagx", "sibdry")}
        data = dict(sc)
        data.update(nx=nx, ny=ny)
        obj = lambda name, shape: numpy.array([ctx.real("%s_%d" % (name, i)) for i in range(int(numpy.prod(shape)))], dtype=object).reshape(shape)
        data["psi"] = obj("psi", (nx, ny))
        data["pres"] = obj("pres", (nx,))
        data["fpol"] = obj("fpol", (nx,))
        if with_wall:
            data["rlim"] = obj("rlim", (3,))
            data["zlim"] = obj("zlim", (3,))
        captured = {}

        def fake_init(self, *a, **k):
            captured["a"], captured["k"] = a, k

        fh = io.StringIO("THE GEQDSK TEXT\nline 2\n")
        fh.read()  # the reader leaves the handle at the end
        fh.name = "some.geqdsk"
        def fake_read(f, *a, **kw):
            captured["fh"], captured["read_args"] = f, (a, kw)
            return data

        with patched((G, "read", fake_read), (T.TokamakEquilibrium, "__init__", fake_init)):
            res = T.read_geqdsk(fh, settings=dict(settings))
        with spec_mode():
            R1D, Z1D, psi2D, psi1D, fpol = captured["a"][:5]
            k = captured["k"]
            ctx.oblige(TRUE(captured["fh"] is fh and isinstance(res, T.TokamakEquilibrium)), "reads the given handle; returns a TokamakEquilibrium")
            ctx.oblige(TRUE(len(R1D) == nx and len(Z1D) == ny and len(psi1D) == nx), "axis lengths nx, ny, nx")
            for i in range(nx):
                if nx > 1:
                    ctx.oblige(R1D[i] * (nx - 1) == sc["rleft"] * (nx - 1) + sc["rdim"] * i, "R1D[%d] uniform from rleft to rleft+rdim" % i)
                    ctx.oblige(psi1D[i] * (nx - 1) == sc["simagx"] * (nx - 1) + (sc["sibdry"] - sc["simagx"]) * i, "psi1D[%d] uniform from simagx to sibdry" % i)
            for j in range(ny):
                if ny > 1:
                    ctx.oblige(Z1D[j] * (ny - 1) * 2 == (2 * sc["zmid"] - sc["zdim"]) * (ny - 1) + 2 * sc["zdim"] * j, "Z1D[%d] uniform from zmid-zdim/2 to zmid+zdim/2" % j)
            ctx.oblige(TRUE(psi2D is data["psi"]), "psi2D is data['psi'] (psi2D[x,y] <-> (R1D[x], Z1D[y]))")
            ctx.oblige(TRUE(fpol is data["fpol"] and k["pressure"] is data["pres"]), "fpol and pressure profiles passed through")
            ctx.oblige(TRUE(k["psi_bdry_gfile"] is sc["sibdry"] and k["psi_axis_gfile"] is sc["simagx"]), "psi_axis/psi_bdry of the file passed through")
            if with_wall:
                w = k["wall"]
                ctx.oblige(TRUE(len(w) == 3 and all(w[i][0] is data["rlim"][i] and w[i][1] is data["zlim"][i] for i in range(3))), "wall = zip(rlim, zlim)")
            else:
                ctx.oblige(TRUE(k["wall"] is None), "no limiter -> wall None")
            ctx.oblige(TRUE(res.geqdsk_input == "THE GEQDSK TEXT\nline 2\n" and res.geqdsk_filename == "some.geqdsk"), "stores the complete file text (after seek(0)) and the file name")
            ctx.oblige(TRUE(k["settings"] == dict(settings) and k["make_regions"] is True), "settings passed through")
            ra, rk = captured["read_args"]
            ctx.oblige(TRUE(not ra and rk.get("cocos", 1) == 1), "the file is read in its own flux convention (cocos 1): sign / 2 pi conversions are done once, by the constructor's options")

    return run


def build(S):
    S.under_contract(FN_W, FN_R, FN_F2S, FN_CO, FN_W1, FN_W2, FN_NV, FN_RG)
    S.assume("external contract (assumed, bounded sweep in evidence): C printf '%1.9E' of a finite double with |value| < 1e100 is [-]d.ddddddddd E[+-]dd, correctly rounded; float(str) is correctly rounded")
    S.assume("preconditions exposed: finite values with two-digit decimal exponents; nx, ny <= 9999; nbdry < 100000, nlim < 10000")
    S.assume("A-SHAPE: stream alignment is executed for every nx, ny in 1..12 (covers every residue of the 5-per-line chunking for nx and nx*ny); longer arrays repeat the same 5-periodic layout (argument, not machine-checked)")
    S.trust("Python's re module implements the regular expression it is given (the token lemma enumerates the class-quotient on the real re)")
    token_lemma(S)
    producer_shape(S)
    alignment(S)
    header(S)
    with numpy_shimmed():
        S.contract("read_geqdsk[3x4,wall]", FN_RG, run_read_geqdsk(3, 4, True), shape="nx=3, ny=4")
        S.contract("read_geqdsk[2x2,nowall]", FN_RG, run_read_geqdsk(2, 2, False), shape="nx=2, ny=2")
        S.contract("read_geqdsk[5x3,wall]", FN_RG, run_read_geqdsk(5, 3, True), shape="nx=5, ny=3")
        S.contract("read_geqdsk[2x3,psi_divide_twopi+reverse_current]", FN_RG, run_read_geqdsk(2, 3, True, settings=dict(psi_divide_twopi=True, reverse_current=True)), shape="nx=2, ny=3")
