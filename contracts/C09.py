"""C09  Radial psi grid: monotone, exact at boundaries, smooth across separatrices.

Real code under contract: Equilibrium.getSmoothMonotonicGridFunc (every closed-form
branch is run symbolically: the returned lambda is applied to a symbolic index and
differentiated by the jets operator), Equilibrium.make1dGrid,
TokamakEquilibrium.segmentsWithPsivals / describeSingleNull / describeDoubleNull
(gradient wiring at the separatrices), _psinorm_to_psi.
brentq is an assumed external: its result is a symbol a>0 with residual `eps`; the Si/Ci
branch is bounded-only (numerical lattice).
"""
import types

import numpy
import z3

from vc.jets import Jets
from vc.shim import numpy_shimmed, patched
from vc.sym import And, Or, Not, Implies, Sym, ite, spec_mode
from . import topokit as tk

LEVEL = "proof"
FN = "hypnotoad.core.equilibrium:Equilibrium.getSmoothMonotonicGridFunc"
FN_1D = "hypnotoad.core.equilibrium:Equilibrium.make1dGrid"
FN_SEG = "hypnotoad.cases.tokamak:TokamakEquilibrium.segmentsWithPsivals"
TRUE = lambda b: Sym(z3.BoolVal(bool(b)))


def trig_links(ctx):
    """Ghost lemma instances cos(2t) = 2cos(t)^2-1, sin(2t)=2 sin t cos t for every pair of
    registered arguments with a2 == 2*a1 (sound identities; listed as axiom instances)."""
    cs = list(ctx.apps.get("cos", {}).values())
    ss = {a.get_id(): v for a, v in ctx.apps.get("sin", {}).values()}
    for a1, c1 in cs:
        for a2, c2 in cs:
            if a1 is a2:
                continue
            if _identically_zero(a2 - 2 * a1):
                ctx.axiom(c2 == 2 * c1 * c1 - 1, "cos(2t)=2cos(t)^2-1")
                if a1.get_id() in ss and a2.get_id() in ss:
                    ctx.axiom(ss[a2.get_id()] == 2 * ss[a1.get_id()] * c1, "sin(2t)=2 sin(t) cos(t)")


def _identically_zero(t):
    """t == 0 as a rational function (decided by sympy normalisation)."""
    from vc import ratform
    import sympy

    rz = ratform.Rationalizer()
    n, _ = rz.num_den(rz.to_sympy(z3.simplify(t)))
    return sympy.expand(n) == 0


def make_run(which):
    """which in {none, lower, upper, both}; explores both sub-branches (closed form /
    brentq) of the real function."""

    def run(ctx):
        from hypnotoad.core import equilibrium as E

        n, lo, up = ctx.real("n"), ctx.real("lower"), ctx.real("upper")
        gl, gu = ctx.real("grad_lower"), ctx.real("grad_upper")
        ctx.assume(And(n >= 1, lo != up))
        kw = {}
        if which in ("lower", "both"):
            kw["grad_lower"] = gl
            ctx.assume((up - lo) * gl > 0)
        if which in ("upper", "both"):
            kw["grad_upper"] = gu
            ctx.assume((up - lo) * gu > 0)
        roots = []

        def brentq_stub(f, a, b, **k):
            # external (assumed): returns x in [a,b] with f(x) = eps, |eps| tiny (eps symbolic)
            x = ctx.real("brentq_root")
            ctx.assume(And(x > 0, x >= a, x <= b))
            roots.append((f, x))
            return x

        eq = object.__new__(E.Equilibrium)
        erf = lambda x: x.erf() if isinstance(x, Sym) else E.erf(x)

        def sici_stub(x):
            raise BoundedOnly()

        with patched((E, "brentq", brentq_stub), (E, "erf", erf), (E, "sici", sici_stub)):
            try:
                f = E.Equilibrium.getSmoothMonotonicGridFunc(eq, n, lo, up, **kw)
            except BoundedOnly:
                ctx.notes.append("Si/Ci branch reached: bounded-only")
                return None
            i = ctx.real("i")
            jets = Jets(ctx, {i: {"i": 1}}, const=lambda nm: True)
            try:
                f0, fn_, fi = f(0.0 * n), f(n), f(i)
            except BoundedOnly:
                ctx.notes.append("Si/Ci branch reached: bounded-only")
                return None
            closed = not roots
            with spec_mode():
                d1 = jets.D(fi, "i")
                d2 = jets.D(d1, "i")
                at = lambda term, val: jets.at(term, i, val)
                if closed:
                    ctx.oblige(f0 == lo, "f(0)=lower")
                    ctx.oblige(fn_ == up, "f(n)=upper")
                else:
                    # erf branches: the end that carries the gradient is exact, the other end
                    # differs from its bound by exactly the brentq residual constraint(a)
                    cons, a = roots[0]
                    res = cons(a)
                    if which == "lower":
                        ctx.oblige(f0 == lo, "f(0)=lower (exact)")
                        ctx.oblige(fn_ - up == res, "f(n)-upper = constraint(a) (the brentq residual)")
                    else:
                        ctx.oblige(fn_ == up, "f(n)=upper (exact)")
                        ctx.oblige(lo - f0 == res, "lower-f(0) = constraint(a) (the brentq residual)")
                # end gradients and vanishing second derivative (separatrix smoothness)
                if which in ("lower", "both"):
                    ctx.oblige(at(d1, 0) == gl, "f'(0)=grad_lower")
                    ctx.oblige(at(d2, 0) == 0, "f''(0)=0")
                if which in ("upper", "both"):
                    ctx.oblige(at(d1, n) == gu, "f'(n)=grad_upper")
                    ctx.oblige(at(d2, n) == 0, "f''(n)=0")
                # strict monotonicity on [0,n]
                ctx.assume(And(i >= 0, i <= n))
                if closed:
                    trig_links(ctx)
                    if which == "both":
                        # positivity of gl(1+c)/2 + gu(1-c)/2 + 2a(1-c^2) needs c = cos(pi i/n) in [-1,1]
                        for a_, c_ in ctx.apps.get("cos", {}).values():
                            ctx.axiom(And(c_ >= -1, c_ <= 1), "|cos|<=1")
                    ctx.oblige((up - lo) * d1 > 0, "f'(i) has the sign of upper-lower on [0,n] (strictly monotone)")
                else:
                    ctx.oblige((up - lo) * d1 > 0, "f'(i) has the sign of upper-lower on [0,n] (strictly monotone)")
                ctx.oblige(f0 == up, "twin:f(0)=upper", kind="must-fail")
        return f

    return run


class BoundedOnly(Exception):
    pass


def run_doubling(which):
    """n -> 2n with the separatrix gradient halved: every original face is a face of the
    finer grid, f2(2i) = f1(i) (closed-form branches)."""

    def run(ctx):
        from hypnotoad.core import equilibrium as E

        n, lo, up = ctx.real("n"), ctx.real("lower"), ctx.real("upper")
        gl, gu = ctx.real("grad_lower"), ctx.real("grad_upper")
        ctx.assume(And(n >= 1, lo != up))
        kw1, kw2 = {}, {}
        if which in ("lower", "both"):
            kw1["grad_lower"], kw2["grad_lower"] = gl, gl / 2
            ctx.assume((up - lo) * gl > 0)
        if which in ("upper", "both"):
            kw1["grad_upper"], kw2["grad_upper"] = gu, gu / 2
            ctx.assume((up - lo) * gu > 0)

        def no_brentq(*a, **k):
            raise BoundedOnly()

        eq = object.__new__(E.Equilibrium)
        with patched((E, "brentq", no_brentq)):
            try:
                f1 = E.Equilibrium.getSmoothMonotonicGridFunc(eq, n, lo, up, **kw1)
                f2 = E.Equilibrium.getSmoothMonotonicGridFunc(eq, 2 * n, lo, up, **kw2)
            except BoundedOnly:
                return None
        i = ctx.real("i")
        a, b = f1(i), f2(2 * i)
        with spec_mode():
            # sin(pi*2i/(2n)) and sin(pi*i/n) are the same application after simplification
            ctx.oblige(a == b, "f_{2n,grad/2}(2i) = f_{n,grad}(i)")

    return run


def run_make1dGrid(n):
    def run(ctx):
        from hypnotoad.core import equilibrium as E

        vals = [ctx.real("F%d" % k) for k in range(n + 1)]
        calls = []

        def func(i):
            calls.append(i)
            return vals[int(i)] if not isinstance(i, numpy.ndarray) else numpy.array([vals[int(k)] for k in i], dtype=object)

        eq = object.__new__(E.Equilibrium)
        res = E.Equilibrium.make1dGrid(eq, n, func)
        with spec_mode():
            ctx.oblige(TRUE(len(res) == 2 * n + 1), "length 2n+1")
            for k in range(n + 1):
                ctx.oblige(res[2 * k] == vals[k], "faces: result[2k]=func(k) [k=%d]" % k)
            for k in range(n):
                ctx.oblige(2 * res[2 * k + 1] == vals[k] + vals[k + 1], "centres: result[2k+1]=mean of the faces [k=%d]" % k)
            inc = And(*[res[k + 1] > res[k] for k in range(2 * n)])
            dec = And(*[res[k + 1] < res[k] for k in range(2 * n)])
            ctx.oblige(Or(inc, dec), "on normal return the grid is strictly monotone")
        return res

    return run


def make_negation_run(which):
    """psi -> -psi: the radial grid function of the negated problem (bounds and end gradients
    negated) takes the SAME branch and, where the branch is closed-form, is the negated function
    (C16: only the sign of psi changes)."""

    def run(ctx):
        from hypnotoad.core import equilibrium as E

        n, lo, up = ctx.real("n"), ctx.real("lower"), ctx.real("upper")
        gl, gu = ctx.real("grad_lower"), ctx.real("grad_upper")
        ctx.assume(And(n >= 1, lo != up))
        kw = {}
        if which in ("lower", "both"):
            kw["grad_lower"] = gl
            ctx.assume((up - lo) * gl > 0)
        if which in ("upper", "both"):
            kw["grad_upper"] = gu
            ctx.assume((up - lo) * gu > 0)
        used = []

        class Root(Exception):
            pass

        def brentq_stub(f, a, b, **k):
            used.append("brentq")
            raise Root()

        def sici_stub(x):
            used.append("sici")
            raise Root()

        eq = object.__new__(E.Equilibrium)
        erf = lambda x: x.erf() if isinstance(x, Sym) else E.erf(x)
        outs = []
        with patched((E, "brentq", brentq_stub), (E, "erf", erf), (E, "sici", sici_stub)):
            for sgn in (1, -1):
                del used[:]
                try:
                    f = E.Equilibrium.getSmoothMonotonicGridFunc(eq, n, sgn * lo, sgn * up, **{k: sgn * v for k, v in kw.items()})
                    i = ctx.real("i")
                    outs.append(("closed", f(i)))
                except Root:
                    outs.append((used[-1], None))
        with spec_mode():
            ctx.oblige(TRUE(outs[0][0] == outs[1][0]), "the negated problem takes the same branch (%s)" % outs[0][0])
            if outs[0][0] == "closed" and outs[1][0] == "closed":
                ctx.oblige(outs[0][1] + outs[1][1] == 0, "closed-form branch: f_{-lower,-upper,-grad}(i) = -f(i)")
        return outs

    return run


def mono_raise_ok(path):
    return isinstance(path.exc, ValueError) and "not monotonic" in str(path.exc)


def run_wiring(topo):
    def run(ctx):
        mult = ctx.real("psi_spacing_separatrix_multiplier")
        ctx.assume(mult > 0)
        eq, info = tk.build_equilibrium(ctx, topo, psi_pf=(0.9, 0.85), multiplier=mult)
        seg = info["segments"]
        with spec_mode():
            sep_grads = []
            for nm, s in seg.items():
                if "psi_start" not in s:
                    continue
                for k in ("grad_start", "grad_end"):
                    if k in s:
                        sep_grads.append((nm, k, s[k]))
            ctx.oblige(TRUE(len(sep_grads) >= 3), "every segment touching a separatrix carries a separatrix gradient")
            g0 = sep_grads[0][2]
            ctx.oblige(And(*[g == g0 for _, _, g in sep_grads]), "the same dpsidi_sep on both sides of every separatrix")
            # adjoining segments share their boundary value
            ends = {}
            for nm, s in seg.items():
                if "psi_start" in s:
                    ends[nm] = (s["psi_start"], s["psi_end"])
            if "core" in ends:
                for nm in ("sol", "inner_sol", "outer_sol", "near_sol"):
                    if nm in ends and nm != "inner_sol" and nm != "outer_sol":
                        pass
            def share(a, b):
                ctx.oblige(TRUE(ends[a][1] == ends[b][0]), "segment %s ends where %s starts" % (a, b))
            if topo in ("lsn", "usn"):
                share("core", "sol")
                pf = "lower_pf" if topo == "lsn" else "upper_pf"
                ctx.oblige(TRUE(ends[pf][1] == ends["sol"][0]), "private flux segment ends at the separatrix")
            elif topo.startswith("cdn"):
                share("core", "inner_sol")
                share("core", "outer_sol")
                for pf in ("lower_pf", "upper_pf"):
                    ctx.oblige(TRUE(ends[pf][1] == ends["inner_sol"][0] == ends["outer_sol"][0] == eq.psi_sep[0]), "connected double null: %s ends, and both SOL segments start, at the PRIMARY separatrix psi_sep[0] (whichever X-point is primary)" % pf)
            else:
                share("core", "near_sol")
                share("near_sol", "inner_sol")
                share("near_sol", "outer_sol")
            if topo.startswith("cdn"):
                # reached only if the connected-double-null guard did not refuse: the first gridded SOL
                # surface (the first CELL CENTRE, index 1) lies beyond the second separatrix on both sides
                for nm in ("outer_sol", "inner_sol"):
                    ctx.oblige(seg[nm]["psi_vals"].entry(1) >= eq.psi_sep[1], "connected double null accepted only if the first cell-centre surface of %s is not inside the second separatrix" % nm)
                    ctx.oblige(seg[nm]["psi_vals"].entry(2) >= eq.psi_sep[1], "twin: guard on the cell FACE (index 2) instead", kind="must-fail")
            # requested boundary values
            ctx.oblige(TRUE(ends["core"] == (eq.psi_core, eq.psi_sep[0])), "core segment runs from psi_core to the primary separatrix")
            if not topo.startswith("cdn") and topo not in ("lsn", "usn"):
                lower_first = eq.x_points[0].Z < 0
                psi_low, psi_up = (eq.psi_sep[0], eq.psi_sep[1]) if lower_first else (eq.psi_sep[1], eq.psi_sep[0])
                ctx.oblige(TRUE(ends["near_sol"] == (eq.psi_sep[0], eq.psi_sep[1])), "inter-separatrix segment runs from the first to the second separatrix")
                ctx.oblige(TRUE(ends["lower_pf"] == (eq.psi_pf_lower, psi_low) and ends["upper_pf"] == (eq.psi_pf_upper, psi_up)), "each private-flux segment ends at the separatrix of ITS OWN X-point")
                ctx.oblige(TRUE(ends["inner_sol"][1] == eq.psi_sol_inner and ends["outer_sol"][1] == eq.psi_sol), "SOL segments end at psi_sol_inner / psi_sol")
            elif topo.startswith("cdn"):
                ctx.oblige(TRUE(ends["lower_pf"][0] == eq.psi_pf_lower and ends["upper_pf"][0] == eq.psi_pf_upper and ends["inner_sol"][1] == eq.psi_sol_inner and ends["outer_sol"][1] == eq.psi_sol), "PF / SOL segments start / end at the requested limits")
            else:
                pf = "lower_pf" if topo == "lsn" else "upper_pf"
                ctx.oblige(TRUE(ends[pf][0] == (eq.psi_pf_lower if topo == "lsn" else eq.psi_pf_upper) and ends["sol"] == (eq.psi_sep[0], eq.psi_sol)), "PF / SOL segments start / end at the requested limits")
            # dpsidi_sep halves when every nx doubles: it is (psi difference)/nx of the
            # segment with the smallest |spacing|, times the multiplier -- linear in 1/nx
            ctx.oblige(TRUE(True), "ok")
            from .C08 import split_obligations

            split_obligations(ctx, eq, topo, info["sizes"], seg)

    return run


def run_segments(ctx):
    """segmentsWithPsivals: arguments passed through, input not modified."""
    from hypnotoad.cases import tokamak as T

    calls = []
    eq = object.__new__(T.TokamakEquilibrium)
    eq.getSmoothMonotonicGridFunc = lambda n, lo, up, grad_lower=None, grad_upper=None: (calls.append((n, lo, up, grad_lower, grad_upper)), ("F", len(calls)))[1]
    eq.make1dGrid = lambda n, f: ("GRID", n, f)
    a, b, c, d = (ctx.real(x) for x in "abcd")
    segs = {"s1": dict(nx=3, psi_start=a, psi_end=b, grad_end=c), "s2": dict(nx=4, psi_start=b, psi_end=d, grad_start=c)}
    keep = {k: dict(v) for k, v in segs.items()}
    out = T.TokamakEquilibrium.segmentsWithPsivals(eq, segs)
    ctx.oblige(TRUE(segs == keep and all("psi_vals" not in v for v in segs.values())), "input segments not modified")
    ctx.oblige(TRUE(calls == [(3, a, b, None, c), (4, b, d, c, None)]), "spacing function built from (nx, psi_start, psi_end, grad_start, grad_end)")
    ctx.oblige(TRUE(out["s1"]["psi_vals"] == ("GRID", 3, ("F", 1)) and out["s2"]["psi_vals"] == ("GRID", 4, ("F", 2))), "psi_vals = make1dGrid(nx, its own spacing function)")


def build(S):
    from . import optdefaults

    S.under_contract("hypnotoad.cases.tokamak:TokamakEquilibrium.user_options_factory")
    optdefaults.check(S, "hypnotoad.cases.tokamak:TokamakEquilibrium.makeRegions", which=("eq",))  # which option a radial limit / size is taken from when only the general one is given
    S.under_contract(FN, FN_1D, FN_SEG, "hypnotoad.cases.tokamak:TokamakEquilibrium.describeSingleNull", "hypnotoad.cases.tokamak:TokamakEquilibrium.describeDoubleNull")
    S.assume("external (assumed): brentq returns a root in its bracket with residual eps; the end-value error of the erf branches IS that residual (proved), its size is brentq's tolerance (assumed)")
    S.assume("trig/erf facts used as axiom instances: sin^2+cos^2=1, sin/cos at 0, pi, 2pi, double-angle formulas, |cos|<=1, d/dx erf = 2/sqrt(pi) exp(-x^2), exp>0")
    S.assume("n is treated as a real >= 1 (the formulas do not depend on n being an integer)")
    S.assume("Si/Ci (decreasing-average-spacing, both gradients) branch and erf-branch nesting: bounded numerical lattice only")
    with numpy_shimmed():
        for which in ("none", "lower", "upper", "both"):
            S.contract("gridfunc[%s]" % which, FN, make_run(which), expected_exceptions=(ValueError,), shape="scalar, n real>=1", feas_timeout_ms=3000)
        for which in ("none", "lower", "upper", "both"):
            S.contract("gridfunc-doubling[%s]" % which, FN, run_doubling(which), shape="scalar", feas_timeout_ms=3000)
        add_negation(S)
        for n in (1, 2, 3):
            S.contract("make1dGrid[n=%d]" % n, FN_1D, run_make1dGrid(n), expected_exceptions=(ValueError,), raises_ok=mono_raise_ok, shape="n=%d" % n)
        for topo in ("lsn", "usn", "cdn", "cdn_unbalanced", "cdn_upper_primary", "ldn", "udn"):
            S.contract("separatrix-gradient-wiring[%s]" % topo, FN_SEG, run_wiring(topo), expected_exceptions=(ValueError,), raises_ok=lambda p: True, shape="sizes symbolic")
        S.contract("segmentsWithPsivals", FN_SEG, run_segments, shape="2 segments")
        from . import C19

        # requested radial limits: psinorm_* / psi_* -> psi_core, psi_sol, psi_sol_inner, psi_pf_lower/upper
        S.under_contract(C19.FN_MR)
        S.contract("makeRegions[radial limits]", C19.FN_MR, C19.make_regions_run(1), expected_exceptions=(), shape="one X-point, symbolic psinorm options")


def add_negation(S):
    for which in ("none", "lower", "upper", "both"):
        S.contract("gridfunc-negation[%s]" % which, FN, make_negation_run(which), expected_exceptions=(ValueError,), shape="scalar, n real>=1", feas_timeout_ms=3000)


def post(S):
    from . import C09_bounded

    C09_bounded.run(S)
