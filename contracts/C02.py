"""C02  Metric tensor and Jacobian are the field-aligned metric, self-consistent.

Functions under contract (real objects from /repo, run on symbolic arrays):
  MeshRegion.calcMetric (both branches) · MeshRegion.geometry2 · MeshRegion.calcBeta ·
  calcZShift.integrand_func (nested def, extracted mechanically).
The specification is NOT a copy of the code's formulas: the 12 metric components are
derived in ghost code from the basis vectors of the locally field-aligned coordinates
written in the orthonormal frame (n = grad(psi)/|grad(psi)|, b = B_pol/|B_pol|, zeta):

  e_x = (n + tan(beta) b) / (R|Bp|)          radial grid displacement per unit dx
  e_y = s hy b + R nu zeta                   s = bpsign (y increases along s*b)
  e_z = R zeta                               nu = d(zShift)/dy = hy Bt / (R |Bp|)
  grad x = R|Bp| n,  grad y = (-s tan(beta) n + s b)/hy,
  grad z = zeta/R + s nu (tan(beta) n - b)/hy

(ghost lemmas: grad x^i . e_j = delta_ij, proved by the same solver), so that
"g_ij reproduces the scalar products of the actual displacements per unit dx, dy"
and "g_23 = g_33 d(zShift)/dy" are what is proved, for both signs of bpsign.
"""
import types
from contracts.meshkit import Opts as _Opts  # noqa: E402

import numpy

from vc import transform
from vc.shim import numpy_shimmed, patched
from vc.sym import And, Or, Not, Sym, ite, spec_mode
from vc.harness import model_value
from . import meshkit as mk

LEVEL = "proof"
FN_METRIC = "hypnotoad.core.mesh:MeshRegion.calcMetric"
FN_GEOM2 = "hypnotoad.core.mesh:MeshRegion.geometry2"
FN_BETA = "hypnotoad.core.mesh:MeshRegion.calcBeta"
FN_ZSHIFT = "hypnotoad.core.mesh:MeshRegion.calcZShift"

IDX = {"x": 0, "y": 1, "z": 2}
UP = [["g11", "g12", "g13"], ["g12", "g22", "g23"], ["g13", "g23", "g33"]]
DN = [["g_11", "g_12", "g_13"], ["g_12", "g_22", "g_23"], ["g_13", "g_23", "g_33"]]


def dot(a, b):
    return a[0] * b[0] + a[1] * b[1] + a[2] * b[2]


def spec_basis(R, absBp, hy, Bt, s, t):
    """Ghost definitions (see module docstring).  Vectors in the (n, b, zeta) frame."""
    nu = hy * Bt / (R * absBp)
    e = [
        (1 / (R * absBp), t / (R * absBp), 0),
        (0, s * hy, R * nu),
        (0, 0, R),
    ]
    g = [
        (R * absBp, 0, 0),
        (-s * t / hy, s / hy, 0),
        (s * nu * t / hy, -s * nu / hy, 1 / R),
    ]
    return e, g, nu


# --------------------------------------------------------------------------- calcMetric
def metric_inputs(ctx, r, orth, locs):
    """Symbolic state established by geometry1/geometry2/calcBeta (their contracts)."""
    r.Rxy = mk.sym_mla(ctx, "R", locs)
    r.Bpxy = mk.sym_mla(ctx, "Bp", locs)
    r.hy = mk.sym_mla(ctx, "hy", locs)
    r.Btxy = mk.sym_mla(ctx, "Bt", locs)
    r.bpsign = ctx.real("bpsign")
    ctx.assume(Or(r.bpsign == 1, r.bpsign == -1))
    sb = None
    if not orth:
        r.cosBeta = mk.sym_mla(ctx, "cb", locs)
        sb = mk.sym_mla(ctx, "sb", locs)
        r.sinBeta = sb
    for l in locs:
        ctx.assume(And(mk.at(r.Rxy, l) > 0, mk.at(r.hy, l) > 0, r.bpsign * mk.at(r.Bpxy, l) > 0))
        if not orth:
            cb, s_ = mk.at(r.cosBeta, l), mk.at(sb, l)
            ctx.assume(And(cb != 0, cb * cb + s_ * s_ == 1))
    if not orth:
        r.tanBeta = sb / r.cosBeta  # post-condition of calcBeta
    r.dphidy = r.hy * r.Btxy / (r.Bpxy * r.Rxy)  # post-condition of geometry2
    return sb


def make_metric_run(orth, locs, must_fail=False, capped=False):
    """capped: the pipeline geometry2; calcMetric with cap_Bp_ylow_xpoint=True.  The cap (its own
    contract: C06) is a stub that overwrites Bpxy.ylow with a fresh value; every post-condition
    is stated for the arrays the region ENDS UP with (those are what the grid file stores), so
    the cap has to act before dphidy and before every metric component is formed."""
    from hypnotoad.core.mesh import MeshRegion

    MLA = mk.mla_cls()

    def run(ctx):
        r = mk.skeleton_region(orth)
        sb = metric_inputs(ctx, r, orth, locs)
        r.DDX = lambda name: MLA(1, 1)  # ShiftTorsion: contract C06
        r.calc_curvature = lambda: None  # contract C07
        caps = []
        if capped:
            del r.dphidy
            hy0 = r.hy
            del r.hy
            r.calcHy = lambda: hy0  # contract: C05
            r.calcBeta = lambda: None  # post-condition already installed by metric_inputs
            r.user_options.cap_Bp_ylow_xpoint = True
            newbp = ctx.real("Bp_ylow_capped")
            ctx.assume(r.bpsign * newbp > 0)

            def cap():
                caps.append(1)
                r.Bpxy.ylow[0, 0] = newbp

            r.capBpYlowXpoint = cap
            MeshRegion.geometry2(r)
        MeshRegion.calcMetric(r)
        with spec_mode():
            if capped:
                ctx.oblige(Sym(__import__("z3").BoolVal(caps == [1])), "cap_Bp_ylow_xpoint: the cap is applied exactly once")
                for l in locs:
                    ctx.oblige(mk.at(r.dphidy, l) * (mk.at(r.Bpxy, l) * mk.at(r.Rxy, l)) == mk.at(r.hy, l) * mk.at(r.Btxy, l), "dphidy = hy Bt/(Bp R) with the final (capped) Bp@%s" % l)
            for l in locs:
                R, Bp, hy, Bt = (mk.at(getattr(r, n), l) for n in ("Rxy", "Bpxy", "hy", "Btxy"))
                s = r.bpsign
                absBp = s * Bp
                t = mk.at(sb, l) / mk.at(r.cosBeta, l) if not orth else 0
                c = mk.at(r.cosBeta, l) if not orth else 1
                e, g, nu = spec_basis(R, absBp, hy, Bt, s, t)
                G = lambda n: mk.at(getattr(r, n), l)
                # ghost lemma: the spec bases are dual
                for i in range(3):
                    for j in range(3):
                        ctx.oblige(dot(g[i], e[j]) == (1 if i == j else 0), "ghost-dual[%d%d]@%s" % (i, j, l), kind="lemma")
                # (i) matrix inverses
                for i in range(3):
                    for j in range(3):
                        ctx.oblige(sum(G(UP[i][k]) * G(DN[k][j]) for k in range(3)) == (1 if i == j else 0), "inverse[%d%d]@%s" % (i, j, l))
                # (ii) Jacobian
                J = G("J")
                det = (
                    G("g11") * G("g22") * G("g33") + 2 * G("g12") * G("g13") * G("g23") - G("g11") * G("g23") ** 2 - G("g22") * G("g13") ** 2 - G("g33") * G("g12") ** 2
                )
                ctx.oblige(J == hy / Bp, "J=hy/Bp@%s" % l)
                ctx.oblige(J * J * det == 1, "J^2.det(g^ij)=1@%s" % l)
                ctx.oblige(s * J > 0, "sign(J)=bpsign@%s" % l)
                # (iii)+(iv)+(v) components = scalar products of the (ghost) basis vectors
                for i in range(3):
                    for j in range(i, 3):
                        ctx.oblige(G(UP[i][j]) == dot(g[i], g[j]), "%s=grad.grad@%s" % (UP[i][j], l))
                        ctx.oblige(G(DN[i][j]) == dot(e[i], e[j]), "%s=e.e@%s" % (DN[i][j], l))
                # closed forms quoted in the property statement
                ctx.oblige(G("g11") == (R * Bp) ** 2, "g11=(R.Bp)^2@%s" % l)
                ctx.oblige(G("g_33") == R * R, "g_33=R^2@%s" % l)
                ctx.oblige(G("g22") == 1 / (hy * c) ** 2, "g22=1/(hy.cosb)^2@%s" % l)
                ctx.oblige(G("g_23") == G("g_33") * nu, "g_23=g_33.dzShift/dy@%s" % l)
                if orth:
                    for n in ("g12", "g13", "g_12", "g_13"):
                        ctx.oblige(G(n) == 0, "orthogonal:%s=0@%s" % (n, l))
                if must_fail:
                    # twins that the solver has to refute (engine / vacuity guard)
                    ctx.oblige(G("g_23") == -G("g_33") * nu, "twin:g_23=-g_33.nu@%s" % l, kind="must-fail")
                    ctx.oblige(J == hy / (s * Bp), "twin:J=hy/|Bp|@%s" % l, kind="must-fail")
                    ctx.oblige(G("g11") * G("g_11") == 1 if not orth else G("g33") * G("g_33") == 1, "twin:diag-product@%s" % l, kind="must-fail")
        return r

    return run


def replay_metric(orth):
    def rep(vc, model):
        """Run the unpatched real calcMetric natively on the solver's witness."""
        from hypnotoad.core.mesh import MeshRegion

        l = vc.id.split("@")[1] if "@" in vc.id else "centre"
        l = l if l in mk.LOCS4 else "centre"
        g = lambda n, d: model_value(model, "%s_%s" % (n, l), d)
        s = model_value(model, "bpsign", 1.0)
        vals = dict(R=g("R", 1.5), Bp=g("Bp", 0.3 * s), hy=g("hy", 0.7), Bt=g("Bt", 1.1), cb=g("cb", 0.8), sb=g("sb", 0.6))
        if abs(vals["Bt"]) < 1e-12:
            vals["Bt"] = 1.1
        r = mk.skeleton_region(orth)
        locs = mk.LOCS4 if orth else ("centre", "ylow")
        mkf = lambda v: mk.float_mla({k: v for k in locs})
        r.Rxy, r.Bpxy, r.hy, r.Btxy = mkf(vals["R"]), mkf(vals["Bp"]), mkf(vals["hy"]), mkf(vals["Bt"])
        r.bpsign = s
        if not orth:
            r.cosBeta, r.sinBeta = mkf(vals["cb"]), mkf(vals["sb"])
            r.tanBeta = r.sinBeta / r.cosBeta
        r.dphidy = r.hy * r.Btxy / (r.Bpxy * r.Rxy)
        r.DDX = lambda name: mk.mla_cls()(1, 1)
        r.calc_curvature = lambda: None
        out = dict(inputs=vals, bpsign=s, location=l, orthogonal=orth)
        try:
            MeshRegion.calcMetric(r)
        except Exception as e:
            out["raised"] = repr(e)
            out["reproduced"] = "no-raise" in vc.id
            return out
        R, Bp, hy, Bt = vals["R"], vals["Bp"], vals["hy"], vals["Bt"]
        t = vals["sb"] / vals["cb"] if not orth else 0.0
        e, g_, nu = spec_basis(R, abs(Bp), hy, Bt, s, t)
        G = lambda n: float(getattr(getattr(r, n), "centre")[0, 0])
        bad = {}
        for i in range(3):
            for j in range(i, 3):
                for nm, want in ((UP[i][j], dot(g_[i], g_[j])), (DN[i][j], dot(e[i], e[j]))):
                    if abs(G(nm) - want) > 1e-9 * max(1.0, abs(want)):
                        bad[nm] = dict(code=G(nm), spec=want)
        up = numpy.array([[G(n) for n in row] for row in UP])
        dn = numpy.array([[G(n) for n in row] for row in DN])
        inv_err = float(numpy.abs(up @ dn - numpy.eye(3)).max())
        if inv_err > 1e-9:
            bad["inverse"] = inv_err
        if abs(G("J") - hy / Bp) > 1e-9 * abs(hy / Bp):
            bad["J"] = dict(code=G("J"), spec=hy / Bp)
        out["native_mismatches"] = bad
        out["reproduced"] = bool(bad)
        return out

    return rep


# --------------------------------------------------------------------------- geometry2
def run_geometry2(orth):
    from hypnotoad.core.mesh import MeshRegion

    locs = mk.LOCS4 if orth else ("centre", "ylow")

    def run(ctx):
        r = mk.skeleton_region(orth)
        r.Rxy = mk.sym_mla(ctx, "R", locs)
        r.Bpxy = mk.sym_mla(ctx, "Bp", locs)
        r.Btxy = mk.sym_mla(ctx, "Bt", locs)
        hy = mk.sym_mla(ctx, "hy", locs)
        for l in locs:
            ctx.assume(And(mk.at(r.Rxy, l) > 0, mk.at(r.Bpxy, l) != 0, mk.at(hy, l) > 0))
        calls = []
        r.calcHy = lambda: (calls.append("calcHy"), hy)[1]  # contract: C05 (returns hy > 0 or raises)
        r.calcBeta = lambda: calls.append("calcBeta")
        r.capBpYlowXpoint = lambda: calls.append("cap")
        MeshRegion.geometry2(r)
        with spec_mode():
            for l in locs:
                ctx.oblige(mk.at(r.dphidy, l) == mk.at(hy, l) * mk.at(r.Btxy, l) / (mk.at(r.Bpxy, l) * mk.at(r.Rxy, l)), "dphidy=hy.Bt/(Bp.R)@%s" % l)
            ctx.oblige(Sym(__import__("z3").BoolVal(r.hy is hy)), "hy:=calcHy()")
            ctx.oblige(Sym(__import__("z3").BoolVal(("calcBeta" in calls) == (not orth))), "calcBeta called iff non-orthogonal")
            ctx.oblige(Sym(__import__("z3").BoolVal("cap" not in calls)), "Bp not capped by default")
        return r

    return run


# --------------------------------------------------------------------------- calcBeta
def run_calcBeta(ctx):
    """cosBeta = dr_hat . n_hat, sinBeta = dr_hat . rot_cw(n_hat), tanBeta = sin/cos,
    cos^2+sin^2 = 1 at centre and ylow (the two locations calcBeta fills)."""
    from hypnotoad.core.mesh import MeshRegion

    MLA = mk.mla_cls()
    r = mk.skeleton_region(False)
    r.Rxy = mk.sym_mla(ctx, "R", mk.LOCS4, shared=False)
    r.Zxy = mk.sym_mla(ctx, "Z", mk.LOCS4, shared=False)
    fvals = {}

    def mkf(tag):
        def f(Rarr, Zarr):
            # A-PURE: uninterpreted field functions; one fresh symbol per evaluation point
            out = numpy.empty(numpy.shape(Rarr), dtype=object)
            for idx in numpy.ndindex(*out.shape):
                v = ctx.real("%s_%s_%s" % (tag, "x".join(map(str, out.shape)), "_".join(map(str, idx))))
                out[idx] = v
            fvals.setdefault(tag, []).append(out)
            return out

        return f

    r.meshParent = types.SimpleNamespace(equilibrium=types.SimpleNamespace(f_R=mkf("fR"), f_Z=mkf("fZ")))
    # pre: radial neighbours distinct, grad(psi) != 0
    dRc = r.Rxy.xlow[1, 0] - r.Rxy.xlow[0, 0]
    dZc = r.Zxy.xlow[1, 0] - r.Zxy.xlow[0, 0]
    ctx.assume(dRc * dRc + dZc * dZc > 0)
    for j in range(2):
        dR = r.Rxy.corners[1, j] - r.Rxy.corners[0, j]
        dZ = r.Zxy.corners[1, j] - r.Zxy.corners[0, j]
        ctx.assume(dR * dR + dZ * dZ > 0)
    fr_c, fz_c = ctx.real("fR_1x1_0_0"), ctx.real("fZ_1x1_0_0")
    ctx.assume(fr_c * fr_c + fz_c * fz_c > 0)
    ctx.assume(dRc * fr_c + dZc * fz_c != 0)  # radial neighbours lie on different flux surfaces
    for j in range(2):
        a, b = ctx.real("fR_1x2_0_%d" % j), ctx.real("fZ_1x2_0_%d" % j)
        ctx.assume(a * a + b * b > 0)
        ctx.assume((r.Rxy.corners[1, j] - r.Rxy.corners[0, j]) * a + (r.Zxy.corners[1, j] - r.Zxy.corners[0, j]) * b != 0)
    MeshRegion.calcBeta(r)
    with spec_mode():
        def chk(cb, sb, tb, dR, dZ, fr, fz, tag):
            ctx.oblige(cb * cb + sb * sb == 1, "cos^2+sin^2=1@%s" % tag)
            nd = (dR * dR + dZ * dZ) * (fr * fr + fz * fz)
            # squared / sign-resolved forms avoid naming the square roots in the spec
            ctx.oblige(cb * cb * nd == (dR * fr + dZ * fz) ** 2, "cos^2=(dr.n)^2@%s" % tag)
            ctx.oblige(cb * (dR * fr + dZ * fz) >= 0, "sign(cos)=sign(dr.gradpsi)@%s" % tag)
            ctx.oblige(sb * sb * nd == (dR * fz - dZ * fr) ** 2, "sin^2=(dr.rot_cw(n))^2@%s" % tag)
            ctx.oblige(sb * (dR * fz - dZ * fr) >= 0, "sign(sin)=sign(dr.rot_cw(gradpsi))@%s" % tag)

        chk(r.cosBeta.centre[0, 0], r.sinBeta.centre[0, 0], None, dRc, dZc, fr_c, fz_c, "centre")
        for j in range(2):
            dR = r.Rxy.corners[1, j] - r.Rxy.corners[0, j]
            dZ = r.Zxy.corners[1, j] - r.Zxy.corners[0, j]
            chk(r.cosBeta.ylow[0, j], r.sinBeta.ylow[0, j], None, dR, dZ, ctx.real("fR_1x2_0_%d" % j), ctx.real("fZ_1x2_0_%d" % j), "ylow%d" % j)
        # tanBeta = sinBeta/cosBeta wherever both are defined (cos != 0 is calcMetric's precondition)
        ctx.oblige(r.tanBeta.centre[0, 0] * r.cosBeta.centre[0, 0] == r.sinBeta.centre[0, 0], "tan=sin/cos@centre")
        ok_locs = r.tanBeta._xlow_array is None and r.tanBeta._corners_array is None and r.tanBeta._ylow_array is not None
        ctx.oblige(Sym(__import__("z3").BoolVal(bool(ok_locs))), "tanBeta defined exactly at centre,ylow")
    return r


# --------------------------------------------------------------------------- zShift integrand
def run_integrand(S):
    from hypnotoad.core.mesh import MeshRegion

    def run(ctx):
        psi = ctx.real("psi")
        f = ctx.real("fpol_of_psi")
        bpr, bpz = ctx.real("BpR"), ctx.real("BpZ")
        calls = []
        eq = types.SimpleNamespace(
            psi=lambda R, Z: (calls.append(("psi", R, Z)), psi)[1],
            fpol=lambda p: (calls.append(("fpol", p)), f)[1],
            Bp_R=lambda R, Z: (calls.append(("Bp_R", R, Z)), bpr)[1],
            Bp_Z=lambda R, Z: (calls.append(("Bp_Z", R, Z)), bpz)[1],
        )
        me = types.SimpleNamespace(meshParent=types.SimpleNamespace(equilibrium=eq))
        fn = transform.recompile(MeshRegion.calcZShift, nested="integrand_func", extra_globals=dict(self=me), report=S.extraction)
        R, Z = ctx.real("R"), ctx.real("Z")
        ctx.assume(And(R > 0, bpr * bpr + bpz * bpz > 0))
        out = fn(R, Z)
        with spec_mode():
            absBp = (bpr * bpr + bpz * bpz).sqrt()
            ctx.oblige(out * (R * absBp) == f / R, "integrand=Bt/(R|Bp|),Bt=fpol(psi)/R")
            ctx.oblige(out * f >= 0, "integrand has the sign of Bt (|Bp| used: unsigned)")
            import z3

            argsok = all(c[1] is R and (len(c) < 3 or c[2] is Z) for c in calls if c[0] != "fpol") and any(c[0] == "fpol" and c[1] is psi for c in calls)
            ctx.oblige(Sym(z3.BoolVal(bool(argsok))), "fields evaluated at (R,Z); fpol at psi(R,Z)")
        return out

    return run


# --------------------------------------------------------------------------- driver
# --------------------------------------------------------------------------- Mesh.geometry
def make_orchestration_run(have_rz, smoothing):
    """Real Mesh.geometry on three recorder regions: the order in which the per-region steps run
    respects the data flow between regions that the per-region contracts rely on --
      geometry2 reads its y-neighbours' Bpxy (cap) and calcHy their contours   -> after EVERY geometry1
      calcMetric differentiates dphidy (DDX) and Bxy (DDY) across region joins  -> after EVERY geometry2
    -- every step runs exactly once per region, R/Z are (re)computed first exactly when a region
    lacks them, and the curvature outputs are smoothed only when asked."""
    from hypnotoad.core import mesh as M

    def run(ctx):
        log = []

        class Region:
            def __init__(self, name, has):
                self.name = name
                if has:
                    self.Rxy = self.Zxy = object()

            def __getattr__(self, meth):
                if meth in ("calcDistances", "geometry1", "geometry2", "calcZShift", "calcMetric"):
                    return lambda: log.append((meth, self.name))
                raise AttributeError(meth)

        names = ["a", "b", "c"]
        m = object.__new__(M.Mesh)
        m.regions = {i: Region(n, have_rz or n != "b") for i, n in enumerate(names)}
        m.user_options = _Opts(curvature_smoothing=smoothing, shiftedmetric=True)
        m.calculateRZ = lambda: log.append(("calculateRZ", None))
        m.smoothnl = lambda v: log.append(("smoothnl", v))
        with patched((M, "print", lambda *a, **k: None)):
            M.Mesh.geometry(m)
        idx = lambda meth, n: [k for k, e in enumerate(log) if e == (meth, n)]
        with spec_mode():
            T = lambda b: Sym(__import__("z3").BoolVal(bool(b)))
            for meth in ("calcDistances", "geometry1", "geometry2", "calcZShift", "calcMetric"):
                ctx.oblige(T(all(len(idx(meth, n)) == 1 for n in names)), "%s runs exactly once for every region" % meth)
            once = all(len(idx(meth, n)) == 1 for meth in ("calcDistances", "geometry1", "geometry2", "calcZShift", "calcMetric") for n in names)
            if once:
                first = lambda meth: min(idx(meth, n)[0] for n in names)
                last = lambda meth: max(idx(meth, n)[0] for n in names)
                ctx.oblige(T(last("calcDistances") < first("geometry1")), "distances (dx, dy) of every region before any geometry1")
                ctx.oblige(T(last("geometry1") < first("geometry2")), "geometry1 of EVERY region before any geometry2 (neighbours' Bp, hy across joins)")
                ctx.oblige(T(last("geometry2") < first("calcMetric")), "geometry2 of EVERY region before any calcMetric (derivatives of dphidy, Bxy across joins)")
            rz = [k for k, e in enumerate(log) if e[0] == "calculateRZ"]
            ctx.oblige(T((rz == [0]) if not have_rz else (rz == [])), "R, Z computed first exactly when some region lacks them")
            sm = [e[1] for e in log if e[0] == "smoothnl"]
            want = ["bxcvx", "bxcvy", "bxcvz", "curl_bOverB_x", "curl_bOverB_y", "curl_bOverB_z"] if smoothing == "smoothnl" else []
            ctx.oblige(T(sorted(sm) == sorted(want) and (not sm or min(k for k, e in enumerate(log) if e[0] == "smoothnl") > max(k for k, e in enumerate(log) if e[0] == "calcMetric"))), "curvature outputs smoothed (after the metric) exactly when curvature_smoothing == 'smoothnl'")

    return run


def build(S):
    mk.silence_pyplot()
    S.under_contract(FN_METRIC, FN_GEOM2, FN_BETA, FN_ZSHIFT)
    S.trust("MeshRegion.DDX and calc_curvature are stubbed inside calcMetric (their own contracts: C06, C07)")
    S.assume("calcHy is stubbed inside geometry2's contract; its own contract (index maps at cells, faces, joins and boundaries) is discharged below")
    S.assume("A-ELEMENTWISE: numpy ufuncs and MultiLocationArray.__array_ufunc__ act element-by-element and location-by-location; calcMetric is run with one symbolic point per location (all four locations orthogonal, centre+ylow non-orthogonal), covering every index of every shape")
    S.assume("A-PURE: f_R, f_Z, psi, fpol, Bp_R, Bp_Z are deterministic pure functions (uninterpreted symbols per evaluation point)")
    S.assume("shiftedmetric=True (the only supported value: calcMetric raises otherwise), I=0")
    S.assume("d(zShift)/dy := hy*integrand with integrand = Bt/(R|Bp|) proved for calcZShift.integrand_func; trapezoid/interp1d accuracy of the integral itself is bounded-only (C06)")
    twin = S.tier == "thorough" or True
    with numpy_shimmed():
        S.contract("calcMetric[orthogonal]", FN_METRIC, make_metric_run(True, mk.LOCS4, must_fail=twin), expected_exceptions=(ValueError,), replay=replay_metric(True), shape="1x1 per location, 4 locations")
        S.contract("calcMetric[nonorthogonal]", FN_METRIC, make_metric_run(False, ("centre", "ylow"), must_fail=twin), expected_exceptions=(ValueError,), replay=replay_metric(False), shape="1x1 per location, centre+ylow")
        S.contract("geometry2;calcMetric[orthogonal, cap_Bp_ylow_xpoint]", FN_METRIC, make_metric_run(True, mk.LOCS4, capped=True), expected_exceptions=(ValueError,), shape="1x1 per location, 4 locations; cap stubbed (C06)")
        S.contract("geometry2;calcMetric[nonorthogonal, cap_Bp_ylow_xpoint]", FN_METRIC, make_metric_run(False, ("centre", "ylow"), capped=True), expected_exceptions=(ValueError,), shape="1x1 per location, centre+ylow; cap stubbed (C06)")
        mk.add_mla_arith(S)
        S.under_contract("hypnotoad.core.mesh:Mesh.geometry")
        for have_rz, sm in ((True, None), (False, None), (True, "smoothnl")):
            S.contract("Mesh.geometry[orchestration, R/Z %s, smoothing=%s]" % ("present" if have_rz else "missing in one region", sm), "hypnotoad.core.mesh:Mesh.geometry", make_orchestration_run(have_rz, sm), expected_exceptions=(ValueError,), shape="three recorder regions")
        S.contract("geometry2[orthogonal]", FN_GEOM2, run_geometry2(True), shape="1x1")
        S.contract("geometry2[nonorthogonal]", FN_GEOM2, run_geometry2(False), shape="1x1")
        S.contract("calcBeta", FN_BETA, run_calcBeta, shape="nx=1, ny=1 (xlow 2x1, corners 2x2)")
        S.contract("calcZShift.integrand_func", FN_ZSHIFT, run_integrand(S), shape="scalar")
        from . import C03, C05

        C05.add_hy(S)
        # dx (the "per unit dx" of the displacement relation) at all four locations, radial joins included
        S.under_contract(C03.FN_G1)
        S.contract("geometry1[x-neighbours]", C03.FN_G1, lambda c: C03.run_geometry1(c, True), expected_exceptions=(ValueError,), raises_ok=C03.g1_raises_ok, shape="nx=1, ny=3, inner+outer neighbour", max_paths=200)  # hy (hence g22, g33, g23, J, g_22, g_23) at every location, joins included


def post(S):
    from bounded import gridrun

    gridrun.run(S, ["metric_vs_displacements", "g11_xlow_vs_displacements", "hy_ylow_vs_displacements", "g23_vs_zshift", "zshift_halfcell"], FN_METRIC, name="measured displacements / stored zShift vs metric components on generated grids")
