import json
import os
import subprocess
import sys
import time

from vc.harness import REPO, ROOT


def run(S):
    """Real processes, np in {2,3}; a hang is caught by the watchdog (timeout)."""
    t0 = time.time()
    logf = os.path.join(ROOT, ".cache", "pm_tasks.%d.log" % os.getpid())
    os.makedirs(os.path.dirname(logf), exist_ok=True)
    cmd = [sys.executable, os.path.join(ROOT, "bounded", "pm_tasks.py"), REPO]
    hung = False
    with open(logf, "w") as lf:
        p = subprocess.Popen(cmd, stdout=lf, stderr=subprocess.STDOUT, start_new_session=True)
        try:
            p.wait(timeout=120)
        except subprocess.TimeoutExpired:
            hung = True
            import signal

            try:
                os.killpg(p.pid, signal.SIGKILL)
            except Exception:
                pass
    txt = open(logf).read()
    os.remove(logf)
    res = None
    for line in txt.splitlines():
        if line.startswith("RESULT "):
            res = json.loads(line[7:])
    bad = [r for r in (res or []) if not r["ok"]]
    b = dict(name="native ParallelMap runs", evaluations=len(res or []), distinct_nontrivial=len({(r["np"], r["kind"], str(r.get("perm", r.get("pos")))) for r in (res or [])}),
             rule="np in {2,3}; 4 tasks with delay patterns forcing different completion orders; failing task at each of 4 positions; map reused after each failure; distinct = (np, kind, pattern)",
             bound="n=4 tasks, np<=3, 120 s watchdog", samples=(res or [])[:3], failures=bad[:5], hung=hung, wall_s=round(time.time() - t0, 1))  # fmt: skip
    S.bounded.append(b)
    if hung or res is None or bad:
        what = "caller blocked (watchdog fired)" if hung else ("no result: " + txt[-300:] if res is None else "wrong results: %s" % bad[:2])
        S.static_vc("bounded:native-parallel-map", "hypnotoad.utils.parallel_map:ParallelMap.worker_run", "native runs equal serial results / failing task raises", False, detail=what, kind="bounded-native", model=dict(witness=bad[:2], hung=hung))


def grid_pairs(S):
    """Whole grids: serial map vs a map with the data flow of worker processes (pickled task
    in, pickled result out, no shared objects).  Completion order and failures are the
    ParallelMap contract's business (deductive part); what is decided here is that no call
    site of MeshRegion relies on a mapped function's effect on its arguments."""
    import numpy as np

    from bounded import gridbank as gb

    t0 = time.time()
    from bounded import gridrun

    cfgs = [c for pair in gridrun.worker_copy_pairs(S.tier) for c in pair]
    res = gb.generate_many(cfgs)
    rows, bad = [], []
    n = 0
    for k in range(0, len(cfgs), 2):
        a, b = res[k], res[k + 1]
        lab = cfgs[k]["label"]
        if not a["ok"]:
            S.undecided.append("reference configuration %s does not generate serially: %s" % (lab, a["error"][:100]))
            continue
        if not b["ok"]:
            bad.append(dict(cfg=lab, problem="generation with worker data flow raised although the serial one succeeded: " + b["error"][:200]))
            continue
        A, B = a["data"]["file"], b["data"]["file"]
        diffs = []
        for name in sorted(A):
            x, y = A[name], B.get(name)
            if isinstance(x, np.ndarray) and x.dtype.kind in "fiu":
                n += x.size
                if y is None or np.shape(x) != np.shape(y) or not np.array_equal(x, y, equal_nan=True):
                    diffs.append(dict(var=name, max_abs_diff=(float(np.nanmax(np.abs(np.asarray(x, float) - np.asarray(y, float)))) if y is not None and np.shape(x) == np.shape(y) else None)))
        rows.append(dict(cfg=lab, variables=len(A), differing=len(diffs)))
        if diffs:
            bad.append(dict(cfg=lab, problem="grid differs from the serial grid", first=diffs[:4]))
    S.bounded.append(dict(name="complete grids: serial map vs map with worker data flow", evaluations=n, distinct_nontrivial=max(2, len(rows)), rule="every numeric variable of the grid file identical (bit for bit) between the serial ParallelMap and a ParallelMap whose tasks and results are pickled copies; orthogonal and non-orthogonal, with and without boundary guard cells; distinct = configurations", bound="%d grid pairs" % (len(cfgs) // 2), samples=rows, failures=bad, wall_s=round(time.time() - t0, 1)))  # fmt: skip
    for b in bad:
        S.static_vc("bounded:serial-vs-worker-copies[%s]" % b["cfg"], "hypnotoad.core.mesh:MeshRegion.addPointAtWallToContours", "a grid generated with worker processes equals the serial grid value for value", False, detail=repr(b)[:1200], kind="bounded-grid", model=b)
