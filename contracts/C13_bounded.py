import json
import os
import subprocess
import sys
import time

from vc.harness import REPO, ROOT


def run(S):
    """Real processes, np in {2,3}; a hang is caught by the watchdog (timeout)."""
    t0 = time.time()
    logf = os.path.join(ROOT, ".cache", "pm_tasks.%d.log" % os.getpid())
    os.makedirs(os.path.dirname(logf), exist_ok=True)
    cmd = [sys.executable, os.path.join(ROOT, "bounded", "pm_tasks.py"), REPO]
    hung = False
    with open(logf, "w") as lf:
        p = subprocess.Popen(cmd, stdout=lf, stderr=subprocess.STDOUT, start_new_session=True)
        try:
            p.wait(timeout=120)
        except subprocess.TimeoutExpired:
            hung = True
            import signal

            try:
                os.killpg(p.pid, signal.SIGKILL)
            except Exception:
                pass
    txt = open(logf).read()
    os.remove(logf)
    res = None
    for line in txt.splitlines():
        if line.startswith("RESULT "):
            res = json.loads(line[7:])
    bad = [r for r in (res or []) if not r["ok"]]
    b = dict(name="native ParallelMap runs", evaluations=len(res or []), distinct_nontrivial=len({(r["np"], r["kind"], str(r.get("perm", r.get("pos")))) for r in (res or [])}),
             rule="np in {2,3}; 4 tasks with delay patterns forcing different completion orders; failing task at each of 4 positions; map reused after each failure; distinct = (np, kind, pattern)",
             bound="n=4 tasks, np<=3, 120 s watchdog", samples=(res or [])[:3], failures=bad[:5], hung=hung, wall_s=round(time.time() - t0, 1))  # fmt: skip
    S.bounded.append(b)
    if hung or res is None or bad:
        what = "caller blocked (watchdog fired)" if hung else ("no result: " + txt[-300:] if res is None else "wrong results: %s" % bad[:2])
        S.static_vc("bounded:native-parallel-map", "hypnotoad.utils.parallel_map:ParallelMap.worker_run", "native runs equal serial results / failing task raises", False, detail=what, kind="bounded-native", model=dict(witness=bad[:2], hung=hung))
