"""C11  Targets sit on the wall; penalty_mask and wall output match the geometry.

Deductive part (real code): MeshRegion.calcPenaltyMask's case analysis -- 0 / 1 / outside
fraction of the poloidal extent -- given the crossing parity reported by find_intersections
(C20) and ASSUMING the centre of the domain box lies inside the wall (the code does not
establish it); wall normalisation in TokamakEquilibrium.__init__ (sliced): a clockwise
input is reversed, using polygons.area (C20: area(reversed) = -area) so the stored wall is
anticlockwise, and Equilibrium.__init__ closes it.
That target points lie on the wall and on their flux surface, and that cells/guards are
inside/outside: bounded checks on generated grids (4-point, slanted, clockwise and
100-vertex walls in the thorough tier).
"""
import ast
import inspect
import textwrap
import types

import numpy
import z3

from vc.shim import numpy_shimmed, patched
from vc.sym import And, Or, Not, Implies, Sym, ite, spec_mode
from . import meshkit as mk

LEVEL = "proof"
FN_PM = "hypnotoad.core.mesh:MeshRegion.calcPenaltyMask"
FN_INIT = "hypnotoad.cases.tokamak:TokamakEquilibrium.__init__"
TRUE = lambda b: Sym(z3.BoolVal(bool(b)))


def make_pm_run(p1_out, p2_out, cross):
    """cross: None (no crossing found between the faces) or 'pt'."""

    def run(ctx):
        from hypnotoad.core import mesh as M

        r = mk.skeleton_region(True)
        r.nx = r.ny = 1
        r.Rxy = mk.sym_mla(ctx, "R", mk.LOCS4, shared=False)
        r.Zxy = mk.sym_mla(ctx, "Z", mk.LOCS4, shared=False)
        eq = types.SimpleNamespace(Rmax=3.0, Rmin=1.0, Zmax=1.0, Zmin=-1.0, closed_wallarray="WALL")
        P1 = (r.Rxy.ylow[0, 0], r.Zxy.ylow[0, 0])
        P2 = (r.Rxy.ylow[0, 1], r.Zxy.ylow[0, 1])
        ctx.assume(Or(P1[0] != P2[0], P1[1] != P2[1]))
        X = (ctx.real("XR"), ctx.real("XZ"))
        calls = []

        def fi(wall, a, b):
            calls.append((wall, a, b))
            is_p0 = not isinstance(a.R, Sym)
            if is_p0:
                tgt = b
                out = p1_out if (tgt.R is P1[0]) else p2_out
                n = 1 if out else 2
                return numpy.array([[0.0, 0.0]] * n, dtype=object) if (out or True) and n else None
            if cross is None:
                return None
            return numpy.array([[X[0], X[1]], [9.0, 9.0]], dtype=object)[:1]

        with patched((M, "find_intersections", fi)):
            M.MeshRegion.calcPenaltyMask(r, eq)
        pm = r.penalty_mask[0, 0]
        with spec_mode():
            ctx.oblige(TRUE(all(c[0] == "WALL" for c in calls)), "crossings are counted against the closed wall")
            ctx.oblige(TRUE(all(c[1].R == 2.0 and c[1].Z == 0.0 for c in calls[:2])), "parity rays start at the centre of the domain box")
            if p1_out and p2_out:
                ctx.oblige(pm == 1, "both y-faces outside -> 1")
            elif not p1_out and not p2_out:
                ctx.oblige(pm == 0, "both y-faces inside -> 0")
            elif cross is None:
                ctx.oblige(pm == 0, "mixed, but no crossing found between the faces -> left 0")
            else:
                po = P1 if p1_out else P2
                d_out2 = (po[0] - X[0]) ** 2 + (po[1] - X[1]) ** 2
                d_all2 = (P1[0] - P2[0]) ** 2 + (P1[1] - P2[1]) ** 2
                ctx.oblige(And(pm >= 0, pm * pm * d_all2 == d_out2), "mixed -> |outside face - crossing| / |face - face|")
        return r

    return run


def run_pm_unbounded(ctx):
    """Equilibrium without a finite (R,Z) box (TORPEX field from coils: Rmin..Zmax = -+inf): the
    parity rays must still start at a finite point (F21: they started at (nan, nan), no crossing
    was ever found, the mask was 0 everywhere) -- the centre of the wall's bounding box."""
    from hypnotoad.core import mesh as M

    r = mk.skeleton_region(True)
    r.nx = r.ny = 1
    r.Rxy = mk.sym_mla(ctx, "R", mk.LOCS4, shared=False)
    r.Zxy = mk.sym_mla(ctx, "Z", mk.LOCS4, shared=False)
    inf = float("inf")
    wall = numpy.array([[1.0, -0.5], [2.0, -0.25], [2.5, 0.75], [1.5, 1.5], [1.0, -0.5]])
    eq = types.SimpleNamespace(Rmax=inf, Rmin=-inf, Zmax=inf, Zmin=-inf, closed_wallarray=wall)
    calls = []

    def fi(w, a, b):
        calls.append((w, a, b))
        if isinstance(a.R, Sym):
            return None
        return numpy.array([[0.0, 0.0]], dtype=object)

    with patched((M, "find_intersections", fi)):
        M.MeshRegion.calcPenaltyMask(r, eq)
    pm = r.penalty_mask[0, 0]
    with spec_mode():
        starts = [c[1] for c in calls[:2]]
        fin = all(isinstance(p.R, (int, float)) and isinstance(p.Z, (int, float)) and abs(p.R) < 1e300 and abs(p.Z) < 1e300 and p.R == p.R and p.Z == p.Z for p in starts)
        ctx.oblige(TRUE(len(starts) == 2 and fin), "unbounded equilibrium box: the parity rays start at a finite point (not nan/inf)")
        ctx.oblige(TRUE(fin and all(p.R == 1.75 and p.Z == 0.5 for p in starts)), "unbounded equilibrium box: ... the centre of the wall's bounding box")
        ctx.oblige(TRUE(all(c[0] is wall for c in calls)), "crossings are counted against the closed wall")
        ctx.oblige(pm == 1, "both y-faces outside (odd crossing count) -> 1")
    return r


def make_temp_extend_run(lower, upper, end_negative, start=1):
    """PsiContour.temporaryExtend on a real contour with symbolic points: startInd / endInd keep
    designating THE SAME POINTS (the targets that addPointAtWallToContours put on the wall),
    whichever of the two index conventions endInd uses (>= 0 from the start, < 0 from the end:
    the latter is what _find_intersection leaves when it had to extend the contour to reach the
    upper wall), for any number of added points."""
    FN = "hypnotoad.core.equilibrium:PsiContour.temporaryExtend"

    def run(ctx):
        from hypnotoad.core import equilibrium as E

        n = 5
        Rs = [ctx.real("R%d" % i) for i in range(n)]
        ctx.assume(And(*[a < b for a, b in zip(Rs, Rs[1:])]))
        ctx.assume(And(Rs[0] > 10, Rs[-1] < 100))  # well inside the (R, Z) box of the equilibrium
        c = E.PsiContour(points=[E.Point2D(r, 0.0) for r in Rs], psival=1.0, settings={}, Rrange=(0.0, 1000.0), Zrange=(-1.0, 1.0))
        c.startInd = start
        c.endInd = -2 if end_negative else n - 2
        p_start, p_end = c[c.startInd], c[c.endInd]
        before = list(c.points)
        ds = ctx.real("ds")
        ctx.assume(And(ds > 0, ds < 1))
        c._coarseExtrapLower = lambda i: (lambda d: E.Point2D(c[0].R + d, 0.0))  # called with -ds
        c._coarseExtrapUpper = lambda i: (lambda d: E.Point2D(c[-1].R + d, 0.0))
        c.refinePoint = lambda p, tangent, psi=None: p
        c.temporaryExtend(psi=None, extend_lower=lower, extend_upper=upper, ds_lower=ds, ds_upper=ds)
        with spec_mode():
            ctx.oblige(TRUE(len(c.points) == n + lower + upper and c.points[lower : lower + n] == before), "%d point(s) added below, %d above, the original points kept in order in between" % (lower, upper))
            ctx.oblige(TRUE(c[c.startInd] is p_start), "startInd still designates the same point (the lower target)")
            ctx.oblige(TRUE(c[c.endInd] is p_end), "endInd still designates the same point (the upper target)")
            ctx.oblige(TRUE((c.endInd < 0) == end_negative), "endInd keeps its index convention")
            ctx.oblige(TRUE(c[c.endInd] is c.points[-1]), "twin: endInd designates the last point", kind="must-fail")
        return c

    return run


def wall_block():
    from hypnotoad.cases import tokamak as T

    src = textwrap.dedent(inspect.getsource(T.TokamakEquilibrium.__init__))
    fdef = ast.parse(src).body[0]
    start = end = None
    for i, st in enumerate(fdef.body):
        txt = ast.unparse(st)
        if start is None and isinstance(st, ast.If) and txt.startswith("if wall is None"):
            start = i
        if isinstance(st, ast.Assign) and txt.startswith("self.wall ="):
            end = i
    if start is None or end is None:
        raise LookupError("wall block not found")
    body = fdef.body[start : end + 1]
    f = ast.FunctionDef(name="_wall_block", args=ast.arguments(posonlyargs=[], args=[ast.arg(arg="self"), ast.arg(arg="wall")], kwonlyargs=[], kw_defaults=[], defaults=[]), body=body + [ast.Return(value=ast.Name(id="wall", ctx=ast.Load()))], decorator_list=[], type_params=[])
    mod = ast.Module(body=[f], type_ignores=[])
    ast.fix_missing_locations(mod)
    loc = {}
    exec(compile(mod, "<vc:TokamakEquilibrium.__init__[wall]>", "exec"), T.__dict__, loc)
    return loc["_wall_block"]


def make_wall_run(n):
    def run(ctx):
        from hypnotoad.utils import polygons

        fn = wall_block()
        wall = [(ctx.real("wr%d" % k), ctx.real("wz%d" % k)) for k in range(n)]
        keep = list(wall)
        me = types.SimpleNamespace(Rmin=1.0, Rmax=2.0, Zmin=-1.0, Zmax=1.0)
        out = fn(me, wall)
        def signed_area2(poly):
            # independent shoelace: sum(r_k z_k+1 - r_k+1 z_k) > 0  <=>  anticlockwise
            m = len(poly)
            return sum(poly[k][0] * poly[(k + 1) % m][1] - poly[(k + 1) % m][0] * poly[k][1] for k in range(m))

        a_in = -signed_area2(keep)  # > 0 <=> clockwise (same sign convention as polygons.area)
        with spec_mode():
            stored = [(p.R, p.Z) for p in me.wall]
            ctx.oblige(TRUE(wall == keep), "the caller's list is not modified")
            ctx.oblige(TRUE(len(stored) == n), "same number of vertices")
            same = all(stored[k][0] is keep[k][0] and stored[k][1] is keep[k][1] for k in range(n))
            rev = all(stored[k][0] is keep[n - 1 - k][0] and stored[k][1] is keep[n - 1 - k][1] for k in range(n))
            ctx.oblige(TRUE(same or rev), "stored wall is the input wall or its exact reversal")
            ctx.oblige(signed_area2(stored) >= 0, "stored wall is anticlockwise (independent shoelace sum >= 0)")
            ctx.oblige(Implies(a_in > 0, TRUE(rev and not same or n < 2)), "clockwise input is reversed")
            ctx.oblige(Implies(a_in < 0, TRUE(same)), "anticlockwise input is kept")
        return me

    return run


def run_closed(ctx):
    """Equilibrium.__init__ builds closed_wallarray = wall + [wall[0]] (sliced statements)."""
    from hypnotoad.core import equilibrium as E

    src = textwrap.dedent(inspect.getsource(E.Equilibrium.__init__))
    fdef = ast.parse(src).body[0]
    stmts = [st for st in ast.walk(fdef) if isinstance(st, ast.Assign) and ("closed_wall" in ast.unparse(st))]
    f = ast.FunctionDef(name="_closed", args=ast.arguments(posonlyargs=[], args=[ast.arg(arg="self")], kwonlyargs=[], kw_defaults=[], defaults=[]), body=stmts, decorator_list=[], type_params=[])
    mod = ast.Module(body=[f], type_ignores=[])
    ast.fix_missing_locations(mod)
    loc = {}
    exec(compile(mod, "<vc:Equilibrium.__init__[closed wall]>", "exec"), E.__dict__, loc)
    pts = [E.Point2D(ctx.real("R%d" % k), ctx.real("Z%d" % k)) for k in range(4)]
    me = types.SimpleNamespace(wall=pts)
    loc["_closed"](me)
    a = me.closed_wallarray
    ctx.oblige(TRUE(len(stmts) == 2 and a.shape == (5, 2)), "closed_wallarray has one more row than the wall")
    ctx.oblige(TRUE(all(a[k, 0] is pts[k % 4].R and a[k, 1] is pts[k % 4].Z for k in range(5))), "closed_wallarray = wall followed by its first point")


FN_ADD = "hypnotoad.core.mesh:MeshRegion.addPointAtWallToContours"


def make_wall_points_run(lower_wall, upper_wall, li, ui, n=5):
    """Real MeshRegion.addPointAtWallToContours on one real PsiContour of n symbolic points;
    _find_intersection (C20 + refinement) is replaced by its result: the wall point W_l lies on
    segment (li, li+1) and W_u on segment (ui, ui+1) of the contour."""

    def run(ctx):
        from hypnotoad.core import mesh as M
        from hypnotoad.core.equilibrium import Point2D, PsiContour

        r = mk.skeleton_region(False, wall_point_exclude_radius=ctx.real("exclude_radius"))
        ctx.assume(r.user_options.wall_point_exclude_radius > 0)
        r.connections = dict(lower=None if lower_wall else 7, upper=None if upper_wall else 8, inner=None, outer=None)
        r.equilibriumRegion.psi = None
        c = object.__new__(PsiContour)
        P = [Point2D(ctx.real("R%d" % k), ctx.real("Z%d" % k)) for k in range(n)]
        c.points = list(P)
        c._startInd, c._endInd = 0, n - 1
        c._fine_contour = c._distance = None
        Wl, Wu = Point2D(ctx.real("Rwl"), ctx.real("Zwl")), Point2D(ctx.real("Rwu"), ctx.real("Zwu"))
        if lower_wall and upper_wall:
            # pre: the two targets of one flux surface are not within the exclusion radius of each other
            ctx.assume((Wl.R - Wu.R) ** 2 + (Wl.Z - Wu.Z) ** 2 >= r.user_options.wall_point_exclude_radius ** 2)
        resets = []
        c._reset_cached = lambda: resets.append((c._startInd, c._endInd))
        c.totalDistance = lambda psi=None: ctx.real("new_total_distance")
        r.contours = [c]
        calls = []

        def pmap(f, tasks, **kw):
            calls.append(f.__name__)
            tasks = list(tasks)
            if f.__name__ == "_find_intersection":
                return [(c, li, Wl if lower_wall else None, ui, Wu if upper_wall else None)]
            return [t[1] for t in tasks]

        r.parallel_map = pmap

        c.contourSfunc = lambda psi=None: (lambda i: ctx.real("sorth_at_%s" % str(i).replace(".", "_").replace("-", "m")))
        M.MeshRegion.addPointAtWallToContours(r)
        c2 = r.contours[0]
        norm = lambda k: k if k >= 0 else k + len(c2.points)
        with spec_mode():
            ctx.oblige(TRUE(calls == ["_find_intersection", "_refine_extend"]), "wall intersections are found, then the contour is refined/extended")
            ctx.oblige(TRUE(c2 is c), "the contour returned by the intersection search is the one kept")
            pts = c2.points
            if lower_wall:
                ctx.oblige(TRUE(pts[c2.startInd] is Wl), "lower target: contour[startInd] IS the wall point")
                ctx.oblige(TRUE(sum(1 for q in pts if q is Wl) == 1), "the lower wall point appears exactly once")
            else:
                ctx.oblige(TRUE(norm(c2.startInd) == 0 and pts[0] is P[0]), "no lower wall: start of the contour untouched")
            if upper_wall:
                ctx.oblige(TRUE(pts[c2.endInd] is Wu), "upper target: contour[endInd] IS the wall point")
                ctx.oblige(TRUE(sum(1 for q in pts if q is Wu) == 1), "the upper wall point appears exactly once")
            else:
                ctx.oblige(TRUE(norm(c2.endInd) == len(pts) - 1 and pts[-1] is P[-1]), "no upper wall: end of the contour untouched")
            a, b = norm(c2.startInd), norm(c2.endInd)
            ctx.oblige(TRUE(a < b), "target indices ordered")
            # the domain part of the contour: original points, original order, all of them from
            # the far side of the lower intersected segment to the near side of the upper one,
            # except a point within the exclusion radius of a wall point (replaced by it)
            lo = (li + 1) if lower_wall else 1
            hi = (ui if ui >= 0 else ui + n) if upper_wall else n - 2
            inner = list(pts[a + 1 : b])
            ids = [next((k for k, p0 in enumerate(P) if p0 is q), None) for q in inner]
            ctx.oblige(TRUE(all(k is not None for k in ids) and ids == sorted(ids) and len(set(ids)) == len(ids)), "points between the targets are original points in original order")
            ctx.oblige(TRUE(all(lo <= k <= hi for k in ids)), "points between the targets all lie between the two intersected segments")
            missing = [k for k in range(lo, hi + 1) if k not in ids]
            for k in missing:
                near_l = ((P[k].R - Wl.R) ** 2 + (P[k].Z - Wl.Z) ** 2 < r.user_options.wall_point_exclude_radius ** 2) if lower_wall else TRUE(False)
                near_u = ((P[k].R - Wu.R) ** 2 + (P[k].Z - Wu.Z) ** 2 < r.user_options.wall_point_exclude_radius ** 2) if upper_wall else TRUE(False)
                ctx.oblige(Or(near_l, near_u), "original point %d dropped only because it is within the exclusion radius of a wall point" % k)
            if lower_wall:
                ctx.oblige(TRUE(len(resets) >= 1), "cached distances reset after moving the start index")
        return c2

    return run


def find_intersection_choice(S):
    """The real _find_intersection on a recorder contour whose segments cross the wall where the
    test says (wallIntersection answers from a table; fine contour = the contour itself): when
    a contour crosses the wall more than once (re-entrant wall, many guard points) the target is
    the FIRST crossing met on leaving the plasma -- scanning from the X-point end at a lower wall,
    from the X-point end at an upper wall -- and the index returned is that segment's."""
    import contextlib
    import io
    import types

    from hypnotoad.core import mesh as M
    from hypnotoad.core.equilibrium import Point2D

    bad, n = [], 0
    npts = 7
    pts = [Point2D(1.0 + 0.1 * k, 0.05 * k * k) for k in range(npts)]

    def run(crossing_segments, lower_wall, upper_wall):
        cross = {frozenset((a, a + 1)): Point2D(0.5 * (pts[a].R + pts[a + 1].R), 0.5 * (pts[a].Z + pts[a + 1].Z)) for a in crossing_segments}

        def wall_intersection(p, q):
            try:
                i, j = next(k for k, x in enumerate(pts) if x is p or (x.R == p.R and x.Z == p.Z)), next(k for k, x in enumerate(pts) if x is q or (x.R == q.R and x.Z == q.Z))
            except StopIteration:
                return None
            return cross.get(frozenset((i, j)))

        fine = types.SimpleNamespace(positions=numpy.array([[p.R, p.Z] for p in pts]), distance=numpy.arange(npts, dtype=float))
        fine.getDistance = lambda pt: next(0.5 * (a + a + 1) for a in range(npts - 1) if cross.get(frozenset((a, a + 1))) is pt)

        class C(list):
            pass

        c = C(pts)
        c.get_fine_contour = lambda psi=None: fine
        c.get_distance = lambda psi=None: list(range(npts))
        c.refinePoint = lambda p, t, psi=None: p
        c.temporaryExtend = lambda **k: (_ for _ in ()).throw(AssertionError("extension not expected"))
        eq = types.SimpleNamespace(wallIntersection=wall_intersection, psi=None)
        with contextlib.redirect_stdout(io.StringIO()):
            return M._find_intersection(0, c, equilibrium=eq, lower_wall=lower_wall, upper_wall=upper_wall, max_extend=5, psi="PSI")

    cases = [
        ((1,), True, False, 1, None), ((0,), True, False, 0, None), ((0, 3), True, False, 3, None), ((1, 2, 4), True, False, 4, None),
        ((4,), False, True, None, 4), ((5,), False, True, None, 5), ((2, 5), False, True, None, 2), ((1, 3, 4), False, True, None, 1),
    ]
    for segs, lw, uw, want_lo, want_up in cases:
        n += 1
        try:
            out = run(segs, lw, uw)
        except Exception as e:
            bad.append(dict(crossings=segs, lower_wall=lw, problem="raised %r" % e))
            continue
        _, lo_i, lo_p, up_i, up_p = out
        if lw and not (lo_i == want_lo and lo_p is not None and abs(lo_p.R - 0.5 * (pts[want_lo].R + pts[want_lo + 1].R)) < 1e-12):
            bad.append(dict(crossings=segs, wall="lower", index=lo_i, wanted_segment=want_lo))
        if uw and not (up_i == want_up and up_p is not None and abs(up_p.R - 0.5 * (pts[want_up].R + pts[want_up + 1].R)) < 1e-12):
            bad.append(dict(crossings=segs, wall="upper", index=up_i, wanted_segment=want_up))
    S.static_vc("_find_intersection", "hypnotoad.core.mesh:_find_intersection", "with several wall crossings on one contour the target is the first one met on leaving the plasma, and the segment index returned is that crossing's (%d crossing patterns)" % n, not bad and n == 8, detail=repr(bad[:3]), kind="native-all-classes", model=bad[0] if bad else None)


def build(S):
    mk.silence_pyplot()
    find_intersection_choice(S)
    S.under_contract("hypnotoad.core.mesh:_find_intersection")
    S.under_contract(FN_ADD, FN_PM, FN_INIT, "hypnotoad.core.equilibrium:Equilibrium.__init__", "hypnotoad.utils.polygons:clockwise")
    S.assume("ASSUMED, not established by the code: the centre of the (Rmin,Rmax)x(Zmin,Zmax) box (of the wall's bounding box when that box is unbounded) lies inside the wall, so that crossing parity from it decides inside/outside")
    S.assume("addPointAtWallToContours: _find_intersection is replaced by its result (wall point on a given segment; C20 wallIntersection + C01 refinement); precondition: the two wall points of one contour are at least wall_point_exclude_radius apart; contourSfunc / totalDistance are stubs")
    S.assume("crossing parity is taken from find_intersections (contract C20); a ray through a wall vertex counts two rows (C20 shared-vertex clause)")
    S.extraction.append(dict(function="TokamakEquilibrium.__init__", sliced="statements from `if wall is None:` to `self.wall = [...]`; Equilibrium.__init__: the two closed_wall assignments"))
    with numpy_shimmed():
        for p1 in (False, True):
            for p2 in (False, True):
                for cross in ((None, "pt") if p1 != p2 else ("pt",)):
                    S.contract("calcPenaltyMask[p1_out=%s,p2_out=%s,crossing=%s]" % (p1, p2, cross), FN_PM, make_pm_run(p1, p2, cross), shape="nx=ny=1")
        S.under_contract("hypnotoad.core.equilibrium:PsiContour.temporaryExtend")
        for lo, up, neg in ((0, 1, False), (0, 2, True), (0, 3, True), (2, 2, True), (2, 0, True), (1, 2, False), (0, 1, True)):
            S.contract("temporaryExtend[lower=%d,upper=%d,endInd %s]" % (lo, up, "negative" if neg else "non-negative"), "hypnotoad.core.equilibrium:PsiContour.temporaryExtend", make_temp_extend_run(lo, up, neg), shape="5 symbolic points; extrapolation / refinePoint replaced by stubs")
        S.contract("calcPenaltyMask[unbounded equilibrium box]", FN_PM, run_pm_unbounded, shape="nx=ny=1, 4-vertex wall")
        for n in (3, 4, 5):
            S.contract("wall-normalisation[n=%d]" % n, FN_INIT, make_wall_run(n), expected_exceptions=(), shape="n=%d vertices" % n)
        for lw, uw, li, ui in ((True, False, 0, -2), (True, False, 1, -2), (False, True, 0, 2), (False, True, 0, -2), (True, True, 0, 3), (True, True, 1, -2), (True, True, 1, 2)):
            S.contract("addPointAtWallToContours[%s%s,li=%d,ui=%d]" % ("L" if lw else "-", "U" if uw else "-", li, ui), FN_ADD, make_wall_points_run(lw, uw, li, ui), shape="one contour of 5 symbolic points; _find_intersection replaced by its result")
        S.contract("closed_wallarray", "hypnotoad.core.equilibrium:Equilibrium.__init__", run_closed, shape="4 vertices")


def post(S):
    from bounded import gridrun, gridbank as gb

    cfgs = None
    if S.tier == "quick":
        P = dict(fpol="profile", pressure=True)
        cfgs = gridrun.quick_set()[:3] + [gb.cfg("lsn", dict(orthogonal=True), wall="box_cw", label="lsn-orth-clockwise-wall", **P), gridrun.TORPEX]
    gridrun.run(S, ["targets_on_wall", "penalty_mask_vs_geometry", "cells_inside_wall"], FN_PM, cfgs=cfgs, name="targets / penalty mask / wall on generated grids")
