"""C20  Segment/polygon predicates agree with exact arithmetic.

Real code under contract: find_intersections, Equilibrium.wallIntersection,
closest_approach (hypnotoad/core/equilibrium.py), polygons.intersect/area/clockwise.
All coordinates are symbolic reals; every slope class, ordering and filter outcome is
a path of the real function and all feasible paths are explored.
"""
import types

import numpy
import z3

from vc.shim import numpy_shimmed, patched
from vc.sym import And, Or, Not, Implies, Sym, ite, spec_mode
from vc.harness import model_value

LEVEL = "proof"
FN_FI = "hypnotoad.core.equilibrium:find_intersections"
FN_WI = "hypnotoad.core.equilibrium:Equilibrium.wallIntersection"
FN_CA = "hypnotoad.core.equilibrium:closest_approach"
FN_PI = "hypnotoad.utils.polygons:intersect"
FN_PA = "hypnotoad.utils.polygons:area"
FN_PC = "hypnotoad.utils.polygons:clockwise"
TRUE = lambda b: Sym(z3.BoolVal(bool(b)))
TOL = 1.0e-14


def mn(a, b):
    return ite(a <= b, a, b)


def mx(a, b):
    return ite(a >= b, a, b)


def ab(x):
    return ite(x >= 0, x, -x)


def cross(ax, az, bx, bz):
    return ax * bz - az * bx


def sym_points(ctx, names):
    from hypnotoad.core.equilibrium import Point2D

    return [Point2D(ctx.real(n + "R"), ctx.real(n + "Z")) for n in names]


def wall_array(pts):
    a = numpy.empty((len(pts), 2), dtype=object)
    for i, p in enumerate(pts):
        a[i, 0], a[i, 1] = p.R, p.Z
    return a


def row_obligations(ctx, row, P, Q, A, B, tag):
    Rx, Zx = row[0], row[1]
    ctx.oblige(cross(Rx - P.R, Zx - P.Z, Q.R - P.R, Q.Z - P.Z) == 0, "sound:on-wall-edge-line" + tag)
    ctx.oblige(cross(Rx - A.R, Zx - A.Z, B.R - A.R, B.Z - A.Z) == 0, "sound:on-segment-line" + tag)
    for (U, V, nm) in ((P, Q, "edge"), (A, B, "segment")):
        cases = [And(V.R >= U.R, V.Z >= U.Z), And(V.R >= U.R, V.Z < U.Z), And(V.R < U.R, V.Z >= U.Z), And(V.R < U.R, V.Z < U.Z)]
        ctx.oblige_cases(Rx >= mn(U.R, V.R) - TOL, "sound:within-%s-extent(+-1e-14):R>=min" % nm + tag, cases)
        ctx.oblige_cases(Rx <= mx(U.R, V.R) + TOL, "sound:within-%s-extent(+-1e-14):R<=max" % nm + tag, cases)
        ctx.oblige_cases(Zx >= mn(U.Z, V.Z) - TOL, "sound:within-%s-extent(+-1e-14):Z>=min" % nm + tag, cases)
        ctx.oblige_cases(Zx <= mx(U.Z, V.Z) + TOL, "sound:within-%s-extent(+-1e-14):Z<=max" % nm + tag, cases)


def run_fi_sound(ctx):
    from hypnotoad.core import equilibrium as E

    P, Q, A, B = sym_points(ctx, "PQAB")
    ctx.assume(Or(P.R != Q.R, P.Z != Q.Z))
    ctx.assume(Or(A.R != B.R, A.Z != B.Z))
    keep = [(A.R, A.Z), (B.R, B.Z)]
    res = E.find_intersections(wall_array([P, Q]), A, B)
    with spec_mode():
        ctx.oblige(TRUE(A.R is keep[0][0] and A.Z is keep[0][1] and B.R is keep[1][0] and B.Z is keep[1][1]), "frame:caller's end points not modified")
        if res is not None:
            ctx.oblige(TRUE(res.ndim == 2 and res.shape[1] == 2 and res.shape[0] == 1), "one wall edge gives at most one row")
            for k in range(res.shape[0]):
                row_obligations(ctx, res[k], P, Q, A, B, "")
    return res


def nondegenerate(P, Q, A, B):
    d1R, d1Z, d2R, d2Z = Q.R - P.R, Q.Z - P.Z, B.R - A.R, B.Z - A.Z
    c = cross(d1R, d1Z, d2R, d2Z)
    m1 = mx(ab(d1R), ab(d1Z))
    m2 = mx(ab(d2R), ab(d2Z))
    return ab(c) >= 1.0e-15 * m1 * m2


def meeting_config(ctx, names, X):
    """Two points U, V = X - t D, X + (1-t) D with t in [0,1]: the closed segment UV
    contains X by construction (no equality constraints for the solver)."""
    from hypnotoad.core.equilibrium import Point2D

    t = ctx.real("t_" + names)
    D = (ctx.real("d%sR" % names), ctx.real("d%sZ" % names))
    ctx.assume(And(t >= 0, t <= 1))
    ctx.assume(Or(D[0] != 0, D[1] != 0))
    U = Point2D(X[0] - t * D[0], X[1] - t * D[1])
    V = Point2D(X[0] + (1 - t) * D[0], X[1] + (1 - t) * D[1])
    return U, V


def run_fi_complete(ctx):
    from hypnotoad.core import equilibrium as E

    X = (ctx.real("XR"), ctx.real("XZ"))
    P, Q = meeting_config(ctx, "PQ", X)
    A, B = meeting_config(ctx, "AB", X)
    # the closed segments meet at X and are not (nearly) parallel
    ctx.assume(nondegenerate(P, Q, A, B))
    res = E.find_intersections(wall_array([P, Q]), A, B)
    with spec_mode():
        ctx.oblige(TRUE(res is not None), "complete:a crossing is reported when the segments meet")
        if res is not None:
            ctx.oblige(And(res[0][0] == X[0], res[0][1] == X[1]), "complete:the reported point is the meeting point")
    return res


def run_fi_parallel_neighbour(ctx):
    """Wall P-Q-Q' whose second edge is EXACTLY parallel to the segment (dropped by the
    parallel filter) while the first one meets it: the crossing with P-Q is reported, once,
    and nothing else (the filter must not disturb the other edges of its slope class)."""
    from hypnotoad.core import equilibrium as E
    from hypnotoad.core.equilibrium import Point2D

    X = (ctx.real("XR"), ctx.real("XZ"))
    P, Q = meeting_config(ctx, "PQ", X)
    A, B = meeting_config(ctx, "AB", X)
    ctx.assume(nondegenerate(P, Q, A, B))
    lam = ctx.real("lambda")
    ctx.assume(lam != 0)
    Q2 = Point2D(Q.R + lam * (B.R - A.R), Q.Z + lam * (B.Z - A.Z))
    res = E.find_intersections(wall_array([P, Q, Q2]), A, B)
    with spec_mode():
        ctx.oblige(TRUE(res is not None and res.shape[0] == 1), "parallel neighbour edge: exactly one crossing reported")
        if res is not None and res.shape[0] >= 1:
            ctx.oblige(And(res[0][0] == X[0], res[0][1] == X[1]), "parallel neighbour edge: the reported point is the meeting point with the non-parallel edge")
    return res


def run_fi_shared_vertex(ctx):
    """Two wall edges P-V, V-Q; the segment passes through V."""
    from hypnotoad.core import equilibrium as E
    from hypnotoad.core.equilibrium import Point2D

    V = Point2D(ctx.real("VR"), ctx.real("VZ"))
    P = Point2D(V.R + ctx.real("e1R"), V.Z + ctx.real("e1Z"))
    Q = Point2D(V.R + ctx.real("e2R"), V.Z + ctx.real("e2Z"))
    ctx.assume(Or(P.R != V.R, P.Z != V.Z))
    ctx.assume(Or(Q.R != V.R, Q.Z != V.Z))
    A, B = meeting_config(ctx, "AB", (V.R, V.Z))
    ctx.assume(nondegenerate(P, V, A, B))
    ctx.assume(nondegenerate(V, Q, A, B))
    eq = types.SimpleNamespace(closed_wallarray=wall_array([P, V, Q]), closed_wall=[P, V, Q])
    res = E.find_intersections(eq.closed_wallarray, A, B)
    with spec_mode():
        ctx.oblige(TRUE(res is not None and res.shape[0] == 2), "shared vertex: both edges report")
        if res is not None and res.shape[0] == 2:
            ctx.oblige(And(res[0][0] == V.R, res[0][1] == V.Z, res[1][0] == V.R, res[1][1] == V.Z), "shared vertex: both rows are the vertex")
    pt = E.Equilibrium.wallIntersection(eq, A, B)
    with spec_mode():
        ctx.oblige(TRUE(pt is not None), "wallIntersection returns a point")
        if pt is not None:
            ctx.oblige(And(pt.R == V.R, pt.Z == V.Z), "wallIntersection: a crossing through a shared vertex is one point")
    return res


def run_wi_cases(ctx):
    """wallIntersection's duplicate handling on stubbed find_intersections results."""
    from hypnotoad.core import equilibrium as E

    r = [[ctx.real("r%d%d" % (i, j)) for j in range(2)] for i in range(3)]
    eq = types.SimpleNamespace(closed_wallarray=None, closed_wall=[])
    outs = {}
    for k in (0, 1, 2, 3):
        arr = None if k == 0 else numpy.array([[r[i][0], r[i][1]] for i in range(k)], dtype=object)
        with patched((E, "find_intersections", lambda w, a, b, arr=arr: arr)):
            try:
                outs[k] = ("ok", E.Equilibrium.wallIntersection(eq, E.Point2D(0.0, 0.0), E.Point2D(1.0, 1.0)))
            except (ValueError, RuntimeError) as e:
                outs[k] = ("raise", type(e).__name__)
    with spec_mode():
        ctx.oblige(TRUE(outs[0] == ("ok", None)), "no rows -> None")
        ctx.oblige(TRUE(outs[1][0] == "ok" and outs[1][1].R is r[0][0] and outs[1][1].Z is r[0][1]), "one row -> that point")
        ctx.oblige(TRUE(outs[3] == ("raise", "ValueError")), ">2 rows -> ValueError")
        close = And(ab(r[0][0] - r[1][0]) < TOL, ab(r[0][1] - r[1][1]) < TOL)
        if outs[2][0] == "ok":
            ctx.oblige(close, "two rows accepted only if they coincide within 1e-14")
            ctx.oblige(TRUE(outs[2][1].R is r[0][0]), "two coinciding rows -> first point")
        else:
            ctx.oblige(Not(close), "two distinct rows -> RuntimeError")
            ctx.oblige(TRUE(outs[2][1] == "RuntimeError"), "two distinct rows -> RuntimeError (type)")


def run_closest(ctx):
    from hypnotoad.core import equilibrium as E

    p = [ctx.real("p0"), ctx.real("p1")]
    a = [ctx.real("a0"), ctx.real("a1")]
    b = [ctx.real("b0"), ctx.real("b1")]
    ctx.assume(Or(a[0] != b[0], a[1] != b[1]))
    arr = lambda v: numpy.array(v, dtype=object)
    d = E.closest_approach(arr(p), arr(a), arr(b))
    s = ctx.real("s")  # arbitrary parameter in [0,1]
    with spec_mode():
        ctx.assume(And(s >= 0, s <= 1))
        q = [a[0] + s * (b[0] - a[0]), a[1] + s * (b[1] - a[1])]
        d2s = (p[0] - q[0]) ** 2 + (p[1] - q[1]) ** 2
        ctx.oblige(d >= 0, "result>=0")
        ctx.oblige(d * d <= d2s, "result^2 <= |p - a - s(b-a)|^2 for every s in [0,1]")
        # attained: at t* = clamp(t0) -- expressed without naming t0: the minimiser's distance
        m = [b[0] - a[0], b[1] - a[1]]
        mm = m[0] * m[0] + m[1] * m[1]
        tp = m[0] * (p[0] - a[0]) + m[1] * (p[1] - a[1])  # = t0 * mm
        da2 = (p[0] - a[0]) ** 2 + (p[1] - a[1]) ** 2
        db2 = (p[0] - b[0]) ** 2 + (p[1] - b[1]) ** 2
        perp2 = da2 - tp * tp / mm
        ctx.oblige(d * d == ite(tp < 0, da2, ite(tp > mm, db2, perp2)), "result^2 attained at the clamped foot point")
        ctx.oblige(d * d == da2, "twin:always distance to a", kind="must-fail")


def run_area(n):
    def run(ctx):
        from hypnotoad.utils import polygons

        poly = [(ctx.real("r%d" % i), ctx.real("z%d" % i)) for i in range(n)]
        a = polygons.area(poly)
        cw = polygons.clockwise(poly)
        with spec_mode():
            shoelace = sum(poly[i][0] * poly[(i + 1) % n][1] - poly[(i + 1) % n][0] * poly[i][1] for i in range(n))
            ctx.oblige(a == -shoelace / 2, "area=-(1/2)sum(r_k z_k+1 - r_k+1 z_k) (positive clockwise)")
            ra = polygons.area(poly[::-1])
            ctx.oblige(ra == -a, "area(reversed)=-area")
            ctx.oblige(TRUE(cw) == (a > 0), "clockwise <=> area>0")
            rot = polygons.area(poly[1:] + poly[:1])
            ctx.oblige(rot == a, "area invariant under cyclic relabelling")

    return run


def seg_cross_spec(P0, P1, Q0, Q1):
    """(det, proper crossing) for segments P0P1, Q0Q1 -- independent formulation by
    orientation signs: proper crossing <=> the end points of each lie strictly on
    opposite sides of the other."""
    o = lambda a, b, c: cross(b[0] - a[0], b[1] - a[1], c[0] - a[0], c[1] - a[1])
    d = cross(P1[0] - P0[0], P1[1] - P0[1], Q1[0] - Q0[0], Q1[1] - Q0[1])
    proper = And(o(P0, P1, Q0) * o(P0, P1, Q1) < 0, o(Q0, Q1, P0) * o(Q0, Q1, P1) < 0)
    return d, proper


def run_poly_intersect(n1, n2, closed1, closed2):
    def run(ctx):
        from hypnotoad.utils import polygons

        r1 = [ctx.real("ar%d" % i) for i in range(n1)]
        z1 = [ctx.real("az%d" % i) for i in range(n1)]
        r2 = [ctx.real("br%d" % i) for i in range(n2)]
        z2 = [ctx.real("bz%d" % i) for i in range(n2)]
        res = polygons.intersect(r1, z1, r2, z2, closed1=closed1, closed2=closed2)
        with spec_mode():
            segs1 = [(i, (i + 1) % n1) for i in range(n1 if closed1 else n1 - 1)]
            segs2 = [(j, (j + 1) % n2) for j in range(n2 if closed2 else n2 - 1)]
            hits = []
            for i, ip in segs1:
                for j, jp in segs2:
                    d, proper = seg_cross_spec((r1[i], z1[i]), (r1[ip], z1[ip]), (r2[j], z2[j]), (r2[jp], z2[jp]))
                    hits.append(And(ab(d) >= 1.0e-6, proper))
            ctx.oblige(TRUE(isinstance(res, bool)), "returns a bool")
            if res:
                for k, h in enumerate(hits):
                    ctx.oblige(h, "True => some pair of segments crosses properly (|det|>=1e-6) [pair %d]" % k, kind="any-of:true-hit")
            else:
                for k, h in enumerate(hits):
                    ctx.oblige(Not(h), "False => pair %d does not cross properly (|det|>=1e-6)" % k)

    return run


def build(S):
    from . import meshkit

    meshkit.silence_pyplot()
    S.under_contract(FN_FI, FN_WI, FN_CA, FN_PI, FN_PA, FN_PC)
    S.assume("A-ELEMENTWISE (lane independence): find_intersections treats wall edges independently; proved for a one-edge wall (all classes/orderings) and a two-edge wall through the shared vertex; cross-checked natively with 2-5 edges in the bounded part")
    S.assume("A-SHAPE: polygons.area proved for n=3..6 vertices, polygons.intersect for (closed 2-gon x closed triangle), (open 3-point x open 3-point), (open segment x closed triangle) and (closed triangle x open segment), all coordinate values")
    S.assume("preconditions exposed: wall edges and the segment have non-zero length (a zero-length wall edge divides by zero in the b-class branch); completeness is stated for segments that are not parallel within the code's own 1e-15 slope tolerance")
    with numpy_shimmed():
        S.contract("find_intersections[sound]", FN_FI, run_fi_sound, shape="one wall edge, 8 real coordinates", max_paths=3000)
        S.contract("find_intersections[complete]", FN_FI, run_fi_complete, shape="one wall edge, 8 real coordinates + meeting parameters", max_paths=3000)
        S.contract("find_intersections[edge parallel to the segment next to a crossed edge]", FN_FI, run_fi_parallel_neighbour, expected_exceptions=(), shape="two wall edges, one exactly parallel to the segment", max_paths=6000)
        S.contract("find_intersections[shared-vertex]+wallIntersection", FN_WI, run_fi_shared_vertex, expected_exceptions=(), shape="two wall edges", max_paths=6000)
        S.contract("wallIntersection[cases]", FN_WI, run_wi_cases, shape="0..3 rows")
        # what wallIntersection hands to find_intersections: the wall WITH its closing edge
        from . import C11

        S.under_contract("hypnotoad.core.equilibrium:Equilibrium.__init__")
        S.extraction.append(dict(function="Equilibrium.__init__", sliced="the two closed_wall assignments"))
        S.contract("closed_wallarray (every wall edge, the closing one included, reaches find_intersections)", "hypnotoad.core.equilibrium:Equilibrium.__init__", C11.run_closed, shape="4 vertices")
        S.contract("closest_approach", FN_CA, run_closest, shape="2-vectors")
        for n in (3, 4, 5, 6):
            S.contract("polygons.area[n=%d]" % n, FN_PA, run_area(n), shape="n=%d" % n)
        S.contract("polygons.intersect[closed 2-gon x closed 3-gon]", FN_PI, run_poly_intersect(2, 3, True, True), shape="2x3", max_paths=5000)
        S.contract("polygons.intersect[open 3 x open 3]", FN_PI, run_poly_intersect(3, 3, False, False), shape="3x3 open", max_paths=5000)
        S.contract("polygons.intersect[open segment x closed 3-gon]", FN_PI, run_poly_intersect(2, 3, False, True), shape="1 segment x 3 edges (the closing edge of the polygon counts)", max_paths=5000)
        S.contract("polygons.intersect[closed 3-gon x open segment]", FN_PI, run_poly_intersect(3, 2, True, False), shape="3 edges x 1 segment", max_paths=5000)
