"""Jet-level stand-ins for the interpolated equilibrium (A-PURE): psi and its partial
derivatives, fpol and its derivatives are uninterpreted real symbols at one evaluation
point per location; `JetPoint.D(term, 'R'|'Z')` differentiates terms over them.

The helper chain under contract (Equilibrium.Bzeta ... dBdZ) is always the REAL code,
bound to a skeleton Equilibrium whose interpolant-level members (psi, Bp_R, Bp_Z,
d2psid*, fpol, fpolprime) are jet stubs with the contracts proved in C18(b)/(c).
"""
import types

import numpy

from vc.jets import Jets
from vc.sym import Sym

HELPERS = ["Bzeta", "B2", "dBzetadR", "dBzetadZ", "dBRdR", "dBRdZ", "dBZdR", "dBZdZ", "dB2dR", "dB2dZ", "dBdR", "dBdZ"]
FN_HELPERS = ["hypnotoad.core.equilibrium:Equilibrium.%s" % h for h in HELPERS]


class JetPoint:
    """Symbols of one evaluation point (suffix distinguishes locations)."""

    def __init__(self, ctx, suffix=""):
        r = lambda n: ctx.real(n + suffix)
        self.ctx = ctx
        self.suffix = suffix
        self.R, self.Z = r("R"), r("Z")
        self.psi = r("psi")
        self.pR, self.pZ = r("psi_R"), r("psi_Z")
        self.pRR, self.pRZ, self.pZZ = r("psi_RR"), r("psi_RZ"), r("psi_ZZ")
        self.pRRR, self.pRRZ, self.pRZZ, self.pZZZ = r("psi_RRR"), r("psi_RRZ"), r("psi_RZZ"), r("psi_ZZZ")
        self.f, self.fp, self.fpp = r("f"), r("fp"), r("fpp")
        self.p, self.pp = r("press"), r("pressp")
        t = {
            self.R: {"R": 1},
            self.Z: {"Z": 1},
            self.psi: {"R": self.pR, "Z": self.pZ},
            self.pR: {"R": self.pRR, "Z": self.pRZ},
            self.pZ: {"R": self.pRZ, "Z": self.pZZ},
            self.pRR: {"R": self.pRRR, "Z": self.pRRZ},
            self.pRZ: {"R": self.pRRZ, "Z": self.pRZZ},
            self.pZZ: {"R": self.pRZZ, "Z": self.pZZZ},
            self.f: {"R": self.fp * self.pR, "Z": self.fp * self.pZ},
            self.fp: {"R": self.fpp * self.pR, "Z": self.fpp * self.pZ},
            self.p: {"R": self.pp * self.pR, "Z": self.pp * self.pZ},
        }
        self.table = t

    def psi_partial(self, dx, dy):
        return {(0, 0): self.psi, (1, 0): self.pR, (0, 1): self.pZ, (2, 0): self.pRR, (1, 1): self.pRZ, (0, 2): self.pZZ}[(dx, dy)]


class JetField:
    """Maps evaluation points (by identity of the R symbol) / MultiLocationArrays to
    jet symbols.  Records every evaluation so contracts can check the arguments."""

    def __init__(self, ctx, locs=("",)):
        self.ctx = ctx
        self.points = {l: JetPoint(ctx, ("_" + l) if l else "") for l in locs}
        table = {}
        for p in self.points.values():
            table.update(p.table)
        self.jets = Jets(ctx, table)
        self.calls = []

    def D(self, x, wrt):
        return self.jets.D(x, wrt)

    def point_of(self, Rsym, Zsym=None):
        """The jet point an evaluation refers to.  If the argument is not literally the
        point's own symbol (e.g. it went through numpy.clip), the evaluation is attributed
        to the point whose symbol occurs in it and the obligation `argument == point` is
        posted: evaluating the interpolant somewhere else is a contract failure, not a crash."""
        from vc.sym import term_vars

        for l, p in self.points.items():
            if isinstance(Rsym, Sym) and Rsym.t.eq(p.R.t) and (Zsym is None or (isinstance(Zsym, Sym) and Zsym.t.eq(p.Z.t))):
                return p
        for l, p in self.points.items():
            names = set()
            for x in (Rsym, Zsym):
                if isinstance(x, Sym):
                    names |= {n for n, _ in term_vars(x.t)}
            if p.R.t.decl().name() in names or p.Z.t.decl().name() in names:
                self.ctx.oblige(Rsym == p.R, "interpolant evaluated at the R of the point itself%s" % p.suffix)
                if Zsym is not None:
                    self.ctx.oblige(Zsym == p.Z, "interpolant evaluated at the Z of the point itself%s" % p.suffix)
                return p
        raise LookupError("evaluation at a point that is not one of the jet points: %r" % (Rsym,))

    def lift(self, getter, name):
        """function(R, Z) over scalars / ndarrays / MultiLocationArray."""
        from hypnotoad.core.multilocationarray import MultiLocationArray

        def one(R, Z):
            p = self.point_of(R, Z)
            self.calls.append((name, p.suffix))
            return getter(p)

        def fn(R, Z):
            if isinstance(R, MultiLocationArray):
                out = MultiLocationArray(R.nx, R.ny)
                for l in ("centre", "xlow", "ylow", "corners"):
                    a, b = getattr(R, "_%s_array" % l), getattr(Z, "_%s_array" % l)
                    if a is not None and b is not None:
                        setattr(out, l, fn(a, b))
                return out
            if isinstance(R, numpy.ndarray):
                out = numpy.empty(R.shape, dtype=object)
                Zb = numpy.broadcast_to(Z, R.shape)
                for idx in numpy.ndindex(*R.shape):
                    out[idx] = one(R[idx], Zb[idx])
                return out
            return one(R, Z)

        return fn

    def of_psi(self, getter, name):
        """function(psi) -> jets symbol of the point whose psi symbol is passed."""
        from hypnotoad.core.multilocationarray import MultiLocationArray

        def one(psi):
            for p in self.points.values():
                if isinstance(psi, Sym) and psi.t.eq(p.psi.t):
                    self.calls.append((name, p.suffix))
                    return getter(p)
            raise LookupError("%s evaluated at something that is not psi(R,Z): %r" % (name, psi))

        def fn(psi):
            if isinstance(psi, MultiLocationArray):
                out = MultiLocationArray(psi.nx, psi.ny)
                for l in ("centre", "xlow", "ylow", "corners"):
                    a = getattr(psi, "_%s_array" % l)
                    if a is not None:
                        setattr(out, l, fn(a))
                return out
            if isinstance(psi, numpy.ndarray):
                out = numpy.empty(psi.shape, dtype=object)
                for idx in numpy.ndindex(*psi.shape):
                    out[idx] = one(psi[idx])
                return out
            return one(psi)

        return fn


def skeleton_equilibrium(jf, real_helpers=True):
    """An Equilibrium whose interpolant members are jet stubs (contracts of C18 b/c)
    and whose helper chain is the real code."""
    from hypnotoad.core.equilibrium import Equilibrium

    eq = object.__new__(Equilibrium)
    eq.psi = jf.lift(lambda p: p.psi, "psi")
    eq.Bp_R = jf.lift(lambda p: p.pZ / p.R, "Bp_R")
    eq.Bp_Z = jf.lift(lambda p: -p.pR / p.R, "Bp_Z")
    eq.d2psidR2 = jf.lift(lambda p: p.pRR, "d2psidR2")
    eq.d2psidZ2 = jf.lift(lambda p: p.pZZ, "d2psidZ2")
    eq.d2psidRdZ = jf.lift(lambda p: p.pRZ, "d2psidRdZ")
    eq.f_R = jf.lift(lambda p: p.pR / (p.pR * p.pR + p.pZ * p.pZ), "f_R")
    eq.f_Z = jf.lift(lambda p: p.pZ / (p.pR * p.pR + p.pZ * p.pZ), "f_Z")
    eq.fpol = jf.of_psi(lambda p: p.f, "fpol")
    eq.fpolprime = jf.of_psi(lambda p: p.fp, "fpolprime")
    return eq


def spec_fields(p):
    """Specification terms at a jet point."""
    BR = p.pZ / p.R
    BZ = -p.pR / p.R
    Bzeta = p.f / p.R
    B2 = BR * BR + BZ * BZ + Bzeta * Bzeta
    return dict(BR=BR, BZ=BZ, Bzeta=Bzeta, B2=B2)
