"""Drive the REAL topology book-keeping code with symbolic sizes.

Chain under contract (all real code from /repo):
  TokamakEquilibrium.describeSingleNull / describeDoubleNull   (region + connection lists)
  TokamakEquilibrium.createRegionObjects                        (ordering)
  EquilibriumRegion.__init__ / .ny                              (per-segment connections, guards)
  Equilibrium.makeConnection                                    (symmetry, nx match)
  Mesh.__init__ (numbering, connection lookup)  BoutMesh.__init__ (index ranges, dy)
  BoutMesh.writeGridfile  -- the integer block, sliced out mechanically
Stubbed by contract (their own properties): findLegs, segmentsWithPsivals,
coreRegionToRegion (geometry of the separatrix: C09/C19), Mesh.makeRegions (C01/C04),
ParallelMap (C13).  Sizes (every nx_*, ny_*, nx_inter_sep, y_boundary_guards) are
symbolic integers; only the *structure* (which topology) is concrete.
"""
import ast
import inspect
import textwrap
import types
from collections import OrderedDict

import numpy

from vc.sym import And, Or, Sym, ite, lift


class OptProxy:
    """Options object whose listed entries are overridden (by symbols); everything
    else is the real optionsfactory object."""

    def __init__(self, real, over):
        object.__setattr__(self, "_real", real)
        object.__setattr__(self, "_over", dict(over))

    def __getattr__(self, k):
        o = object.__getattribute__(self, "_over")
        if k in o:
            return o[k]
        return getattr(object.__getattribute__(self, "_real"), k)

    def __getitem__(self, k):
        # item access (used by optionsfactory.create and Mesh's consistency check) sees
        # the real, validated values; only attribute reads see the symbolic sizes
        return object.__getattribute__(self, "_real")[k]

    def __iter__(self):
        return iter(object.__getattribute__(self, "_real"))

    def __contains__(self, k):
        return k in object.__getattribute__(self, "_real")

    def keys(self):
        return object.__getattribute__(self, "_real").keys()

    def items(self):
        return object.__getattribute__(self, "_real").items()

    def __len__(self):
        return len(object.__getattribute__(self, "_real"))


TOPOLOGIES = ["lsn", "usn", "cdn", "ldn", "udn", "ldn_upper_outer_start", "udn_upper_outer_start", "cdn_upper_outer_start"]


class FakePsiVals:
    """Stand-in for a psi_vals array of symbolic length 2*nx+1: slices are descriptors, single
    entries are symbolic reals (one per segment and index; `entry(k)` gives the same symbol)."""

    def __init__(self, n, tag, ctx=None, store=None):
        self.n, self.tag, self.ctx = n, tag, ctx
        self.store = {} if store is None else store

    def entry(self, k):
        if k not in self.store:
            self.store[k] = self.ctx.real("psi_vals[%s][%d]" % (self.tag, k)) if self.ctx is not None else 1.05
        return self.store[k]

    def __getitem__(self, k):
        if isinstance(k, int):
            return self.entry(k)
        return FakePsiVals(("slice", self.n, k.start, k.stop), self.tag, self.ctx, self.store)


def build_equilibrium(ctx, topo, psi_pf=(0.9, 0.9), size_prefix="", multiplier=None):
    """Skeleton TokamakEquilibrium with symbolic sizes; runs the real describe*/
    createRegionObjects/makeConnection."""
    from hypnotoad.cases import tokamak as T
    from hypnotoad.core.equilibrium import Point2D

    eq = object.__new__(T.TokamakEquilibrium)
    real = T.TokamakEquilibrium.user_options_factory.create({})
    sizes = {}
    for k in ("nx_core", "nx_pf", "nx_sol", "nx_sol_inner", "nx_sol_outer", "ny_inner_divertor", "ny_outer_divertor", "ny_inner_lower_divertor", "ny_inner_upper_divertor", "ny_outer_upper_divertor", "ny_outer_lower_divertor", "ny_inner_sol", "ny_outer_sol"):
        s = ctx.int(size_prefix + k)
        ctx.assume(s >= 1)
        sizes[k] = s
    myg = ctx.int("myg")
    ctx.assume(myg >= 0)
    sizes["y_boundary_guards"] = myg
    if topo in ("ldn", "udn", "ldn_upper_outer_start", "udn_upper_outer_start"):
        nis = ctx.int("nx_inter_sep")
        ctx.assume(nis >= 1)
    else:
        nis = 0
    sizes["nx_inter_sep"] = nis
    sizes["start_at_upper_outer"] = topo.endswith("upper_outer_start")
    sizes["psi_spacing_separatrix_multiplier"] = multiplier
    eq.user_options = OptProxy(real, sizes)
    eq.nonorthogonal_options = T.TokamakEquilibrium.nonorthogonal_options_factory.create({})
    eq.nonorthogonal_options_factory = T.TokamakEquilibrium.nonorthogonal_options_factory
    eq.Rmin, eq.Rmax, eq.Zmin, eq.Zmax = 1.0, 2.0, -1.0, 1.0
    eq.o_point = Point2D(1.5, 0.0)
    lowx, upx = Point2D(1.5, -0.5), Point2D(1.5, 0.5)
    eq.psi_axis = 0.0
    eq.psi_increasing = True
    eq.psi_core, eq.psi_sol, eq.psi_sol_inner = 0.8, 1.3, 1.25
    eq.psi_pf_lower, eq.psi_pf_upper = psi_pf
    eq.p_spl = None
    if topo == "lsn":
        eq.x_points, eq.psi_sep = [lowx], [1.0]
    elif topo == "usn":
        eq.x_points, eq.psi_sep = [upx], [1.0]
    elif topo in ("cdn", "cdn_upper_outer_start"):
        eq.x_points, eq.psi_sep = [lowx, upx], [1.0, 1.0]
    elif topo == "cdn_unbalanced":  # connected (nx_inter_sep=0) although the separatrices differ slightly
        eq.x_points, eq.psi_sep = [lowx, upx], [1.0, 1.02]
    elif topo == "cdn_upper_primary":
        eq.x_points, eq.psi_sep = [upx, lowx], [1.0, 1.02]
    elif topo in ("ldn", "ldn_upper_outer_start"):
        eq.x_points, eq.psi_sep = [lowx, upx], [1.0, 1.1]
    elif topo in ("udn", "udn_upper_outer_start"):
        eq.x_points, eq.psi_sep = [upx, lowx], [1.0, 1.1]
    psimap = {id(p): v for p, v in zip(eq.x_points, eq.psi_sep)}
    eq.psi = lambda R, Z: psimap.get(id(R), 0.0) if not isinstance(R, float) else {(-0.5): None}.get(Z, 0.0)

    def psi(R, Z):
        for p, v in zip(eq.x_points, eq.psi_sep):
            if R == p.R and Z == p.Z:
                return v
        return 0.0

    eq.psi = psi
    eq.f_R = eq.f_Z = None
    P = lambda: [Point2D(1.4, -0.6), Point2D(1.3, -0.7)]
    eq.findLegs = lambda xpoint, **kw: {"inner": P(), "outer": P()}

    def seg_stub(segments):
        out = {}
        for name, seg in segments.items():
            s = dict(seg)
            s["psi_vals"] = FakePsiVals(seg["nx"], name, ctx)
            out[name] = s
        return out

    eq.segmentsWithPsivals = seg_stub

    def core_stub(core_regions, npoints=100):
        res = {}
        for name, region in core_regions.items():
            r = dict(region)
            r["points"] = P()
            r["psi"] = None
            res[name] = r
        return res

    eq.coreRegionToRegion = core_stub
    if len(eq.x_points) == 1:
        leg, core, segments, connections = T.TokamakEquilibrium.describeSingleNull(eq)
    else:
        leg, core, segments, connections = T.TokamakEquilibrium.describeDoubleNull(eq)
    allr = dict(leg)
    allr.update(eq.coreRegionToRegion(core))
    eq.regions = T.TokamakEquilibrium.createRegionObjects(eq, allr, segments)
    for r in eq.regions.values():
        # class invariant of EquilibriumRegion: its options are the equilibrium's
        r.user_options = OptProxy(r.user_options, {"y_boundary_guards": myg})
    for c in connections:
        eq.makeConnection(*c)
    return eq, dict(sizes=sizes, connections=connections, leg=leg, core=core, segments=segments, myg=myg)


def build_mesh(ctx, eq, info):
    """Real Mesh.__init__ + BoutMesh.__init__ with makeRegions / ParallelMap stubbed."""
    from hypnotoad.core import mesh as M
    from vc.shim import patched

    class PM:
        def __init__(self, *a, **k):
            pass

    with patched((M.Mesh, "makeRegions", lambda self, pm: None), (M, "ParallelMap", PM), (M, "print", lambda *a, **k: None)):
        m = M.BoutMesh(eq, {})
    m.user_options = OptProxy(m.user_options, {"y_boundary_guards": info["myg"]})
    return m


def topology_block(mesh_cls):
    """The statements of writeGridfile from `eq_region0 = ...` to the last
    `f.write("jyseps2_2", ...)`, compiled as a function (self, f) -> dict of locals."""
    src = textwrap.dedent(inspect.getsource(mesh_cls.writeGridfile))
    tree = ast.parse(src)
    fdef = tree.body[0]
    withs = [n for n in fdef.body if isinstance(n, ast.With)]
    body = withs[0].body
    start = end = None
    for i, st in enumerate(body):
        if isinstance(st, ast.Assign) and any(isinstance(t, ast.Name) and t.id == "eq_region0" for t in st.targets):
            start = i
        if isinstance(st, ast.Expr) and isinstance(st.value, ast.Call) and getattr(st.value.func, "attr", "") == "write" and st.value.args and isinstance(st.value.args[0], ast.Constant) and st.value.args[0].value == "jyseps2_2":
            end = i
    if start is None or end is None:
        raise LookupError("topology block of writeGridfile not found")
    stmts = body[start : end + 1]
    ret = ast.Return(value=ast.Call(func=ast.Name(id="locals", ctx=ast.Load()), args=[], keywords=[]))
    f = ast.FunctionDef(name="_topology_block", args=ast.arguments(posonlyargs=[], args=[ast.arg(arg="self"), ast.arg(arg="f")], kwonlyargs=[], kw_defaults=[], defaults=[]), body=stmts + [ret], decorator_list=[], type_params=[])
    mod = ast.Module(body=[f], type_ignores=[])
    ast.fix_missing_locations(mod)
    from hypnotoad.core import mesh as M

    loc = {}
    exec(compile(mod, "<vc:writeGridfile[topology]>", "exec"), M.__dict__, loc)
    return loc["_topology_block"], len(stmts)


class Recorder:
    def __init__(self):
        self.vars = OrderedDict()

    def write(self, name, value):
        self.vars[name] = value


def run_topology_block(mesh):
    from hypnotoad.core import mesh as M

    fn, n = topology_block(M.BoutMesh)
    rec = Recorder()
    fn(mesh, rec)
    return rec.vars, n
