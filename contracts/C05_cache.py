"""C05 (and C15): the cached poloidal distances of a PsiContour never go stale.

hy and poloidal_distance are differences of PsiContour.get_distance(), which caches its result
in `_distance`.  Representation invariant under contract here, for every mutator of the real
class (run on a real PsiContour with symbolic point positions):

    after the operation,  get_distance() == [fine_contour.getDistance(p) for p in self.points]

i.e. whatever the cache held before (it is PRIMED before every operation, so a mutator that
forgets to invalidate or to hand over the cache is caught), the distances handed out afterwards
are those of the points the contour has NOW.  The FineContour is a stub whose getDistance(p) is
an injective function of the point (sign * p.R, flipped by reverse()), so a stale entry cannot
coincide with a fresh one; points are ordered in R so that the monotonicity check of
get_distance passes.  getRefined / getRegridded (their own contracts: C01, C15) are replaced by
stubs returning a contour with MOVED points whose own cache is either empty or primed.
"""
import z3

from vc.shim import patched
from vc.sym import And, Sym, spec_mode

FN_GD = "hypnotoad.core.equilibrium:PsiContour.get_distance"
TRUE = lambda b: Sym(z3.BoolVal(bool(b)))
N = 5


class FineStub:
    def __init__(self, *a, **k):
        self.sign = 1

    def getDistance(self, p):
        return self.sign * p.R

    def reverse(self):
        self.sign = -self.sign

    @property
    def distance(self):
        return []


def make_contour(ctx, tag, lo=None):
    from hypnotoad.core import equilibrium as E

    Rs = [ctx.real("%s_R%d" % (tag, i)) for i in range(N)]
    ctx.assume(And(*[a < b for a, b in zip(Rs, Rs[1:])]))
    if lo is not None:
        ctx.assume(Rs[0] > lo)
    inf = float("inf")
    c = E.PsiContour(points=[E.Point2D(r, 0.0) for r in Rs], psival=1.0, settings={}, Rrange=(-inf, inf), Zrange=(-inf, inf))
    return c, Rs


OPS = ["refine[new cache empty]", "refine[new cache primed]", "setSelfToContour[other cache empty]", "setSelfToContour[other cache primed]", "regrid", "append", "prepend", "replace", "insert[middle]", "insert[at start]", "reverse", "startInd changed", "endInd changed"]


def make_run(op):
    def run(ctx):
        from hypnotoad.core import equilibrium as E

        PSI = object()
        with patched((E, "FineContour", FineStub), (E.PsiContour, "checkFineContourExtend", lambda self, psi: None), (E, "print", lambda *a, **k: None)):
            c, Rs = make_contour(ctx, "c")
            first = list(c.get_distance(psi=PSI))  # prime the cache
            primed_ok = len(first) == N and c._distance is not None
            o, Ro = make_contour(ctx, "o", lo=Rs[-1])  # another contour (moved points), beyond c
            o._fine_contour = c._fine_contour
            newp = E.Point2D(ctx.real("new_R"), 0.0)
            if op.startswith("refine") or op == "regrid" or op.startswith("setSelf"):
                if "primed" in op:
                    o.get_distance(psi=PSI)
                if op.startswith("refine"):
                    with patched((E.PsiContour, "getRefined", lambda self, *a, **k: o)):
                        c.refine(psi=PSI)
                elif op == "regrid":
                    with patched((E.PsiContour, "getRegridded", lambda self, *a, **k: o)):
                        c.regrid(psi=PSI)
                else:
                    c.setSelfToContour(o)
            elif op == "append":
                ctx.assume(newp.R > Rs[-1])
                c.append(newp)
            elif op == "prepend":
                ctx.assume(newp.R < Rs[0])
                c.prepend(newp)
            elif op == "replace":
                ctx.assume(And(newp.R > Rs[1], newp.R < Rs[3], newp.R != Rs[2]))
                c.replace(2, newp)
            elif op == "insert[middle]":
                ctx.assume(And(newp.R > Rs[1], newp.R < Rs[2]))
                c.insert(2, newp)
            elif op == "insert[at start]":
                ctx.assume(newp.R < Rs[0])
                c.insert(0, newp)
            elif op == "reverse":
                c.reverse()
            elif op == "startInd changed":
                c.startInd = 1
            elif op == "endInd changed":
                c.endInd = N - 2
            got = c.get_distance(psi=PSI)
            fc = c._fine_contour
        with spec_mode():
            ctx.oblige(TRUE(primed_ok), "the cache was filled before the operation (so a missing invalidation shows)")
            ctx.oblige(TRUE(fc is not None and len(got) == len(c.points)), "one distance per point of the contour as it is now")
            if fc is not None and len(got) == len(c.points):
                ctx.oblige(And(*[g == fc.getDistance(p) for g, p in zip(got, c.points)]), "after %s: get_distance() = distances of the CURRENT points along the fine contour (no stale cache)" % op)
                if op.startswith("refine") or op == "regrid" or op.startswith("setSelf"):
                    ctx.oblige(And(*[g == f for g, f in zip(got, first)]), "twin: the distances are still those of the points before the operation", kind="must-fail")
        return c

    return run


def add(S):
    S.under_contract(FN_GD, *["hypnotoad.core.equilibrium:PsiContour." + n for n in ("refine", "setSelfToContour", "regrid", "append", "prepend", "replace", "insert", "reverse", "_reset_cached")])
    S.assume("PsiContour distance cache: FineContour is a stub with an injective getDistance (C05 lattice checks the real one); getRefined / getRegridded replaced by stubs returning a contour with moved points (own contracts: C01, C15); checkFineContourExtend (bounded lattice, C05) is a no-op")
    for op in OPS:
        S.contract("distance cache coherent after %s" % op, FN_GD, make_run(op), expected_exceptions=(ValueError,), shape="%d points, symbolic positions" % N)
