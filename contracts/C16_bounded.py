"""Pairs of complete grids: mirror images and field reversals compared cell to cell."""
import time

import numpy as np

from bounded import gridbank as gb

SAME = ["Rxy", "psixy", "hy", "Bxy", "g11", "g22", "g33", "g_11", "g_22", "g_33"]
ABS = ["Bpxy", "Btxy", "J", "dx"]


def arr(d, name, loc="centre"):
    key = name if loc == "centre" else name + "_" + loc
    return np.array(d["file"][key])


def guard_columns(A):
    ny = np.array(A["file"]["Rxy"]).shape[1]
    g = np.zeros(ny, dtype=bool)
    myg = A["meta"]["myg"]
    for r in A["regions"]:
        y0, y1 = r["indices"][1]
        if r["connections"].get("lower") is None:
            g[y0 : y0 + myg] = True
        if r["connections"].get("upper") is None:
            g[y1 - myg : y1] = True
    return g


def compare(A, B, ymap, tol_pos, tol_rel, zsign=-1.0, psisign=1.0, scale_psi=1.0, skip=(), guard_factor=1.0):
    """B[:, ymap] must equal the image of A.  Boundary guard cells (extrapolated beyond the
    targets) are compared with tolerances multiplied by guard_factor."""
    bad = []
    n = 0
    gcol = guard_columns(A)
    for loc in ("centre", "xlow", "ylow"):
        ym = ymap.get(loc)
        if ym is None:
            continue  # (a y-face of the mirror image is the other face of the cell: not in the file for the last cell)
        for nm in SAME + ABS + ["Zxy"]:
            if nm in skip:
                continue
            try:
                a, b = arr(A, nm, loc), arr(B, nm, loc)
            except KeyError:
                continue
            if a.shape != b.shape:
                bad.append(dict(var=nm, loc=loc, problem="shapes differ", a=list(a.shape), b=list(b.shape)))
                continue
            bb = b[:, ym]
            if nm == "Zxy":
                want, got, tol = zsign * a, bb, tol_pos
                err = np.abs(got - want)
            elif nm == "Rxy":
                err = np.abs(bb - a)
                tol = tol_pos
            elif nm == "psixy":
                err = np.abs(bb - psisign * scale_psi * a) / (np.abs(a).max() * scale_psi)
                tol = tol_rel
            elif nm in ABS:
                s = scale_psi if nm in ("Bpxy", "dx") else (1.0 / scale_psi if nm == "J" else 1.0)
                err = np.abs(np.abs(bb) - s * np.abs(a)) / (np.abs(a).max() * s)
                tol = tol_rel
            else:
                s = {"g11": scale_psi**2, "g_11": scale_psi**-2}.get(nm, 1.0)
                err = np.abs(bb - s * a) / (np.abs(a).max() * s)
                tol = tol_rel
            ok = np.isfinite(err)
            n += int(ok.sum())
            tolarr = np.where(gcol[None, :], tol * guard_factor, tol) * np.ones_like(err)
            viol = ok & (err > tolarr)
            if np.any(viol):
                i, j = np.unravel_index(np.nanargmax(np.where(viol, err / tolarr, -1)), err.shape)
                bad.append(dict(var=nm, loc=loc, max_err=float(err[i, j]), at=[int(i), int(j)], tol=float(tolarr[i, j]), guard_cell=bool(gcol[j])))
    return n, bad


def rev_map(A, halves=None):
    """index maps realising the y reversal (ylow has the same number of entries as centre in
    the file: entry j is the lower face of cell j, so reversing cells maps face j -> face of
    the mirrored cell's *upper* face: compare faces through centre/xlow only, ylow through
    a shifted map where possible)."""
    ny = np.array(A["file"]["Rxy"]).shape[1]
    if halves is None:
        c = np.arange(ny)[::-1]
    else:
        k = halves
        c = np.concatenate([np.arange(k)[::-1], np.arange(k, ny)[::-1]])
    return dict(centre=c, xlow=c, ylow=None)


def run(S):
    t0 = time.time()
    P = dict(fpol="profile", pressure=True)
    asym = dict(orthogonal=True, ny_inner_lower_divertor=3, ny_outer_lower_divertor=5, psinorm_pf_lower=0.93, y_boundary_guards=1)
    asym_m = dict(orthogonal=True, ny_inner_upper_divertor=3, ny_outer_upper_divertor=5, psinorm_pf_upper=0.93, y_boundary_guards=1)
    base = gb.cfg("lsn", asym, label="lsn-asym", **P)
    mirr = gb.cfg("lsn", asym_m, label="lsn-asym-mirrored(USN)", mirror=True, **P)
    neg = gb.cfg("lsn", asym, psi_sign=-1.0, label="lsn-asym-negpsi", **P)
    twopi = gb.cfg("lsn", dict(asym, psi_divide_twopi=True), label="lsn-asym-psi/2pi", **P)
    cfgs = [base, mirr, neg, twopi]
    if S.tier == "thorough":
        dn = dict(orthogonal=True, ny_inner_lower_divertor=4, ny_outer_lower_divertor=6, psinorm_pf_lower=0.93, y_boundary_guards=1)
        dn_m = dict(orthogonal=True, ny_inner_upper_divertor=4, ny_outer_upper_divertor=6, psinorm_pf_upper=0.93, y_boundary_guards=1)
        cfgs += [gb.cfg("udn", dn, label="udn-asym", **P), gb.cfg("udn", dn_m, label="udn-asym-mirrored(LDN)", mirror=True, **P)]
    if S.tier == "thorough":
        # option cap_Bp_ylow_xpoint under psi -> -psi (F22: the cap compared signed values)
        cfgs += [gb.cfg("lsn", dict(asym, cap_Bp_ylow_xpoint=True), label="lsn-asym-capBp", **P), gb.cfg("lsn", dict(asym, cap_Bp_ylow_xpoint=True), psi_sign=-1.0, label="lsn-asym-capBp-negpsi", **P)]
    res = gb.generate_many(cfgs)
    by = {c["label"]: r for c, r in zip(cfgs, res)}
    rows, bad, refused = [], [], [dict(cfg=c["label"], error=r["error"][:200]) for c, r in zip(cfgs, res) if not r["ok"]]
    n_eval = 0

    def pair(a, b, what, **kw):
        nonlocal n_eval
        if not (by[a]["ok"] and by[b]["ok"]):
            return
        A, B = by[a]["data"], by[b]["data"]
        n, bd = compare(A, B, **kw)
        n_eval += n
        rows.append(dict(pair=(a, b), what=what, values_compared=n, mismatches=len(bd)))
        for x in bd[:3]:
            bad.append(dict(pair=[a, b], what=what, **x))

    ident = lambda A: dict(centre=slice(None), xlow=slice(None), ylow=slice(None))
    if by[base["label"]]["ok"]:
        A = by[base["label"]]["data"]
        pair(base["label"], mirr["label"], "midplane reflection, lower<->upper options exchanged: reflected grid with y reversed", ymap=rev_map(A), tol_pos=1e-8, tol_rel=1e-8, guard_factor=1.0)
        pair(base["label"], neg["label"], "psi -> -psi: same positions, signs only", ymap=ident(A), tol_pos=2e-7, tol_rel=2e-6, zsign=1.0, psisign=-1.0)
        pair(base["label"], twopi["label"], "psi_divide_twopi: same positions, psi and Bp scaled by 1/2pi", ymap=ident(A), tol_pos=5e-6, tol_rel=5e-5, zsign=1.0, scale_psi=1.0 / (2 * np.pi), skip=("Bxy", "g33", "g_22"))
    if S.tier == "thorough" and by.get("lsn-asym-capBp", {}).get("ok"):
        A = by["lsn-asym-capBp"]["data"]
        pair("lsn-asym-capBp", "lsn-asym-capBp-negpsi", "psi -> -psi with cap_Bp_ylow_xpoint: same positions, signs only", ymap=ident(A), tol_pos=2e-7, tol_rel=2e-6, zsign=1.0, psisign=-1.0)
        changed = float(np.abs(np.abs(arr(A, "Bpxy", "ylow")) - np.abs(arr(by[base["label"]]["data"], "Bpxy", "ylow"))).max()) if by[base["label"]]["ok"] else None
        rows.append(dict(what="vacuity guard: the cap changes Bpxy_ylow of the reference grid", max_change=changed))
        if changed is not None and not changed > 1e-6:
            S.undecided.append("cap_Bp_ylow_xpoint does not act on the reference grid: the capped pair decides nothing")
    if S.tier == "thorough" and by.get("udn-asym", {}).get("ok"):
        A = by["udn-asym"]["data"]
        k = int(np.array(A["file"]["ny_inner"])) + 2 * A["meta"]["myg"]
        m = rev_map(A, halves=k)
        pair("udn-asym", "udn-asym-mirrored(LDN)", "upper disconnected double null <-> its mirror image (lower DN)", ymap=m, tol_pos=1e-7, tol_rel=1e-7, guard_factor=1.0)
    S.bounded.append(dict(name="mirror images and field reversals: complete grids compared cell to cell", evaluations=n_eval, distinct_nontrivial=max(2, len(rows)),
                          rule="LSN with unequal per-leg ny and its midplane mirror image with lower/upper options exchanged (R equal, Z negated, psixy/hy/|Bp|/B/metric magnitudes equal, y reversed); psi -> -psi; psi_divide_twopi; thorough: UDN vs mirrored; boundary guard cells are compared at the same 1e-8 as domain cells (before the repair F18 they differed by 1e-4..3e-3); absolute psi tolerances make psi_divide_twopi positions agree to 5e-6 only; the ylow location is compared through the face shared with the mirrored cell only at centre/xlow resolution; distinct = grid pairs",
                          bound="%d grids" % len(cfgs), samples=rows, failures=bad[:6], generation_refused=refused, wall_s=round(time.time() - t0, 1)))  # fmt: skip
    for r_ in refused:
        S.undecided.append("reference configuration %s does not generate: %s" % (r_["cfg"], r_["error"][:100]))
    for b in bad[:6]:
        S.static_vc("bounded:equivariance[%s]" % "|".join(b["pair"]), "hypnotoad.cases.tokamak:TokamakEquilibrium.describeSingleNull", "%s: %s@%s" % (b["what"], b["var"], b["loc"]), False, detail=repr(b), kind="bounded-grid", model=b)
