"""C14 bounded harness (run as a subprocess): geqdsk -> grid via the command-line entry
point, twice (determinism); recreate the inputs from the grid file; regenerate; compare."""
import concurrent.futures as cf
import io
import json
import multiprocessing as mp
import os
import sys
import tempfile


def make_gfile(repo, path, reverse=False):
    import importlib.util

    import numpy as np

    spec = importlib.util.spec_from_file_location("tokamak_example", os.path.join(repo, "examples", "tokamak", "tokamak_example.py"))
    te = importlib.util.module_from_spec(spec)
    spec.loader.exec_module(te)
    from hypnotoad.geqdsk import _geqdsk

    nx = ny = 65
    r1d, z1d, psi2d, psi1d = te.create_tokamak(geometry="lsn", nx=nx, ny=ny)
    # psi on the axis and at the X-point of the analytic lower-single-null example (R=1.5 by symmetry)
    from scipy.optimize import minimize_scalar

    r0, z0, w = 1.5, 0.3, 0.3**2
    pz = lambda Z: np.exp(-((Z + z0 - 0.3) ** 2) / w) + np.exp(-((Z + z0 + 0.3) ** 2) / w)
    zax = minimize_scalar(lambda Z: -pz(Z), bounds=(-0.2, 0.2), method="bounded", options=dict(xatol=1e-12)).x
    zx = minimize_scalar(pz, bounds=(-0.5, -0.1), method="bounded", options=dict(xatol=1e-12)).x
    psi1d = np.linspace(pz(zax), pz(zx), nx)
    x = (psi1d - psi1d[0]) / (psi1d[-1] - psi1d[0])
    # axis / boundary values as the reader will reconstruct psi1D from them
    f = open(path, "w")
    data = dict(nx=nx, ny=ny, rdim=r1d[-1] - r1d[0], zdim=z1d[-1] - z1d[0], rcentr=1.5, bcentr=2.0, rleft=r1d[0], zmid=0.5 * (z1d[0] + z1d[-1]), rmagx=1.5, zmagx=float(zax),
                simagx=float(psi1d[0]), sibdry=float(psi1d[-1]), cpasma=1.0e6, fpol=2.0 + 0.3 * x, pres=1.0e3 * (1.0 - 0.9 * x) ** 2, qpsi=1.0 + 2.0 * x, psi=psi2d,
                rlim=np.array([1.2, 1.2, 1.8, 1.8]), zlim=np.array([-0.5, 0.5, 0.5, -0.5]))  # fmt: skip
    _geqdsk.write(data, f)
    f.close()


YAML = """psinorm_core: 0.8
psinorm_sol: 1.2
psinorm_pf: 0.9
ny_inner_divertor: 4
ny_sol: 8
ny_outer_divertor: 4
nx_core: 4
nx_sol: 4
psi_spacing_separatrix_multiplier: 0.5
target_all_poloidal_spacing_length: 0.3
xpoint_poloidal_spacing_length: 0.05
y_boundary_guards: 1
finecontour_Nfine: 60
%s
"""


def gen(args):
    repo, workdir, gfile, yml, out = args
    sys.path.insert(0, repo)
    rundir = out + ".dir"
    os.makedirs(rundir, exist_ok=True)
    os.chdir(rundir)  # the script writes bout.grd.nc into the working directory
    from hypnotoad.scripts import hypnotoad_geqdsk

    so = sys.stdout
    sys.stdout = io.StringIO()
    try:
        sys.argv = ["hypnotoad_geqdsk", gfile, yml]
        hypnotoad_geqdsk.main()
    finally:
        sys.stdout = so
    os.replace(os.path.join(rundir, "bout.grd.nc"), out)
    return out


def load(path):
    import netCDF4
    import numpy as np

    out = {}
    with netCDF4.Dataset(path) as ds:
        for k, v in ds.variables.items():
            a = v[...]
            if getattr(a, "dtype", None) is not None and a.dtype.kind in "fiu":
                out[k] = np.array(np.ma.filled(a, np.nan) if a.dtype.kind == "f" else a)
            else:
                out[k] = str(a)
        attrs = {a: str(ds.getncattr(a)) for a in ds.ncattrs()}
    return out, attrs


def diff(a, b, ignore=("hypnotoad_inputs", "hypnotoad_inputs_yaml", "Python_version", "module_versions")):
    import numpy as np

    bad = []
    for k in sorted(set(a) | set(b)):
        if k in ignore:
            continue
        if k not in a or k not in b:
            bad.append("%s only in one file" % k)
        elif isinstance(a[k], np.ndarray):
            if a[k].shape != b[k].shape or not np.array_equal(a[k], b[k], equal_nan=True):
                bad.append("%s differs (max %g)" % (k, float(np.nanmax(np.abs(a[k] - b[k]))) if a[k].shape == b[k].shape else -1))
        elif a[k] != b[k]:
            bad.append("%s differs" % k)
    return bad


def main():
    repo, extra = sys.argv[1], (sys.argv[2] if len(sys.argv) > 2 else "")
    sys.path.insert(0, repo)
    res = dict(problems=[])
    with tempfile.TemporaryDirectory(prefix="verif_c14_") as td:
        g = os.path.join(td, "in.geqdsk")
        make_gfile(repo, g)
        y = os.path.join(td, "in.yaml")
        open(y, "w").write(YAML % extra)
        with cf.ProcessPoolExecutor(2, mp_context=mp.get_context("fork")) as ex:
            outs = list(ex.map(gen, [(repo, td, g, y, os.path.join(td, "a.grd.nc")), (repo, td, g, y, os.path.join(td, "b.grd.nc"))]))
        A, attrsA = load(outs[0])
        B, _ = load(outs[1])
        d = diff(A, B)
        res["determinism_differences"] = d
        if d:
            res["problems"].append("two generations from the same inputs differ: %s" % d[:4])
        # provenance
        gtxt = open(g).read()
        if A.get("hypnotoad_input_geqdsk_file_contents") != gtxt:
            res["problems"].append("embedded geqdsk text is not byte-identical to the input file")
        import yaml

        try:
            emb = yaml.safe_load(A["hypnotoad_inputs_yaml"])
            given = yaml.safe_load(open(y))
            miss = [k for k, v in given.items() if emb.get(k) != v]
            if miss:
                res["problems"].append("embedded YAML lacks / changes given options: %s" % miss[:5])
            res["embedded_options"] = len(emb)
        except Exception as e:
            res["problems"].append("embedded YAML does not load: %r" % e)
        # recreate inputs with the shipped script and regenerate
        from hypnotoad.scripts import hypnotoad_recreate_inputs

        rd = os.path.join(td, "re")
        os.makedirs(rd)
        os.chdir(rd)
        sys.argv = ["hypnotoad-recreate-inputs", outs[0], "-g", "re.geqdsk", "-y", "re.yaml"]
        try:
            hypnotoad_recreate_inputs.main()
            if open(os.path.join(rd, "re.geqdsk")).read() != gtxt:
                res["problems"].append("recreated geqdsk differs from the original")
            out3 = gen((repo, rd, os.path.join(rd, "re.geqdsk"), os.path.join(rd, "re.yaml"), os.path.join(rd, "c.grd.nc")))
            C, _ = load(out3)
            d = diff(A, C, ignore=("hypnotoad_inputs", "hypnotoad_inputs_yaml", "Python_version", "module_versions"))
            res["regeneration_differences"] = d
            if d:
                res["problems"].append("grid regenerated from the embedded inputs differs: %s" % d[:4])
        except Exception as e:
            import traceback

            res["problems"].append("recreate/regenerate failed: %r %s" % (e, traceback.format_exc()[-300:]))
        res["variables_compared"] = len(A)
    print("RESULT " + json.dumps(res, default=str))


if __name__ == "__main__":
    main()
