"""Native ParallelMap runs (bounded stand-in for C13): real processes, artificial
delays to permute completion orders, failing task at each position; watchdog."""
import json
import sys
import time
import types


def task(x, delay, fail, *, equilibrium, psi, f_R, f_Z):
    time.sleep(delay)
    if fail:
        raise ValueError("task %d failed" % x)
    return (x, x * x + 0.5, equilibrium.tag)


def main():
    sys.path.insert(0, sys.argv[1])
    from hypnotoad.utils.parallel_map import ParallelMap
    import itertools

    out = []
    eq = types.SimpleNamespace(psi=None, f_R=None, f_Z=None, tag="EQ")
    for np_ in (2, 3):
        pm = ParallelMap(np_, equilibrium=eq)
        n = 4
        # delay patterns that force different completion orders
        for perm in list(itertools.permutations(range(n)))[:: (4 if np_ == 2 else 6)]:
            args = [(i, 0.02 * perm[i], False) for i in range(n)]
            res = pm(task, args)
            out.append(dict(np=np_, kind="order", perm=list(perm), ok=res == [(i, i * i + 0.5, "EQ") for i in range(n)]))
        for k in range(n):
            args = [(i, 0.01 * ((i * 3) % n), i == k) for i in range(n)]
            t0 = time.time()
            try:
                pm(task, args)
                got = "no-exception"
            except ValueError as e:
                got = str(e)
            out.append(dict(np=np_, kind="fail", pos=k, ok=got == "task %d failed" % k, got=got, wall=round(time.time() - t0, 2)))
            # the map must be usable (no stale answers) afterwards
            res = pm(task, [(i, 0.0, False) for i in range(3)])
            out.append(dict(np=np_, kind="after-fail", pos=k, ok=res == [(i, i * i + 0.5, "EQ") for i in range(3)]))
        del pm
    print("RESULT " + json.dumps(out))


if __name__ == "__main__":
    main()
