"""Evaluate run-time contract clauses on a set of generated grids and record the
outcome in the session (bounded stand-in: never counted as proved)."""
import time

from . import gridbank as gb
from . import gridchecks as gc


# the isolated X-point topology (four legs, no closed surfaces): examples/torpex-xpoint coils
TORPEX_SIZES = dict(nx_core=4, nx_sol=4, ny_inner_lower_divertor=4, ny_inner_upper_divertor=4, ny_outer_upper_divertor=4, ny_outer_lower_divertor=4)
TORPEX = gb.cfg("xpoint", dict(TORPEX_SIZES), kind="torpex", label="torpex-xpoint")


def quick_set():
    P = dict(fpol="profile", pressure=True)
    return [
        gb.cfg("lsn", dict(orthogonal=True), label="lsn-orth-profiles", **P),
        gb.cfg("cdn", dict(orthogonal=False), label="cdn-nonorth-profiles", **P),
        gb.cfg("cdn", dict(orthogonal=False), psi_sign=-1.0, label="cdn-nonorth-negpsi", **P),
        gb.cfg("udn", dict(orthogonal=True), label="udn-orth", **P),
        gb.cfg("ldn", dict(orthogonal=True), label="ldn-orth", **P),
        gb.cfg("usn", dict(orthogonal=True, psi_interpolation_method="dct"), label="usn-orth-dct", **P),
        TORPEX,
    ]


def worker_copy_pairs(tier="quick"):
    """(serial cfg, same cfg generated with the data flow of worker processes) -- see
    gridbank.copying_call."""
    P = dict(fpol="profile", pressure=True)
    base = [
        gb.cfg("cdn", dict(orthogonal=False, y_boundary_guards=0), label="cdn-nonorth-noguards", **P),
        gb.cfg("cdn", dict(orthogonal=False), label="cdn-nonorth", **P),
        gb.cfg("lsn", dict(orthogonal=True, y_boundary_guards=0), label="lsn-orth-noguards", **P),
        gb.cfg("lsn", dict(orthogonal=True), label="lsn-orth", **P),
    ]
    if tier == "thorough":
        base += [gb.cfg("udn", dict(orthogonal=False, y_boundary_guards=0), label="udn-nonorth-noguards", **P), gb.cfg("usn", dict(orthogonal=True, y_boundary_guards=1), label="usn-orth", **P)]
    return [(c, dict(c, worker_copies=True, label=c["label"] + "[worker copies]")) for c in base]


def thorough_set():
    P = dict(fpol="profile", pressure=True)
    out = quick_set()
    out += [
        gb.cfg("lsn", dict(orthogonal=True, y_boundary_guards=0), label="lsn-orth-noguards", **P),
        gb.cfg("lsn", dict(orthogonal=True, ny_inner_divertor=3, ny_outer_divertor=9, ny_sol=6, y_boundary_guards=1), label="lsn-orth-unequal-legs", **P),
        gb.cfg("lsn", dict(orthogonal=True), psi_sign=-1.0, label="lsn-orth-negpsi", **P),
        gb.cfg("usn", dict(orthogonal=True), psi_sign=-1.0, label="usn-orth-negpsi", **P),
        gb.cfg("cdn", dict(orthogonal=True), label="cdn-orth", **P),
        gb.cfg("lsn", dict(orthogonal=True, psi_interpolation_method="dct"), label="lsn-orth-dct", **P),
        gb.cfg("udn", dict(orthogonal=False), label="udn-nonorth", **P),
        gb.cfg("ldn", dict(orthogonal=False), label="ldn-nonorth", **P),
        gb.cfg("udn2", dict(orthogonal=True, psinorm_sol=1.3, psinorm_sol_inner=1.3), label="udn2-orth", **P),
        gb.cfg("udn", dict(orthogonal=True, start_at_upper_outer=True), label="udn-orth-upper-outer-start", **P),
        gb.cfg("ldn", dict(orthogonal=True, start_at_upper_outer=True), label="ldn-orth-upper-outer-start", **P),
        gb.cfg("cdn", dict(orthogonal=True, ny_inner_divertor=4, ny_outer_divertor=6, ny_inner_sol=6, ny_outer_sol=8, y_boundary_guards=1), label="cdn-orth-unequal-legs", **P),
        gb.cfg("cdn", dict(orthogonal=False), wall="slanted", label="cdn-nonorth-slanted-wall", **P),
        gb.cfg("lsn", dict(orthogonal=True), wall="box_cw", label="lsn-orth-clockwise-wall", **P),
        gb.cfg("lsn", dict(orthogonal=True), wall="many", label="lsn-orth-100-vertex-wall", **P),
        gb.cfg("lsn", dict(orthogonal=True), fpol="const", label="lsn-orth-constfpol"),
        gb.cfg("xpoint", dict(TORPEX_SIZES, orthogonal=False), kind="torpex", label="torpex-xpoint-nonorth"),
        gb.cfg("xpoint", dict(TORPEX_SIZES, y_boundary_guards=0), kind="torpex", label="torpex-xpoint-noguards"),
    ]
    return out


def run(S, clause_names, fn, cfgs=None, name=None, tolerate_refusal=True):
    t0 = time.time()
    cfgs = cfgs if cfgs is not None else (quick_set() if S.tier == "quick" else thorough_set())
    res = gb.generate_many(cfgs)
    evals = 0
    refused = []
    fails = []
    classes = set()
    per = []
    for c, r in zip(cfgs, res):
        if not r["ok"]:
            refused.append(dict(cfg=c["label"], error=r["error"][:160]))
            continue
        out = gc.run_clauses(r["data"], clause_names)
        for o in out:
            evals += o["evaluations"]
            if o["evaluations"] or o["failures"]:
                classes.add((c["label"], o["name"]))
            if o["failures"]:
                fails.append(dict(cfg=c["label"], clause=o["clause"], n_failures=o["failures"], samples=o["samples"]))
            per.append(dict(cfg=c["label"], clause=o["name"], evaluations=o["evaluations"], failures=o["failures"], worst=o.get("worst"), tol=o.get("tol")))
    b = dict(name=name or "run-time contract clauses on generated grids", evaluations=evals, distinct_nontrivial=len(classes),
             rule="each clause evaluated at every applicable grid point / cell of every generated grid; distinct = (configuration, clause) pairs with at least one evaluation",
             bound="%d configurations: %s" % (len(cfgs), ", ".join(c["label"] for c in cfgs)), samples=per[:4], per_clause=per, failures=fails[:6], generation_refused=refused,
             grid_wall_s=[round(r["wall_s"], 1) for r in res], wall_s=round(time.time() - t0, 1))  # fmt: skip
    S.bounded.append(b)
    for f in fails:
        S.static_vc("bounded:grid[%s]" % f["cfg"], fn, f["clause"], False, detail=repr(f["samples"])[:1500], kind="bounded-grid", model=dict(configuration=f["cfg"], witness=f["samples"][:2]))
    if refused and len(refused) == len(cfgs):
        S.crashes.append("every grid configuration failed to generate: %r" % refused[:2])
    elif refused and tolerate_refusal is not True:
        pass
    for r_ in refused:
        # every configuration of the reference set generates on the unchanged tree; a refusal
        # leaves the clauses undecided for that configuration (exit 2), it is not a pass
        S.undecided.append("reference configuration %s no longer generates: %s" % (r_["cfg"], r_["error"][:120]))
    return b
