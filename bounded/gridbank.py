"""Content-addressed bank of generated meshes for the *bounded* stand-in checks.

A configuration is a plain dict (see `cfg`).  The result (arrays of every region and of
the global mesh, plus every variable of the written grid file) is cached under
/verif/.cache keyed by the SHA-256 of every *.py under /repo/hypnotoad and the
configuration, so any source edit regenerates.  Generation runs the unmodified
repository code; nothing here is counted as proved.
"""
import hashlib
import io
import json
import os
import pickle
import sys
import tempfile
import time
import traceback

ROOT = os.path.dirname(os.path.dirname(os.path.abspath(__file__)))
REPO = os.environ.get("VERIF_REPO", "/repo")
CACHE = os.path.join(ROOT, ".cache")

MLA_NAMES = [
    "Rxy", "Zxy", "psixy", "dx", "dy", "poloidal_distance", "Brxy", "Bzxy", "Bpxy", "Btxy", "Bxy", "hy",
    "dphidy", "ShiftTorsion", "zShift", "g11", "g22", "g33", "g12", "g13", "g23", "J", "g_11", "g_22", "g_33",
    "g_12", "g_13", "g_23", "curl_bOverB_x", "curl_bOverB_y", "curl_bOverB_z", "bxcvx", "bxcvy", "bxcvz",
    "pressure", "cosBeta", "sinBeta", "tanBeta", "total_poloidal_distance", "ShiftAngle",
]  # fmt: skip
LOCS = ["centre", "xlow", "ylow", "corners"]


def source_hash():
    h = hashlib.sha256()
    for d, _, fs in sorted(os.walk(os.path.join(REPO, "hypnotoad"))):
        if "test_suite" in d or "gui" in d or "__pycache__" in d:
            continue
        for f in sorted(fs):
            if f.endswith(".py"):
                h.update(f.encode())
                h.update(open(os.path.join(d, f), "rb").read())
    return h.hexdigest()


BANK_VERSION = "2"  # bump when the way configurations are turned into inputs changes (invalidates the cache)


def cfg(geometry="lsn", options=None, neq=65, psi_sign=1.0, fpol="const", pressure=False, wall="box", kind="tokamak", label=None, **extra):
    c = dict(kind=kind, geometry=geometry, options=dict(options or {}), neq=neq, psi_sign=psi_sign, fpol=fpol, pressure=pressure, wall=wall)
    c.update(extra)
    c["label"] = label or "%s-%s%s" % (geometry, "orth" if c["options"].get("orthogonal", True) else "nonorth", "" if psi_sign > 0 else "-negpsi")
    return c


def key(c):
    return hashlib.sha256((BANK_VERSION + source_hash() + json.dumps(c, sort_keys=True, default=str)).encode()).hexdigest()[:24]


def _mla_dict(m):
    out = {}
    for l in LOCS:
        a = getattr(m, "_%s_array" % l, None)
        if a is not None:
            out[l] = a.copy()
    return out


BASE_OPTS = {
    "sn": dict(psinorm_core=0.8, psinorm_sol=1.2, psinorm_pf=0.9, ny_inner_divertor=4, ny_sol=8, ny_outer_divertor=4, nx_core=5, nx_sol=5,
               psi_spacing_separatrix_multiplier=0.5, target_all_poloidal_spacing_length=0.3, xpoint_poloidal_spacing_length=0.05, y_boundary_guards=2),
    "cdn": dict(psinorm_core=0.8, psinorm_sol=1.2, psinorm_pf_lower=0.9, psinorm_pf_upper=0.9, ny_inner_divertor=4, ny_inner_sol=6, ny_outer_sol=6, ny_outer_divertor=4,
                nx_core=4, nx_sol=4, psi_spacing_separatrix_multiplier=0.5, target_all_poloidal_spacing_length=0.3, xpoint_poloidal_spacing_length=0.05, y_boundary_guards=2),
    "ddn": dict(psinorm_core=0.8, psinorm_sol=1.2, psinorm_sol_inner=1.15, psinorm_pf_lower=0.9, psinorm_pf_upper=0.9, ny_inner_divertor=4, ny_inner_sol=6, ny_outer_sol=6,
                ny_outer_divertor=4, nx_core=4, nx_inter_sep=2, nx_sol=4, psi_spacing_separatrix_multiplier=0.5, target_all_poloidal_spacing_length=0.3,
                xpoint_poloidal_spacing_length=0.05, y_boundary_guards=2),
}  # fmt: skip


def tokamak_inputs(c):
    import numpy as np

    sys.path.insert(0, os.path.join(REPO, "examples", "tokamak"))
    import importlib.util

    spec = importlib.util.spec_from_file_location("tokamak_example", os.path.join(REPO, "examples", "tokamak", "tokamak_example.py"))
    te = importlib.util.module_from_spec(spec)
    spec.loader.exec_module(te)
    geom = c["geometry"]
    mirror = False
    r1d, z1d, psi2d, psi1d = te.create_tokamak(geometry=geom, nx=c["neq"], ny=c["neq"])
    s = c["psi_sign"]
    psi2d = s * psi2d
    psi1d = s * psi1d
    if c.get("mirror"):
        psi2d = psi2d[:, ::-1].copy()
    base = BASE_OPTS["sn" if "sn" in geom else ("cdn" if geom == "cdn" else "ddn")]
    opts = dict(base)
    opts.update(c["options"])
    # refinement time-out generous enough not to depend on how busy the 16 cores are
    opts.setdefault("refine_timeout", 120.0)
    we = 0.2
    rmin, rmax, zmin, zmax = r1d.min() + we, r1d.max() - we, z1d.min() + we, z1d.max() - we
    if c["wall"] == "box":
        wall = [(rmin, zmin), (rmin, zmax), (rmax, zmax), (rmax, zmin)]
    elif c["wall"] == "box_cw":
        wall = [(rmin, zmin), (rmax, zmin), (rmax, zmax), (rmin, zmax)]
    elif c["wall"] == "slanted":
        wall = [(rmin + 0.05, zmin), (rmin, zmax - 0.03), (rmax - 0.04, zmax), (rmax, zmin + 0.06)]
    elif c["wall"] == "many":
        n = 25
        wall = (
            [(rmin, zmin + (zmax - zmin) * i / n) for i in range(n)]
            + [(rmin + (rmax - rmin) * i / n, zmax) for i in range(n)]
            + [(rmax, zmax - (zmax - zmin) * i / n) for i in range(n)]
            + [(rmax - (rmax - rmin) * i / n, zmin) for i in range(n)]
        )
    else:
        raise ValueError(c["wall"])
    kw = {}
    if c["fpol"] == "const":
        fpol1d = []
    elif c["fpol"] == "profile":
        # psi1d runs from the axis outwards
        fpol1d = 2.0 + 0.3 * (psi1d - psi1d[0]) / (psi1d[-1] - psi1d[0])
    else:
        raise ValueError(c["fpol"])
    if c["pressure"]:
        x = (psi1d - psi1d[0]) / (psi1d[-1] - psi1d[0])
        kw["pressure"] = 1.0e3 * (1.0 - 0.9 * x) ** 2
    if c["fpol"] == "const":
        kw["fpol1D"] = []
    else:
        kw["fpol1D"] = fpol1d
    return r1d, z1d, psi2d, psi1d, opts, wall, kw


def copying_call(self, function, args_list, **kwargs):
    """ParallelMap.__call__ with the DATA FLOW of worker processes and no concurrency: every
    task (function, arguments, keywords) reaches the function as a pickled copy, and the
    caller receives a pickled copy of the result -- exactly what the two multiprocessing
    queues do.  Effects of the function on its arguments are therefore lost, as in a worker."""
    import pickle as _p

    out = []
    for args in tuple(args_list):
        f2, a2, k2 = _p.loads(_p.dumps((function, args, kwargs)))
        r = f2(*a2, equilibrium=self.equilibrium, psi=self.psi, f_R=self.f_R, f_Z=self.f_Z, **k2)
        out.append(_p.loads(_p.dumps(r)))
    return out


def build_mesh(c):
    """Run the real pipeline; returns (eq, mesh)."""
    sys.path.insert(0, REPO)
    import numpy as np

    if c.get("worker_copies"):
        from hypnotoad.utils import parallel_map as _pm

        if not getattr(_pm.ParallelMap, "_vc_copying", False):
            _pm.ParallelMap._vc_serial_call = _pm.ParallelMap.__call__
            _pm.ParallelMap.__call__ = copying_call
            _pm.ParallelMap._vc_copying = True
    else:
        from hypnotoad.utils import parallel_map as _pm

        if getattr(_pm.ParallelMap, "_vc_copying", False):
            _pm.ParallelMap.__call__ = _pm.ParallelMap._vc_serial_call
            _pm.ParallelMap._vc_copying = False

    if c["kind"] == "tokamak":
        from hypnotoad import tokamak
        from hypnotoad.core.mesh import BoutMesh

        r1d, z1d, psi2d, psi1d, opts, wall, kw = tokamak_inputs(c)
        eq = tokamak.TokamakEquilibrium(r1d, z1d, psi2d, psi1d, settings=opts, wall=wall, **kw)
        mesh = BoutMesh(eq, opts)
        if c.get("regrid") is not None:
            # the interactive route: regrid an existing non-orthogonal mesh with new nonorthogonal_* settings
            mesh.redistributePoints(dict(c["regrid"]))
            mesh.calculateRZ()
        mesh.geometry()
        return eq, mesh
    if c["kind"] == "circular":
        from hypnotoad.cases.circular import CircularEquilibrium
        from hypnotoad.core.mesh import BoutMesh

        opts = dict(number_of_processors=1, refine_timeout=120.0)
        opts.update(c["options"])
        eq = CircularEquilibrium(opts)
        mesh = BoutMesh(eq, opts)
        mesh.geometry()
        return eq, mesh
    if c["kind"] == "torpex":
        # the shipped isolated-X-point example (magnetic field of four coils; needs sympy, which the
        # check's own venv provides), smaller sizes for speed
        import copy

        from hypnotoad.cases import torpex
        from hypnotoad.core.mesh import BoutMesh

        eqo, mo = torpex.parseInput(os.path.join(REPO, "examples", "torpex-xpoint", c.get("yaml", "torpex-coils.yaml")))
        mo = dict(copy.deepcopy(mo))
        mo.update(c["options"])
        mo.setdefault("refine_timeout", 120.0)
        eq = torpex.TORPEXMagneticField(eqo, mo)
        mo.update(eq.user_options)
        eq.makeRegions()
        mesh = BoutMesh(eq, settings=mo)
        mesh.geometry()
        return eq, mesh
    raise ValueError(c["kind"])


def harvest(eq, mesh, c, write=True):
    import numpy as np

    out = dict(cfg=c, regions=[], glob={}, file={}, attrs={})
    for name, r in mesh.regions.items():
        d = dict(myID=r.myID, name=r.name, nx=r.nx, ny=r.ny, radialIndex=r.radialIndex, eqname=r.equilibriumRegion.name, kind=r.equilibriumRegion.kind,
                 psi_vals=np.array(r.psi_vals), bpsign=getattr(r, "bpsign", None), connections=dict(r.connections), yGroupIndex=getattr(r, "yGroupIndex", None),
                 xPointsAtStart=[None if p is None else (p.R, p.Z) for p in r.equilibriumRegion.xPointsAtStart],
                 xPointsAtEnd=[None if p is None else (p.R, p.Z) for p in r.equilibriumRegion.xPointsAtEnd],
                 indices=[(s.start, s.stop) for s in mesh.region_indices[r.myID]], mla={})  # fmt: skip
        for nm in MLA_NAMES:
            if nm in r.__dict__ and r.__dict__[nm] is not None:
                d["mla"][nm] = _mla_dict(r.__dict__[nm])
        if hasattr(r, "penalty_mask"):
            d["penalty_mask"] = np.array(r.penalty_mask)
        d["contour_startInd"] = [cn.startInd for cn in r.contours]
        d["contour_endInd"] = [cn.endInd for cn in r.contours]
        d["contour_len"] = [len(cn) for cn in r.contours]
        out["regions"].append(d)
    for nm in MLA_NAMES:
        if nm in mesh.__dict__:
            out["glob"][nm] = _mla_dict(mesh.__dict__[nm])
    out["meta"] = dict(nx=mesh.nx, ny=mesh.ny, ny_noguards=mesh.ny_noguards, ny_core=mesh.ny_core, y_regions_noguards=list(mesh.y_regions_noguards), x_startinds=[int(x) for x in mesh.x_startinds],
                       dy_scalar=mesh.dy_scalar, myg=mesh.user_options.y_boundary_guards, orthogonal=bool(mesh.user_options.orthogonal),
                       psi_axis=getattr(eq, "psi_axis", None), psi_bdry=getattr(eq, "psi_bdry", None), Bt_axis=getattr(eq, "Bt_axis", None),
                       x_points=[(p.R, p.Z) for p in getattr(eq, "x_points", [])], o_point=(eq.o_point.R, eq.o_point.Z) if getattr(eq, "o_point", None) is not None else None,
                       double_null_type=getattr(eq, "double_null_type", None), wall=np.array(getattr(eq, "closed_wallarray", np.zeros((0, 2)))),
                       region_names=list(eq.regions.keys()))  # fmt: skip
    for dd, r in zip(out["regions"], mesh.regions.values()):
        dd["leg_psi"] = getattr(r.equilibriumRegion, "psival", None)
    if c.get("kind") == "tokamak":
        try:
            r1d, z1d, psi2d, psi1d, opts, wall, kw = tokamak_inputs(c)
            out["profiles"] = dict(psi1d=np.array(psi1d), fpol1d=np.array(kw.get("fpol1D", [])), pressure=np.array(kw.get("pressure", [])))
        except Exception:
            out["profiles"] = None
    if write:
        import netCDF4

        with tempfile.TemporaryDirectory() as td:
            fn = os.path.join(td, "g.grd.nc")
            mesh.writeGridfile(fn)
            with netCDF4.Dataset(fn) as ds:
                for k, v in ds.variables.items():
                    try:
                        out["file"][k] = v[...] if v.dtype.kind in "fiu" else (v[...].tobytes().decode(errors="replace") if hasattr(v[...], "tobytes") else str(v[...]))
                        if hasattr(out["file"][k], "filled"):
                            out["file"][k] = np.array(out["file"][k].filled(np.nan) if out["file"][k].dtype.kind == "f" else out["file"][k])
                    except Exception as e:  # pragma: no cover
                        out["file"][k] = "unreadable: %r" % e
                out["attrs"] = {a: str(ds.getncattr(a)) for a in ds.ncattrs()}
    return out


def generate(c, use_cache=True):
    """-> dict(ok, data | error, wall_s). Never raises."""
    os.makedirs(CACHE, exist_ok=True)
    k = key(c)
    path = os.path.join(CACHE, k + ".pkl")
    if use_cache and os.path.exists(path):
        try:
            with open(path, "rb") as f:
                return pickle.load(f)
        except Exception:
            pass
    t0 = time.time()
    so, se = sys.stdout, sys.stderr
    buf = io.StringIO()
    try:
        sys.stdout = buf
        eq, mesh = build_mesh(c)
        data = harvest(eq, mesh, c)
        res = dict(ok=True, data=data, wall_s=time.time() - t0, cfg=c)
    except BaseException as e:
        if isinstance(e, KeyboardInterrupt):
            raise
        res = dict(ok=False, error="%s: %s" % (type(e).__name__, e), tb=traceback.format_exc()[-3000:], wall_s=time.time() - t0, cfg=c)
    finally:
        sys.stdout, sys.stderr = so, se
    if not res["ok"] and res["error"].startswith(("ModuleNotFoundError", "ImportError", "MemoryError")):
        return res  # environmental: says nothing about the tree, never cached
    tmp = path + ".%d.tmp" % os.getpid()
    with open(tmp, "wb") as f:
        pickle.dump(res, f)
    os.replace(tmp, path)
    return res


def _gen(c):
    os.environ["OMP_NUM_THREADS"] = "1"
    return generate(c)


def generate_many(cfgs, workers=None):
    import concurrent.futures as cf
    import multiprocessing as mp

    workers = workers or min(len(cfgs), int(os.environ.get("VERIF_GRID_WORKERS", "14")))
    if workers <= 1:
        return [generate(c) for c in cfgs]
    with cf.ProcessPoolExecutor(max_workers=workers, mp_context=mp.get_context("fork")) as ex:
        return list(ex.map(_gen, cfgs))


def prune_cache(max_files=400):
    if not os.path.isdir(CACHE):
        return
    fs = sorted((os.path.getmtime(os.path.join(CACHE, f)), f) for f in os.listdir(CACHE))
    for _, f in fs[:-max_files]:
        try:
            os.remove(os.path.join(CACHE, f))
        except OSError:
            pass
