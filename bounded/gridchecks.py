"""Run-time contract clauses evaluated on generated meshes (bounded stand-in).

Every clause takes the harvested data of one grid (bounded/gridbank.py) and returns
dict(clause, evaluations, failures, worst, tol, samples).  Nothing here is a proof.
"""
import math

import numpy as np

LOCS = ["centre", "xlow", "ylow", "corners"]


# ----------------------------------------------------------------- analytic equilibria (independent of hypnotoad)
def analytic_psi(geom, sign=1.0, mirror=False):
    r0, z0 = 1.5, 0.3
    w = 0.3**2

    def bumps(cs):
        def f(R, Z, d=0):
            Z = -Z if mirror else Z
            out = 0.0
            for amp, zc in cs:
                e = amp * np.exp(-((R - r0) ** 2 + (Z - zc) ** 2) / w)
                if d == 0:
                    out = out + e
                elif d == 1:
                    out = out + e * (-2 * (R - r0) / w)
                else:
                    out = out + e * (-2 * (Z - zc) / w) * (-1.0 if mirror else 1.0)
            return sign * out

        return f

    table = {
        "lsn": [(1, -z0 + 0.3), (1, -z0 - 0.3)],
        "usn": [(1, z0 + 0.3), (1, z0 - 0.3)],
        "cdn": [(1, 0.0), (1, -2 * z0), (1, 2 * z0)],
        "udn": [(1, 0.0), (1, -2 * z0 - 0.002), (1, 2 * z0)],
        "ldn": [(-1, 0.0), (-1, -2 * z0), (-1, 2 * z0 + 0.003)],
        "udn2": [(1, 0.0), (1, -2 * z0 - 0.02), (1, 2 * z0)],
    }
    return bumps(table[geom])


def result(clause, n, fails, worst=None, tol=None, samples=None):
    return dict(clause=clause, evaluations=int(n), failures=int(len(fails)), worst=worst, tol=tol, samples=(fails[:3] if fails else (samples or [])))


def _regions(d):
    return d["regions"]


def _byid(d):
    return {r["myID"]: r for r in d["regions"]}


# ----------------------------------------------------------------- C01
def psi_on_flux_surface(d, tol_rel=1.0e-6):
    """psixy equals the radial psi-grid value of its index at all four locations
    (corners pinned to an X-point excepted)."""
    fails, n, worst = [], 0, 0.0
    for r in _regions(d):
        pv = r["psi_vals"]
        scale = abs(pv[-1] - pv[0]) + 1e-30
        m = r["mla"]["psixy"]
        want = {"centre": pv[1::2], "ylow": pv[1::2], "xlow": pv[0::2], "corners": pv[0::2]}
        for l in LOCS:
            if l not in m:
                continue
            a = m[l]
            err = np.abs(a - want[l][:, None]) / scale
            if l == "corners":
                # corners pinned to an X-point: allowed to deviate, but only by the (small)
                # difference between that X-point's psi and the separatrix value gridded
                # (connected double null); a pin on the wrong flux surface is NOT exempt
                for k, (xs, j) in enumerate(((r["xPointsAtStart"], 0), (r["xPointsAtEnd"], -1))):
                    for off, i in ((0, 0), (1, -1)):
                        if xs[r["radialIndex"] + off] is not None and err[i, j] < 5.0e-3:
                            err[i, j] = 0.0
            n += err.size
            worst = max(worst, float(err.max()))
            bad = np.argwhere(err > tol_rel)
            for i, j in bad[:2]:
                fails.append(dict(region=r["name"], loc=l, i=int(i), j=int(j), psixy=float(a[i, j]), psi_grid=float(want[l][i]), rel_err=float(err[i, j])))
    return result("psi(R,Z) at every grid point equals the psi of its radial index", n, fails, worst, tol_rel)


def psi_vs_analytic(d, tol_rel=2.0e-3):
    c = d["cfg"]
    if c["kind"] != "tokamak":
        return None
    psi = analytic_psi(c["geometry"], c["psi_sign"], c.get("mirror", False))
    fails, n, worst = [], 0, 0.0
    for r in _regions(d):
        pv = r["psi_vals"]
        scale = abs(pv[-1] - pv[0]) + 1e-30
        want = {"centre": pv[1::2], "ylow": pv[1::2], "xlow": pv[0::2], "corners": pv[0::2]}
        for l in ("centre", "xlow", "ylow"):
            R, Z = r["mla"]["Rxy"][l], r["mla"]["Zxy"][l]
            err = np.abs(psi(R, Z) - want[l][:, None]) / scale
            n += err.size
            worst = max(worst, float(err.max()))
            for i, j in np.argwhere(err > tol_rel)[:2]:
                fails.append(dict(region=r["name"], loc=l, i=int(i), j=int(j), rel_err=float(err[i, j])))
    return result("analytic psi (independent of the interpolant) at every grid point equals the psi of its radial index", n, fails, worst, tol_rel)


# ----------------------------------------------------------------- C02 / C06 (zShift)
def _interior_mask(r, shape, loc):
    """exclude the cells touching an X-point (metric is singular there)."""
    m = np.ones(shape, dtype=bool)
    if any(x is not None for x in r["xPointsAtStart"]):
        m[:, :1] = False
    if any(x is not None for x in r["xPointsAtEnd"]):
        m[:, -1:] = False
    return m


def metric_vs_displacements(d, tol=0.12):
    """g_11 dx^2 = |dr_x|^2, g_12 dx dy = dr_x.dr_y, hy^2 = |dr_y|^2/dy^2 from the grid's own
    neighbouring points (first-order displacements, second-order accurate: loose tolerance)."""
    fails, n, worst = [], 0, 0.0
    for r in _regions(d):
        m = r["mla"]
        if "g_11" not in m:
            continue
        R, Z = m["Rxy"], m["Zxy"]
        dx, dy = m["dx"]["centre"], m["dy"]["centre"]
        ex = np.stack([(R["xlow"][1:, :] - R["xlow"][:-1, :]) / dx, (Z["xlow"][1:, :] - Z["xlow"][:-1, :]) / dx])
        ey = np.stack([(R["ylow"][:, 1:] - R["ylow"][:, :-1]) / dy, (Z["ylow"][:, 1:] - Z["ylow"][:, :-1]) / dy])
        mask = _interior_mask(r, dx.shape, "centre")
        g11m, g12m, g22m = (ex * ex).sum(0), (ex * ey).sum(0), (ey * ey).sum(0)
        # poloidal cell length measured through the cell centre (two half chords): the
        # chord-vs-arc error of a coarse, curved cell is a quarter of that of the single chord
        half = np.sqrt((R["centre"] - R["ylow"][:, :-1]) ** 2 + (Z["centre"] - Z["ylow"][:, :-1]) ** 2) + np.sqrt((R["ylow"][:, 1:] - R["centre"]) ** 2 + (Z["ylow"][:, 1:] - Z["centre"]) ** 2)
        hy2m = (half / dy) ** 2
        for nm, meas, code in (("g_11", g11m, m["g_11"]["centre"]), ("hy^2 (poloidal part of g_22)", hy2m, m["hy"]["centre"] ** 2)):
            # chord vs arc: the measured chord is shorter than the arc by a curvature term,
            # second order in the (coarse) cell size
            err = np.abs(code / meas - 1.0) * (0.5 if nm.startswith("hy") else 1.0)
            err = np.where(mask, err, 0.0)
            n += int(mask.sum())
            worst = max(worst, float(err.max()))
            for i, j in np.argwhere(err > tol)[:2]:
                fails.append(dict(region=r["name"], comp=nm, i=int(i), j=int(j), code=float(code[i, j]), measured=float(meas[i, j])))
        code = m["g_12"]["centre"]
        scale = np.sqrt(g11m * g22m)
        err = np.abs(code - g12m) / scale
        err = np.where(mask, err, 0.0)
        n += int(mask.sum())
        worst = max(worst, float(err.max()))
        for i, j in np.argwhere(err > tol)[:2]:
            fails.append(dict(region=r["name"], comp="g_12", i=int(i), j=int(j), code=float(code[i, j]), measured=float(g12m[i, j]), bpsign=r["bpsign"]))
    return result("covariant metric reproduces the scalar products of the displacements between neighbouring grid points", n, fails, worst, tol)


def g11_xlow_vs_displacements(d, tol=0.06):
    """g_11 at the x-faces, INCLUDING the face shared with the inner neighbour: g_11_xlow dx_xlow^2
    is the squared path centre(i-1) -> face(i) -> centre(i) (two half chords), with the STORED
    dx_xlow; rows touching an X-point excepted."""
    fails, n, worst = [], 0, 0.0
    byid = _byid(d)
    for r in _regions(d):
        m = r["mla"]
        if "g_11" not in m or "xlow" not in m["g_11"] or "xlow" not in m.get("dx", {}):
            continue
        R, Z = m["Rxy"], m["Zxy"]
        g, dx = m["g_11"]["xlow"], m["dx"]["xlow"]
        nxp, ny = g.shape
        cols = _interior_mask(r, (1, ny), "centre")[0]
        for i in range(nxp):
            if 0 < i < nxp - 1:
                prev = (R["centre"][i - 1, :], Z["centre"][i - 1, :])
                nxt = (R["centre"][i, :], Z["centre"][i, :])
                where = "interior x-face"
            elif i == 0 and r["connections"].get("inner") is not None:
                nb = byid[r["connections"]["inner"]]["mla"]
                prev = (nb["Rxy"]["centre"][-1, :], nb["Zxy"]["centre"][-1, :])
                nxt = (R["centre"][0, :], Z["centre"][0, :])
                where = "join with the inner neighbour"
            else:
                continue
            if np.shape(prev[0]) != np.shape(nxt[0]):
                continue
            path = np.hypot(R["xlow"][i, :] - prev[0], Z["xlow"][i, :] - prev[1]) + np.hypot(nxt[0] - R["xlow"][i, :], nxt[1] - Z["xlow"][i, :])
            err = np.where(cols, np.abs(g[i, :] * dx[i, :] ** 2 / path**2 - 1.0), 0.0)
            n += int(cols.sum())
            worst = max(worst, float(err.max()))
            for j in np.argwhere(err > tol)[:2].reshape(-1):
                fails.append(dict(region=r["name"], where=where, i=int(i), j=int(j), g_11_dx2=float(g[i, j] * dx[i, j] ** 2), measured_path2=float(path[j] ** 2)))
    return result("g_11 at the x-faces (radial joins included) x dx_xlow^2 = squared centre-to-centre path through the face", n, fails, worst, tol)


def hy_ylow_vs_displacements(d, tol=0.05):
    """hy at the y-faces, INCLUDING the faces shared with the neighbouring region: hy_ylow dy is
    the path centre(j-1) -> face(j) -> centre(j) (two half chords), the previous centre being
    the lower neighbour's last one at a join (cells in the radial row touching an X-point
    excepted: the metric is singular there)."""
    fails, n, worst = [], 0, 0.0
    byid = _byid(d)
    for r in _regions(d):
        m = r["mla"]
        if "hy" not in m or "ylow" not in m["hy"]:
            continue
        R, Z = m["Rxy"], m["Zxy"]
        hy, dy = m["hy"]["ylow"], m["dy"]["ylow"]
        nx, nyp = hy.shape
        ok_rows = np.ones(nx, dtype=bool)
        ri = r["radialIndex"]
        for lst in (r["xPointsAtStart"], r["xPointsAtEnd"]):
            if ri < len(lst) and lst[ri] is not None:
                ok_rows[0] = False
            if ri + 1 < len(lst) and lst[ri + 1] is not None:
                ok_rows[-1] = False
        for j in range(nyp):
            if 0 < j < nyp - 1:
                prevc = (R["centre"][:, j - 1], Z["centre"][:, j - 1])
                nextc = (R["centre"][:, j], Z["centre"][:, j])
                where = "interior face"
            elif j == 0 and r["connections"].get("lower") is not None:
                nb = byid[r["connections"]["lower"]]["mla"]
                prevc = (nb["Rxy"]["centre"][:, -1], nb["Zxy"]["centre"][:, -1])
                nextc = (R["centre"][:, 0], Z["centre"][:, 0])
                where = "join with the lower neighbour"
            elif j == nyp - 1 and r["connections"].get("upper") is not None:
                nb = byid[r["connections"]["upper"]]["mla"]
                prevc = (R["centre"][:, -1], Z["centre"][:, -1])
                nextc = (nb["Rxy"]["centre"][:, 0], nb["Zxy"]["centre"][:, 0])
                where = "join with the upper neighbour"
            else:
                continue
            if np.shape(prevc[0]) != np.shape(nextc[0]):
                continue
            path = np.hypot(R["ylow"][:, j] - prevc[0], Z["ylow"][:, j] - prevc[1]) + np.hypot(nextc[0] - R["ylow"][:, j], nextc[1] - Z["ylow"][:, j])
            code = hy[:, j] * dy[:, j]
            err = np.where(ok_rows, np.abs(code / path - 1.0), 0.0)
            n += int(ok_rows.sum())
            worst = max(worst, float(err.max()))
            for i in np.argwhere(err > tol)[:2].reshape(-1):
                fails.append(dict(region=r["name"], where=where, i=int(i), j=int(j), hy_dy=float(code[i]), measured_path=float(path[i])))
    return result("hy at the y-faces (joins included) x dy = centre-to-centre path through the face", n, fails, worst, tol)


def g23_vs_zshift(d, tol=0.15):
    """g_23 = g_33 * d(zShift)/dy with the zShift stored in the same grid (centre and xlow)."""
    fails, n, worst = [], 0, 0.0
    for r in _regions(d):
        m = r["mla"]
        if "zShift" not in m or "g_23" not in m:
            continue
        zs = m["zShift"]
        dy = m["dy"]["centre"]
        for loc, lo in (("centre", "ylow"), ("xlow", "corners")):
            if loc not in m["g_23"] or lo not in zs:
                continue
            dz = (zs[lo][:, 1:] - zs[lo][:, :-1]) / dy[0, 0]
            rat = m["g_23"][loc] / m["g_33"][loc]
            if not np.any(np.abs(rat) > 1e-12):
                continue
            mask = _interior_mask(r, rat.shape, loc)
            err = np.abs(dz - rat) / (np.abs(rat) + 1e-30)
            err = np.where(mask, err, 0.0)
            n += int(mask.sum())
            worst = max(worst, float(err.max()))
            for i, j in np.argwhere(err > tol)[:2]:
                fails.append(dict(region=r["name"], loc=loc, i=int(i), j=int(j), g23_over_g33=float(rat[i, j]), dzShift_dy=float(dz[i, j])))
    return result("g_23 = g_33 d(zShift)/dy with the stored zShift", n, fails, worst, tol)


def zshift_halfcell(d, lo=0.04, hi=0.96):
    """Inside every cell the mid value of zShift lies between the face values, roughly half
    way (catches a wrong hand-over of the running integral at a region join)."""
    fails, n = [], 0
    for r in _regions(d):
        m = r["mla"]
        if "zShift" not in m:
            continue
        zs = m["zShift"]
        for mid, face in (("centre", "ylow"), ("xlow", "corners")):
            a, b = zs[mid], zs[face]
            tot = b[:, 1:] - b[:, :-1]
            if not np.any(np.abs(tot) > 1e-12):
                continue
            frac = (a - b[:, :-1]) / np.where(np.abs(tot) > 1e-300, tot, np.nan)
            ok = (frac > lo) & (frac < hi)
            if face == "corners" and "Bpxy" in m:
                # a face AT an X-point (Bp = 0 there): the integrand Bt/(R Bp) is not integrable
                # along the separatrix, the stored corner value is a truncated divergent integral
                # and no half-way statement applies to the cell that ends on it
                bp = np.abs(m["Bpxy"]["corners"])
                at_x = bp < 1e-6 * np.nanmax(bp)
                ok = ok | at_x[:, 1:] | at_x[:, :-1]
            n += frac.size
            for i, j in np.argwhere(~ok)[:2]:
                fails.append(dict(region=r["name"], loc=mid, i=int(i), j=int(j), fraction=float(frac[i, j])))
    return result("zShift at the cell middle lies between its values at the two y-faces (about half way)", n, fails, None, (lo, hi))


def zshift_continuity(d, tol=1e-8):
    """zShift is continuous across every region join except the start of its chain."""
    fails, n = [], 0
    by = _byid(d)
    for r in _regions(d):
        up = r["connections"].get("upper")
        if up is None or "zShift" not in r["mla"]:
            continue
        u = by[up]
        if u["yGroupIndex"] == 0:
            continue  # the chain closes here: the single jump of size ShiftAngle
        for face in ("ylow", "corners"):
            a, b = r["mla"]["zShift"][face][:, -1], u["mla"]["zShift"][face][:, 0]
            n += a.size
            err = np.abs(a - b)
            for i in np.argwhere(err > tol * (1 + np.abs(a)))[:2]:
                fails.append(dict(lower=r["name"], upper=u["name"], loc=face, i=int(i[0]), lower_value=float(a[i[0]]), upper_value=float(b[i[0]])))
    return result("zShift continuous across region joins (except where its chain starts)", n, fails, None, tol)


def shiftangle_chain(d, tol=1e-10):
    """ShiftAngle = zShift at the end of the periodic chain minus zShift at its start."""
    fails, n = [], 0
    by = _byid(d)
    for r in _regions(d):
        if r["yGroupIndex"] != 0 or r["connections"].get("lower") is None or "ShiftAngle" not in r["mla"]:
            continue
        # walk the chain
        last = r
        seen = {r["myID"]}
        while True:
            up = last["connections"].get("upper")
            if up is None or up in seen:
                break
            last = by[up]
            seen.add(up)
        for loc, face in (("centre", "ylow"), ("xlow", "corners")):
            if loc not in r["mla"]["ShiftAngle"]:
                continue
            sa = r["mla"]["ShiftAngle"][loc][:, 0]
            want = last["mla"]["zShift"][face][:, -1] - r["mla"]["zShift"][face][:, 0]
            n += sa.size
            err = np.abs(sa - want)
            for i in np.argwhere(err > tol * (1 + np.abs(want)))[:2]:
                fails.append(dict(region=r["name"], loc=loc, i=int(i[0]), ShiftAngle=float(sa[i[0]]), chain_total=float(want[i[0]]), regions_in_chain=len(seen)))
    return result("ShiftAngle is the zShift increment once round the closed chain of regions", n, fails, None, tol)


def dphidy_formula(d, tol=1e-12):
    fails, n = [], 0
    for r in _regions(d):
        m = r["mla"]
        for l in LOCS:
            if l in m.get("dphidy", {}) and l in m["hy"] and l in m["Btxy"]:
                want = m["hy"][l] * m["Btxy"][l] / (m["Bpxy"][l] * m["Rxy"][l])
                got = m["dphidy"][l]
                ok = np.isfinite(want)
                err = np.where(ok, np.abs(got - want) / (np.abs(want) + 1e-300), 0.0)
                n += int(ok.sum())
                for i, j in np.argwhere(err > tol)[:1]:
                    fails.append(dict(region=r["name"], loc=l, i=int(i), j=int(j), got=float(got[i, j]), want=float(want[i, j])))
    return result("dphidy = hy Btxy / (Bpxy Rxy)", n, fails, None, tol)


# ----------------------------------------------------------------- C05
def hy_vs_poloidal_distance(d, tol=1e-9):
    fails, n = [], 0
    by = _byid(d)
    for r in _regions(d):
        m = r["mla"]
        if "poloidal_distance" not in m:
            continue
        pd, hy, dy = m["poloidal_distance"], m["hy"], m["dy"]["centre"][0, 0]
        for mid, face in (("centre", "ylow"), ("xlow", "corners")):
            want = (pd[face][:, 1:] - pd[face][:, :-1]) / dy
            got = hy[mid]
            n += got.size
            err = np.abs(got - want) / np.abs(want)
            for i, j in np.argwhere(~(err < tol))[:1]:
                fails.append(dict(region=r["name"], loc=mid, i=int(i), j=int(j), hy=float(got[i, j]), d_poloidal_distance_dy=float(want[i, j])))
            if not np.all(got > 0):
                fails.append(dict(region=r["name"], loc=mid, problem="hy<=0"))
        # interior y-faces: arc length between the adjacent cell centres
        for face, mid in (("ylow", "centre"), ("corners", "xlow")):
            if r["ny"] < 2:
                continue
            want = (pd[mid][:, 1:] - pd[mid][:, :-1]) / dy
            got = hy[face][:, 1:-1]
            n += got.size
            err = np.abs(got - want) / np.abs(want)
            for i, j in np.argwhere(~(err < tol))[:1]:
                fails.append(dict(region=r["name"], loc=face, i=int(i), j=int(j) + 1, hy=float(got[i, j]), d_poloidal_distance_dy=float(want[i, j])))
        # across joins
        up = r["connections"].get("upper")
        if up is not None and by[up]["yGroupIndex"] != 0:
            u = by[up]
            for face, mid in (("ylow", "centre"), ("corners", "xlow")):
                want = (u["mla"]["poloidal_distance"][mid][:, 0] - pd[mid][:, -1]) / dy
                got = hy[face][:, -1]
                n += got.size
                err = np.abs(got - want) / np.abs(want)
                for i in np.argwhere(~(err < tol))[:1]:
                    fails.append(dict(lower=r["name"], upper=u["name"], loc=face, i=int(i[0]), hy=float(got[i[0]]), want=float(want[i[0]])))
    return result("hy dy = increment of poloidal_distance between y-faces (centres) / between cell centres (interior and joining faces); hy>0", n, fails, None, tol)


def poloidal_distance_monotone(d):
    fails, n = [], 0
    by = _byid(d)
    for r in _regions(d):
        m = r["mla"]
        if "poloidal_distance" not in m:
            continue
        pd = m["poloidal_distance"]
        for mid, face in (("centre", "ylow"), ("xlow", "corners")):
            seq = np.empty((pd[mid].shape[0], 2 * pd[mid].shape[1] + 1))
            seq[:, 0::2] = pd[face]
            seq[:, 1::2] = pd[mid]
            n += seq.size
            if not np.all(np.diff(seq, axis=1) > 0):
                i, j = np.argwhere(~(np.diff(seq, axis=1) > 0))[0]
                fails.append(dict(region=r["name"], loc=mid, i=int(i), half_index=int(j)))
        up = r["connections"].get("upper")
        if up is not None and by[up]["yGroupIndex"] != 0:
            for face in ("ylow", "corners"):
                a, b = pd[face][:, -1], by[up]["mla"]["poloidal_distance"][face][:, 0]
                n += a.size
                if not np.allclose(a, b, rtol=1e-12, atol=0):
                    fails.append(dict(lower=r["name"], upper=by[up]["name"], loc=face, problem="discontinuous across join"))
        if r["yGroupIndex"] == 0:
            for face in ("ylow", "corners"):
                # measured from the start of the chain
                n += 1
                c0 = pd[face][:, 0]
                startoff = r["contour_startInd"][1] // 2 if face == "ylow" else r["contour_startInd"][0] // 2
                v = pd[face][:, startoff]
                if not np.allclose(v, 0.0, atol=1e-12):
                    fails.append(dict(region=r["name"], loc=face, problem="not zero at the first face inside the domain", value=float(np.abs(v).max())))
    return result("poloidal_distance strictly increasing along y, continuous across joins, zero at the start of its chain", n, fails)


def arc_vs_chord(d, tol_hi=1.25):
    """hy dy is at least the chord between the y-faces and not much more than the
    two-chord path through the cell centre."""
    fails, n = [], 0
    for r in _regions(d):
        m = r["mla"]
        if "hy" not in m:
            continue
        R, Z = m["Rxy"], m["Zxy"]
        dy = m["dy"]["centre"][0, 0]
        chord = np.hypot(R["ylow"][:, 1:] - R["ylow"][:, :-1], Z["ylow"][:, 1:] - Z["ylow"][:, :-1])
        two = np.hypot(R["centre"] - R["ylow"][:, :-1], Z["centre"] - Z["ylow"][:, :-1]) + np.hypot(R["ylow"][:, 1:] - R["centre"], Z["ylow"][:, 1:] - Z["centre"])
        arc = m["hy"]["centre"] * dy
        n += arc.size
        # absolute accuracy of the arc length: second order in 1/Nfine of the contour's length
        # (what the property states); relative 1e-4 on top
        nfine = float(d["cfg"]["options"].get("finecontour_Nfine", 100))
        if "poloidal_distance" in m and "ylow" in m["poloidal_distance"]:
            pd = m["poloidal_distance"]["ylow"]
            length = (np.nanmax(pd, axis=1) - np.nanmin(pd, axis=1))[:, None]
        else:
            length = arc.sum(axis=1)[:, None]
        slack = length / nfine**2
        bad = ~((arc >= chord * (1 - 1e-4) - slack) & (arc <= two * tol_hi))
        for i, j in np.argwhere(bad)[:2]:
            fails.append(dict(region=r["name"], i=int(i), j=int(j), arc=float(arc[i, j]), chord=float(chord[i, j]), two_chords=float(two[i, j])))
    return result("chord - L/Nfine^2 <= hy dy <= 1.25 x two-chord path through the cell centre", n, fails, None, tol_hi)


# ----------------------------------------------------------------- C03
def fields_vs_analytic(d, tol=5e-3):
    c = d["cfg"]
    if c["kind"] != "tokamak":
        return None
    psi = analytic_psi(c["geometry"], c["psi_sign"], c.get("mirror", False))
    fails, n, worst = [], 0, 0.0
    for r in _regions(d):
        m = r["mla"]
        for l in ("centre", "xlow", "ylow"):
            R, Z = m["Rxy"][l], m["Zxy"][l]
            br, bz = psi(R, Z, 2) / R, -psi(R, Z, 1) / R
            bp = np.hypot(br, bz)
            scale = bp.max()
            for nm, got, want in (("Brxy", m["Brxy"][l], br), ("Bzxy", m["Bzxy"][l], bz), ("|Bpxy|", np.abs(m["Bpxy"][l]), bp)):
                err = np.abs(got - want) / scale
                n += err.size
                worst = max(worst, float(err.max()))
                for i, j in np.argwhere(err > tol)[:1]:
                    fails.append(dict(region=r["name"], field=nm, loc=l, i=int(i), j=int(j), got=float(got[i, j]), analytic=float(want[i, j])))
            sg = np.sign(m["Bpxy"][l])
            n += 1
            if not np.all(sg == r["bpsign"]):
                fails.append(dict(region=r["name"], loc=l, problem="sign(Bpxy) != bpsign"))
            bx = np.sqrt(m["Bpxy"][l] ** 2 + m["Btxy"][l] ** 2)
            if not np.allclose(bx, m["Bxy"][l], rtol=1e-12):
                fails.append(dict(region=r["name"], loc=l, problem="Bxy != sqrt(Bp^2+Bt^2)"))
    signs = {r["bpsign"] for r in _regions(d)}
    if len(signs) != 1:
        fails.append(dict(problem="bpsign differs between regions", signs=list(signs)))
    return result("Brxy, Bzxy, |Bpxy| equal the analytic field; one Bp sign for the whole grid; Bxy", n, fails, worst, tol)


def profiles_vs_input(d, tol=5e-3):
    """Btxy R = fpol(psi) and pressure(psi) against an independent interpolation of the
    input profiles (reflection about the separatrix in private-flux regions)."""
    c = d["cfg"]
    if c["kind"] != "tokamak" or c["fpol"] != "profile":
        return None
    prof = d.get("profiles")
    if not prof:
        return None
    fails, n, worst = [], 0, 0.0
    psi1d, f1d, p1d = (np.array(prof[k]) for k in ("psi1d", "fpol1d", "pressure"))
    order = np.argsort(psi1d)

    def interp(y, x):
        return np.interp(x, psi1d[order], y[order])

    psi_sep = d["meta"]["psi_bdry"]
    inc = psi1d[-1] > psi1d[0]
    for r in _regions(d):
        m = r["mla"]
        for l in ("centre", "xlow", "ylow"):
            ps = m["psixy"][l]
            want = interp(f1d, ps)
            got = m["Btxy"][l] * m["Rxy"][l]
            err = np.abs(got - want) / np.abs(f1d).max()
            n += err.size
            worst = max(worst, float(err.max()))
            for i, j in np.argwhere(err > tol)[:1]:
                fails.append(dict(region=r["name"], field="Btxy*R", loc=l, i=int(i), j=int(j), got=float(got[i, j]), fpol=float(want[i, j])))
            if "pressure" in m and l in m["pressure"] and p1d.size:
                pe = ps
                if "wall" in r["kind"]:
                    legpsi = r.get("leg_psi", psi_sep)
                    sgn = 1.0 if inc else -1.0
                    pe = legpsi + sgn * np.abs(ps - legpsi)
                want = interp(p1d, pe)
                err = np.abs(m["pressure"][l] - want) / np.abs(p1d).max()
                n += err.size
                worst = max(worst, float(err.max()))
                for i, j in np.argwhere(err > tol)[:1]:
                    fails.append(dict(region=r["name"], field="pressure", loc=l, i=int(i), j=int(j), got=float(m["pressure"][l][i, j]), want=float(want[i, j])))
    return result("Btxy R = fpol(psi), pressure = p(psi) (reflected in the private flux region) vs independent interpolation of the inputs", n, fails, worst, tol)


# ----------------------------------------------------------------- C08 / C12 (file level)
def shared_edges(d, tol=1e-6):
    fails, n = [], 0
    by = _byid(d)
    for r in _regions(d):
        up = r["connections"].get("upper")
        if up is not None:
            u = by[up]
            for nm in ("Rxy", "Zxy"):
                for loc in ("ylow", "corners"):
                    a, b = r["mla"][nm][loc][:, -1], u["mla"][nm][loc][:, 0]
                    n += a.size
                    if not np.array_equal(a, b):
                        fails.append(dict(lower=r["name"], upper=u["name"], field=nm, loc=loc, max_diff=float(np.abs(a - b).max())))
        out = r["connections"].get("outer")
        if out is not None:
            o = by[out]
            for nm in ("Rxy", "Zxy"):
                for loc in ("xlow", "corners"):
                    a, b = r["mla"][nm][loc][-1, :], o["mla"][nm][loc][0, :]
                    n += a.size
                    if not np.allclose(a, b, rtol=0, atol=tol):
                        fails.append(dict(inner=r["name"], outer=o["name"], field=nm, loc=loc, max_diff=float(np.abs(a - b).max())))
    return result("points on a shared edge coincide (y-edges exactly, x-edges to 1e-6)", n, fails, None, tol)


def file_topology(d):
    """Corner coordinates in the FILE exhibit exactly the adjacency that BOUT++'s reading of
    the topology integers in the same file gives; theta, chi as documented."""
    chi_f19 = []
    f = d["file"]
    need = ["ixseps1", "ixseps2", "jyseps1_1", "jyseps2_1", "jyseps1_2", "jyseps2_2", "ny_inner", "nx", "ny", "y_boundary_guards"]
    if any(k not in f for k in need):
        return result("file topology", 1, [dict(problem="missing topology integers", missing=[k for k in need if k not in f])])
    g = {k: int(np.array(f[k])) for k in need}
    myg, ny, nx = g["y_boundary_guards"], g["ny"], g["nx"]
    j11, j21, j12, j22, nyi, ix1, ix2 = (g[k] for k in ("jyseps1_1", "jyseps2_1", "jyseps1_2", "jyseps2_2", "ny_inner", "ixseps1", "ixseps2"))
    dn = j21 != j12
    fails, n = [], 0
    if j11 == -1 and j22 == ny:
        # grids without X-points are written with jyseps2_2 = ny; BOUT++ clamps it to ny-1 when
        # loading (same topology), so it is read as ny-1 here
        j22 = ny - 1
    if not (-1 <= j11 <= j21 <= j12 <= j22 <= ny - 1):
        fails.append(dict(problem="jyseps not ordered", values=g))
    # map guard-free y -> array index.  Boundary guard cells exist only at targets: none on a
    # core-only grid (array length == ny), myg at each of 2 (single null, limiter) or 4 targets
    n_arr = np.array(f["Rxy"]).shape[1]
    extra = n_arr - ny
    if extra not in (0, 2 * myg, 4 * myg):
        return result("file topology", 1, [dict(problem="array length is not ny + (0|2|4)*y_boundary_guards", ny=ny, array_ny=int(n_arr), y_boundary_guards=myg)])
    g_lo = myg if extra > 0 else 0
    g_up = 2 * myg if extra == 4 * myg else 0

    def aidx(y):
        return y + g_lo + (g_up if (dn and y >= nyi) else 0)

    def up(x, y):
        if y == j11 and x < ix1:
            return j22 + 1
        if y == j22 and x < ix1:
            return j11 + 1
        if dn and y == j21 and x < ix2:
            return j12 + 1
        if dn and y == j12 and x < ix2:
            return j21 + 1
        if (dn and y == nyi - 1) or y == ny - 1:
            return None
        if y + 1 > ny - 1:
            return None
        return y + 1

    Rll, Zll = np.array(f["Rxy_corners"]), np.array(f["Zxy_corners"])
    Rul, Zul = np.array(f["Rxy_upper_left_corners"]), np.array(f["Zxy_upper_left_corners"])
    for x in range(nx):
        for y in range(ny):
            u = up(x, y)
            if u is None or u >= ny:
                continue
            a, b = aidx(y), aidx(u)
            n += 1
            if not (abs(Rul[x, a] - Rll[x, b]) < 1e-8 and abs(Zul[x, a] - Zll[x, b]) < 1e-8):
                # X-point pinned corners coincide as well, so any mismatch is a wrong adjacency
                fails.append(dict(x=x, y=y, bout_successor=u, upper_left_corner=(float(Rul[x, a]), float(Zul[x, a])), successor_lower_left=(float(Rll[x, b]), float(Zll[x, b]))))
                if len(fails) > 5:
                    break
    # theta: 0 at the first core face, 2 pi after the last core cell (x inside the separatrix)
    # (only when core cells exist: an isolated X-point grid, TORPEX, has jyseps1_1 == jyseps2_1 and
    # jyseps1_2 == jyseps2_2, no closed surfaces)
    if "theta_ylow" in f and (j21 - j11) + (j22 - j12) > 0:
        th = np.array(f["theta_ylow"])
        dyv = float(np.array(f["dy"])[0, aidx(j11 + 1)])
        n += 2
        t0 = th[0, aidx(j11 + 1)]
        t1 = th[0, aidx(j22)] + dyv
        if abs(t0) > 1e-9 or abs(t1 - 2 * math.pi) > 1e-9:
            fails.append(dict(problem="theta is not 0..2pi round the core", theta_first_core_face=float(t0), theta_after_last_core_cell=float(t1)))
    for chi_name in ("chi", "chi_xlow", "chi_ylow"):
        if chi_name not in f:
            continue
        chi = np.array(f[chi_name])
        core = np.zeros(chi.shape[1], dtype=bool)
        for y in range(ny):
            in_core = (j11 < y <= j22) and not (dn and j21 < y <= j12)
            core[aidx(y)] = in_core
        n += chi.shape[1]
        xin = 0 if min(ix1, ix2) > 0 else None
        if xin is not None:
            fin = np.isfinite(chi[xin, :])
            no_bt = "Btxy" in f and not np.any(np.array(f["Btxy"]))
            if not np.array_equal(fin, core):
                item = dict(problem="%s finite/NaN mask does not match the core cells (first radial index)" % chi_name, finite=[int(v) for v in fin], core=[int(v) for v in core])
                if no_bt and not fin.any():
                    # known finding F19 (reported under its own obligation name): without a toroidal
                    # field zShift = ShiftAngle = 0 and chi = 0/0 on closed field lines as well
                    chi_f19.append(item)
                else:
                    fails.append(item)
    out = result("file: corners exhibit the adjacency BOUT++ reads from ixseps/jyseps/ny_inner; jyseps ordered; theta 0..2pi; chi NaN exactly off the core", n, fails)
    if chi_f19:
        extra = result("file [F19 class: equilibrium without toroidal field]: chi is NaN (0/0) on closed field lines too", 1, chi_f19)
        return [out, extra]
    return out


DOCUMENTED_VARS = ["nx", "ny", "y_boundary_guards", "ixseps1", "ixseps2", "jyseps1_1", "jyseps2_1", "jyseps1_2", "jyseps2_2", "ny_inner", "Rxy", "Zxy", "psixy", "dx", "dy", "Brxy", "Bzxy", "Bpxy", "Btxy", "Bxy",
                   "hy", "zShift", "ShiftAngle", "g11", "g22", "g33", "g12", "g13", "g23", "J", "g_11", "g_22", "g_33", "g_12", "g_13", "g_23", "bxcvx", "bxcvy", "bxcvz", "poloidal_distance", "total_poloidal_distance",
                   "penalty_mask", "closed_wall_R", "closed_wall_Z", "curvature_type", "Bt_axis", "psi_axis", "psi_bdry", "hypnotoad_inputs", "hypnotoad_inputs_yaml", "y-coord", "theta", "chi", "dphidy", "ShiftTorsion"]  # fmt: skip
NAN_OK = ("chi", "ShiftAngle", "total_poloidal_distance")


def file_valid(d):
    f = d["file"]
    fails, n = [], 0
    nx, ny_arr = None, None
    for k in DOCUMENTED_VARS:
        n += 1
        if k not in f and not (k in ("closed_wall_R", "closed_wall_Z", "psi_axis", "psi_bdry") and d["cfg"]["kind"] != "tokamak"):
            fails.append(dict(problem="documented variable missing", var=k))
    nx = int(np.array(f["nx"]))
    shape2d = np.array(f["Rxy"]).shape
    for k, v in f.items():
        if isinstance(v, np.ndarray) and v.dtype.kind == "f" and v.ndim == 2:
            n += 1
            if v.shape != shape2d and not k.startswith("closed_wall"):
                fails.append(dict(problem="2-D variable with a different shape", var=k, shape=list(v.shape), expected=list(shape2d)))
            if not any(k.startswith(p) for p in NAN_OK) and not np.all(np.isfinite(v)):
                fails.append(dict(problem="non-finite values", var=k, count=int((~np.isfinite(v)).sum())))
        elif isinstance(v, np.ndarray) and v.dtype.kind == "f" and v.ndim == 1 and not any(k.startswith(p) for p in NAN_OK):
            n += 1
            if not np.all(np.isfinite(v)):
                fails.append(dict(problem="non-finite values", var=k))
    if shape2d[0] != nx:
        fails.append(dict(problem="x size != nx"))
    # the documented NaNs of the x-direction arrays are those OUTSIDE the core only: on closed
    # surfaces (x < ixseps of the inner separatrix, when the grid has core cells) both are finite
    try:
        g = {k: int(np.array(f[k])) for k in ("ixseps1", "ixseps2", "jyseps1_1", "jyseps2_1", "jyseps1_2", "jyseps2_2")}
        has_core = (g["jyseps2_1"] - g["jyseps1_1"]) + (g["jyseps2_2"] - g["jyseps1_2"]) > 0
        ixc = max(0, min(g["ixseps1"], g["ixseps2"], nx))
        if has_core and ixc > 0:
            for k in ("ShiftAngle", "total_poloidal_distance"):
                if k in f:
                    v = np.array(f[k], dtype=float).ravel()
                    n += 1
                    if len(v) != nx:
                        fails.append(dict(problem="x-direction array of the wrong length", var=k, length=int(len(v))))
                    elif not np.all(np.isfinite(v[:ixc])):
                        fails.append(dict(problem="NaN on closed flux surfaces (documented NaNs are outside the core only)", var=k, core_x=ixc, values=[float(x) for x in v[: min(ixc, 6)]]))
                    elif k == "total_poloidal_distance" and not np.all(v[:ixc] > 0):
                        fails.append(dict(problem="total_poloidal_distance <= 0 in the core", values=[float(x) for x in v[: min(ixc, 6)]]))
    except KeyError:
        pass  # missing topology integers: reported above
    for k in ("hy", "dy"):
        n += 1
        if k in f and not np.all(np.array(f[k]) > 0):
            fails.append(dict(problem="%s<=0" % k))
    # cells not folded: signed area of the corner quadrilateral has one sign everywhere
    try:
        R = [np.array(f["Rxy" + s]) for s in ("_corners", "_lower_right_corners", "_upper_right_corners", "_upper_left_corners")]
        Z = [np.array(f["Zxy" + s]) for s in ("_corners", "_lower_right_corners", "_upper_right_corners", "_upper_left_corners")]
        area = 0.0
        for k in range(4):
            area = area + R[k] * Z[(k + 1) % 4] - R[(k + 1) % 4] * Z[k]
        n += area.size
        if not (np.all(area > 0) or np.all(area < 0)):
            bad = np.argwhere(np.sign(area) != np.sign(np.median(area)))
            fails.append(dict(problem="folded (or zero-area) cells", count=int(len(bad)), first=[int(v) for v in bad[0]]))
    except KeyError as e:
        fails.append(dict(problem="corner arrays missing", var=str(e)))
    return result("file: documented variables present, shapes (nx, ny+guards), finite except documented NaNs, hy,dy>0, no folded cell", n, fails)


# ----------------------------------------------------------------- C11
def _point_in_poly(R, Z, wall):
    inside = np.zeros(np.shape(R), dtype=bool)
    n = len(wall)
    for k in range(n):
        r1, z1 = wall[k]
        r2, z2 = wall[(k + 1) % n]
        cond = (z1 > Z) != (z2 > Z)
        with np.errstate(all="ignore"):
            xint = (r2 - r1) * (Z - z1) / (z2 - z1) + r1
        inside ^= cond & (R < xint)
    return inside


def _dist_to_poly(R, Z, wall):
    best = np.full(np.shape(R), np.inf)
    n = len(wall)
    for k in range(n):
        a, b = np.array(wall[k]), np.array(wall[(k + 1) % n])
        m = b - a
        t = ((R - a[0]) * m[0] + (Z - a[1]) * m[1]) / (m @ m)
        t = np.clip(t, 0, 1)
        best = np.minimum(best, np.hypot(R - a[0] - t * m[0], Z - a[1] - t * m[1]))
    return best


def targets_on_wall(d, tol=1e-5):
    c = d["cfg"]
    wall = np.array(d["meta"]["wall"])
    if wall.size == 0:
        return None
    wall = wall[:-1] if np.allclose(wall[0], wall[-1]) else wall
    myg = d["meta"]["myg"]
    orth = d["meta"]["orthogonal"]
    fails, n = [], 0
    for r in _regions(d):
        for side, j in (("lower", myg), ("upper", -1 - myg)):
            if r["connections"].get(side) is not None:
                continue
            R, Z = r["mla"]["Rxy"]["corners"][:, j], r["mla"]["Zxy"]["corners"][:, j]
            Ry, Zy = r["mla"]["Rxy"]["ylow"][:, j], r["mla"]["Zxy"]["ylow"][:, j]
            dist, disty = _dist_to_poly(R, Z, wall), _dist_to_poly(Ry, Zy, wall)
            if orth:
                # only the leg's own separatrix is guaranteed to end on the wall: it is the
                # radial edge of this region where the leg's X-point sits
                xp = r["xPointsAtStart"] if side == "upper" else r["xPointsAtEnd"]
                ks = [k for k, v in enumerate(xp) if v is not None]
                idx = []
                for k in ks:
                    if r["radialIndex"] == k - 1:
                        idx.append(len(R) - 1)
                    elif r["radialIndex"] == k:
                        idx.append(0)
                pts = [("corners", i, dist[i]) for i in idx]
            else:
                pts = [("corners", i, dist[i]) for i in range(len(R))] + [("ylow", i, disty[i]) for i in range(len(Ry))]
            for loc, i, dd in pts:
                n += 1
                if dd > tol:
                    fails.append(dict(region=r["name"], side=side, loc=loc, i=int(i), distance_to_wall=float(dd)))
    return result("target points (the y-face between boundary cells and the domain) lie on the wall", n, fails, None, tol)


def penalty_mask_vs_geometry(d):
    wall = np.array(d["meta"]["wall"])
    if wall.size == 0:
        return None
    wall = wall[:-1] if np.allclose(wall[0], wall[-1]) else wall
    fails, n = [], 0
    for r in _regions(d):
        if "penalty_mask" not in r:
            continue
        R, Z = r["mla"]["Rxy"]["ylow"], r["mla"]["Zxy"]["ylow"]
        ins = _point_in_poly(R, Z, wall)
        dist = _dist_to_poly(R, Z, wall)
        ins = np.where(dist < 1e-7, True, ins)  # a face exactly on the wall counts as inside (target)
        pm = r["penalty_mask"]
        both_in = ins[:, :-1] & ins[:, 1:]
        both_out = ~ins[:, :-1] & ~ins[:, 1:]
        amb = (dist[:, :-1] < 1e-7) | (dist[:, 1:] < 1e-7)
        n += pm.size
        # a face within 1e-7 of the wall (a target face of a non-orthogonal grid) may fall on either
        # side by rounding: the outside fraction of such a cell is then 0 up to (1e-7 / cell length)
        for i, j in np.argwhere(both_in & np.where(amb, pm > 1e-5, pm != 0.0))[:2]:
            fails.append(dict(region=r["name"], i=int(i), j=int(j), penalty_mask=float(pm[i, j]), expected=0.0))
        for i, j in np.argwhere(both_out & ~amb & (pm != 1.0))[:2]:
            fails.append(dict(region=r["name"], i=int(i), j=int(j), penalty_mask=float(pm[i, j]), expected=1.0))
        mixed = ~both_in & ~both_out & ~amb
        for i, j in np.argwhere(mixed & ~((pm > 0) & (pm < 1)))[:2]:
            fails.append(dict(region=r["name"], i=int(i), j=int(j), penalty_mask=float(pm[i, j]), expected="fraction in (0,1)"))
    w = np.array(d["meta"]["wall"])
    n += 1
    if w.size and not np.allclose(w[0], w[-1]):
        fails.append(dict(problem="closed_wall not closed"))
    if w.size:
        area = 0.5 * np.sum(w[:-1, 0] * w[1:, 1] - w[1:, 0] * w[:-1, 1])
        if not area > 0:
            fails.append(dict(problem="closed_wall not anticlockwise", signed_area=float(area)))
    return result("penalty_mask 0 / 1 / fraction agrees with an independent point-in-polygon test of the y-faces; closed_wall closed and anticlockwise", n, fails)


def cells_inside_wall(d):
    wall = np.array(d["meta"]["wall"])
    if wall.size == 0:
        return None
    wall = wall[:-1] if np.allclose(wall[0], wall[-1]) else wall
    myg = d["meta"]["myg"]
    fails, n = [], 0
    for r in _regions(d):
        R, Z = r["mla"]["Rxy"]["centre"], r["mla"]["Zxy"]["centre"]
        ins = _point_in_poly(R, Z, wall)
        lo = myg if r["connections"].get("lower") is None else 0
        hi = myg if r["connections"].get("upper") is None else 0
        dom = ins[:, lo : ins.shape[1] - hi]
        n += ins.size
        if not d["meta"]["orthogonal"]:
            if not np.all(dom):
                fails.append(dict(region=r["name"], problem="domain cell centre outside the wall", count=int((~dom).sum())))
            if lo and np.any(ins[:, :lo]):
                fails.append(dict(region=r["name"], problem="lower boundary guard cell centre inside the wall", count=int(ins[:, :lo].sum())))
            if hi and np.any(ins[:, -hi:]):
                fails.append(dict(region=r["name"], problem="upper boundary guard cell centre inside the wall", count=int(ins[:, -hi:].sum())))
    return result("non-orthogonal: cells between the targets inside the wall, boundary guard cells outside", n, fails)


def run_clauses(d, names):
    table = globals()
    out = []
    for nm in names:
        try:
            r = table[nm](d)
        except Exception as e:  # a crashing clause is reported, never silently dropped
            import traceback

            r = dict(clause=nm, evaluations=0, failures=1, samples=[dict(clause_crashed=repr(e), tb=traceback.format_exc()[-400:])], crashed=True)
        for k, rr in enumerate(r if isinstance(r, list) else [r]):
            if rr is not None:
                rr["name"] = nm if k == 0 else "%s#%d" % (nm, k)
                out.append(rr)
    return out


# ----------------------------------------------------------------- C04
def orthogonal_integral_curves(d, tol=2e-4):
    """Orthogonal grids: the points with one poloidal index on successive flux surfaces lie on
    one integral curve of grad(psi) (independent integration of the analytic gradient)."""
    c = d["cfg"]
    if c["kind"] != "tokamak" or not d["meta"]["orthogonal"]:
        return None
    from scipy.integrate import solve_ivp

    psi = analytic_psi(c["geometry"], c["psi_sign"], c.get("mirror", False))
    if c["options"].get("psi_interpolation_method") == "dct":
        tol = 5e-3  # the grid follows its own interpolant; the DCT interpolant differs from the analytic psi by ~1e-3

    def rhs(p, y):
        gR, gZ = psi(y[0], y[1], 1), psi(y[0], y[1], 2)
        g2 = gR * gR + gZ * gZ
        return [gR / g2, gZ / g2]

    fails, n, worst = [], 0, 0.0
    for r in _regions(d):
        m = r["mla"]
        R, Z = m["Rxy"]["centre"], m["Zxy"]["centre"]
        ny = R.shape[1]
        js = list(range(1, ny - 1)) if ny > 2 else []
        if len(js) > 4:
            js = js[:: max(1, len(js) // 4)]
        for j in js:
            for i in range(R.shape[0] - 1):
                p0 = psi(R[i, j], Z[i, j])
                p1 = psi(R[i + 1, j], Z[i + 1, j])
                if p0 == p1:
                    continue
                sol = solve_ivp(rhs, (p0, p1), [R[i, j], Z[i, j]], rtol=1e-10, atol=1e-12)
                end = sol.y[:, -1]
                dist = float(np.hypot(end[0] - R[i + 1, j], end[1] - Z[i + 1, j]))
                step = float(np.hypot(R[i + 1, j] - R[i, j], Z[i + 1, j] - Z[i, j]))
                n += 1
                worst = max(worst, dist / step)
                if dist > tol * max(step, 1e-3) + 2e-6:
                    fails.append(dict(region=r["name"], i=i, j=j, distance_from_integral_curve=dist, radial_step=step))
    return result("orthogonal: radial neighbours lie on one integral curve of grad(psi) (analytic gradient, independent ODE integration)", n, fails, worst, tol)


def orthogonal_metric_zero(d):
    if not d["meta"]["orthogonal"]:
        return None
    fails, n = [], 0
    for r in _regions(d):
        for nm in ("g12", "g13", "g_12", "g_13"):
            if nm in r["mla"]:
                for l, a in r["mla"][nm].items():
                    n += a.size
                    if np.any(a != 0):
                        fails.append(dict(region=r["name"], comp=nm, loc=l, max=float(np.abs(a).max())))
    return result("orthogonal grids: g12=g13=g_12=g_13=0", n, fails)
