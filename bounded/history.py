"""C15 bounded harness: sequences of Mesh.redistributePoints vs meshes built from scratch."""
import contextlib
import io
import os
import sys
import warnings

import numpy as np

USER = dict(orthogonal=False, psinorm_core=0.85, psinorm_sol=1.15, psinorm_pf=0.9, ny_inner_divertor=4, ny_sol=8, ny_outer_divertor=4, nx_core=3, nx_sol=3,
            psi_spacing_separatrix_multiplier=0.5, target_all_poloidal_spacing_length=0.3, y_boundary_guards=1, finecontour_Nfine=60, geometry_rtol=1.0e-6)  # fmt: skip
SETTINGS = {
    "A": {},
    "B": dict(nonorthogonal_target_all_poloidal_spacing_range=0.4, nonorthogonal_radial_range_power=2),
    "C": dict(nonorthogonal_xpoint_poloidal_spacing_range=0.08, nonorthogonal_target_all_poloidal_spacing_length=0.6),
}
VARS = ["Rxy", "Zxy"]
GEOM = ["hy", "poloidal_distance", "zShift", "Bpxy", "J", "g11", "g22", "g33", "g23"]
LOCS = ["centre", "xlow", "ylow", "corners"]


def make_eq(repo, nons, geometry="lsn"):
    sys.path.insert(0, repo)
    sys.path.insert(0, os.path.join(repo, "examples", "tokamak"))
    import importlib.util

    spec = importlib.util.spec_from_file_location("tokamak_example", os.path.join(repo, "examples", "tokamak", "tokamak_example.py"))
    te = importlib.util.module_from_spec(spec)
    spec.loader.exec_module(te)
    from hypnotoad import tokamak

    r1d, z1d, psi2d, psi1d = te.create_tokamak(geometry=geometry, nx=65, ny=65)
    w = 0.2
    wall = [(r1d[0] + w, z1d[0] + w), (r1d[0] + w, z1d[-1] - w), (r1d[-1] - w, z1d[-1] - w), (r1d[-1] - w, z1d[0] + w)]
    settings = dict(USER)
    settings.update(nons)
    eq = tokamak.TokamakEquilibrium(r1d, z1d, psi2d, psi1d, fpol1D=1.5 + 0.2 * (psi1d - psi1d[0]) / (psi1d[-1] - psi1d[0]), settings=settings, nonorthogonal_settings=dict(nons), wall=wall)
    return eq, settings


def snap(mesh, names):
    out = {}
    for rid, r in mesh.regions.items():
        for nm in names:
            v = getattr(r, nm)
            for l in LOCS:
                a = getattr(v, "_%s_array" % l, None)
                if a is not None:
                    out[(nm, l, r.name)] = np.array(a, dtype=float)
    return out


def job(args):
    repo, kind, seq = args
    warnings.filterwarnings("ignore")
    with contextlib.redirect_stdout(io.StringIO()):
        sys.path.insert(0, repo)  # BEFORE the first import of hypnotoad: the tree under test, not the installed one
        from hypnotoad.core.mesh import BoutMesh
        import hypnotoad

        assert os.path.realpath(os.path.dirname(os.path.dirname(hypnotoad.__file__))) == os.path.realpath(repo), "hypnotoad imported from %s, not from %s" % (hypnotoad.__file__, repo)

        eq, settings = make_eq(repo, SETTINGS[seq[0]])
        mesh = BoutMesh(eq, settings)
        out = []
        for step in seq[1:]:
            mesh.redistributePoints(dict(SETTINGS[step]))
        mesh.calculateRZ()
        pos = snap(mesh, VARS)
        mesh.geometry()
        geo = snap(mesh, GEOM)
        uo = dict(mesh.user_options)
        euo = dict(eq.user_options)
    return dict(seq=seq, pos=pos, geo=geo, mesh_user_options=uo, eq_user_options=euo, nonorth=dict(eq.nonorthogonal_options))


def run(repo, tier):
    import concurrent.futures as cf
    import multiprocessing as mp

    seqs = ["A", "B", "C", "AB", "ABA", "AC"] if tier == "quick" else ["A", "B", "C", "AB", "ABA", "ABAB", "ACB", "BCA", "ABCA"]
    with cf.ProcessPoolExecutor(min(len(seqs), 12), mp_context=mp.get_context("fork")) as ex:
        res = list(ex.map(job, [(repo, "x", s) for s in seqs]))
    by = {r["seq"]: r for r in res}
    rows, bad = [], []
    for s in seqs:
        if len(s) == 1:
            continue
        ref = by[s[-1]]
        got = by[s]
        worst_p = max(float(np.abs(got["pos"][k] - ref["pos"][k]).max()) for k in ref["pos"])
        worst_g = 0.0
        for k in ref["geo"]:
            a, b = got["geo"][k], ref["geo"][k]
            m = np.isfinite(a) & np.isfinite(b)
            if m.any():
                worst_g = max(worst_g, float((np.abs(a - b)[m] / (np.abs(b)[m].max() + 1e-300)).max()))
        rows.append(dict(sequence="->".join(s), final=s[-1], max_position_difference=worst_p, max_relative_geometry_difference=worst_g))
        if worst_p > 1e-6 or worst_g > 1e-5:
            bad.append(rows[-1])
        if got["mesh_user_options"] != by[s[0]]["mesh_user_options"] or got["eq_user_options"] != by[s[0]]["eq_user_options"]:
            bad.append(dict(sequence="->".join(s), problem="settings other than nonorthogonal_* changed"))
        if got["nonorth"] != ref["nonorth"]:
            bad.append(dict(sequence="->".join(s), problem="equilibrium's non-orthogonal options differ from those of a fresh build with the final settings"))
    # vacuity guard: the settings must give grids that differ, or "returning to earlier settings" tests nothing
    singles = [s for s in seqs if len(s) == 1]
    for i, a in enumerate(singles):
        for b in singles[i + 1 :]:
            dmax = max(float(np.abs(by[a]["pos"][k] - by[b]["pos"][k]).max()) for k in by[a]["pos"])
            rows.append(dict(sequence="%s vs %s (fresh builds)" % (a, b), max_position_difference=dmax, note="settings must differ visibly"))
            if dmax < 1e-3:
                bad.append(dict(sequence="%s vs %s" % (a, b), problem="harness vacuous: two different settings give the same grid (%.2g)" % dmax))
    return dict(rows=rows, bad=bad, n=len(seqs))


if __name__ == "__main__":
    import json

    print("RESULT " + json.dumps(run(sys.argv[1], sys.argv[2]), default=str))
