#!/bin/sh
# Build /verif/.venv offline: python 3.12 (same interpreter as /venv, so the
# repository's compiled deps are usable) + verification tooling from the wheelhouse.
set -e
cd "$(dirname "$0")"
if [ -x .venv/bin/python ] && .venv/bin/python -c "import z3, numpy, scipy, jsonschema" 2>/dev/null; then
  echo "setup: .venv already usable"; exit 0
fi
rm -rf .venv
/venv/bin/python -m venv .venv
PIP_NO_INDEX=1 .venv/bin/pip install -q --no-index --find-links /opt/veriftools/wheels z3-solver cvc5 sympy jsonschema deal icontract crosshair-tool hypothesis
SP=$(.venv/bin/python -c "import sysconfig; print(sysconfig.get_paths()['purelib'])")
echo "import site; site.addsitedir('/venv/lib/python3.12/site-packages')" > "$SP/zz_repo_deps.pth"
.venv/bin/python -c "import z3, numpy, scipy, jsonschema; print('setup ok: z3', z3.get_version_string())"
